"""C10 — type conversions round-trip and range-check."""
from __future__ import annotations
import json
import math
import random
import re
import struct
from fractions import Fraction
from typing import Any, Dict, Iterable, List, Optional

from ..core import Prop
from .. import celrun
from .c11_util import (US_S, US_DAY, MAX_LOC, MAX_DUR, MAX_DUR_S, EPOCH_US, fields_of_loc, loc_of_fields, is_leap,
                       make_ts, make_dur, ts_text, ts_lit, off_text, canon_time, run_cel, enc, cel_str,
                       expect_from_model, interp_catches, spec_duration_us)

I_MIN, I_MAX, U_MAX = -2**63, 2**63 - 1, 2**64 - 1
MIN15 = 15 * 60 * US_S
RFC_SHAPE = re.compile(r"^\d{4}-\d\d-\d\d[T ]\d\d:\d\d:\d\d([.,]\d{1,9})?(Z|[+-]\d\d(:?\d\d)?)?$", re.ASCII)


def bits(x: float) -> int:
    return struct.unpack("<Q", struct.pack("<d", x))[0]


def dbl(b: int) -> float:
    return struct.unpack("<d", struct.pack("<Q", b))[0]


def dec_str(n: int) -> str:
    """decimal text of an integer, by repeated division (not str())"""
    if n == 0:
        return "0"
    neg, n = n < 0, abs(n)
    ds = []
    while n:
        n, r = divmod(n, 10)
        ds.append("0123456789"[r])
    return ("-" if neg else "") + "".join(reversed(ds))


def utf8_encode(s: str) -> Optional[bytes]:
    """own UTF-8 encoder (None for surrogates)"""
    out = bytearray()
    for ch in s:
        c = ord(ch)
        if c < 0x80:
            out.append(c)
        elif c < 0x800:
            out += bytes([0xC0 | c >> 6, 0x80 | c & 63])
        elif c < 0x10000:
            if 0xD800 <= c <= 0xDFFF:
                return None
            out += bytes([0xE0 | c >> 12, 0x80 | (c >> 6) & 63, 0x80 | c & 63])
        else:
            out += bytes([0xF0 | c >> 18, 0x80 | (c >> 12) & 63, 0x80 | (c >> 6) & 63, 0x80 | c & 63])
    return bytes(out)


def utf8_decode(b: bytes) -> Optional[str]:
    """own strict UTF-8 decoder: None unless b is well-formed UTF-8 (Unicode 15 table 3-7)"""
    out, i, n = [], 0, len(b)
    while i < n:
        b0 = b[i]
        if b0 < 0x80:
            out.append(chr(b0)); i += 1; continue
        if 0xC2 <= b0 <= 0xDF:
            need, lo, hi, c = 1, 0x80, 0xBF, b0 & 0x1F
        elif b0 == 0xE0:
            need, lo, hi, c = 2, 0xA0, 0xBF, b0 & 0x0F
        elif 0xE1 <= b0 <= 0xEC or 0xEE <= b0 <= 0xEF:
            need, lo, hi, c = 2, 0x80, 0xBF, b0 & 0x0F
        elif b0 == 0xED:
            need, lo, hi, c = 2, 0x80, 0x9F, b0 & 0x0F
        elif b0 == 0xF0:
            need, lo, hi, c = 3, 0x90, 0xBF, b0 & 0x07
        elif 0xF1 <= b0 <= 0xF3:
            need, lo, hi, c = 3, 0x80, 0xBF, b0 & 0x07
        elif b0 == 0xF4:
            need, lo, hi, c = 3, 0x80, 0x8F, b0 & 0x07
        else:
            return None
        if i + need >= n:
            return None
        for k in range(1, need + 1):
            x = b[i + k]
            l, h = (lo, hi) if k == 1 else (0x80, 0xBF)
            if not (l <= x <= h):
                return None
            c = (c << 6) | (x & 0x3F)
        out.append(chr(c))
        i += need + 1
    return "".join(out)


def trunc_exact(x: float) -> int:
    f = Fraction(x)
    q = abs(f.numerator) // f.denominator
    return q if f >= 0 else -q


def int_boundary(small: bool) -> List[int]:
    ks = [1, 7, 8, 15, 16, 31, 32, 52, 53, 54, 62, 63, 64] if small else list(range(1, 65))
    vals = {0, 1, 2, 9, 10, 11, 99, 100, 101, 10**18, 10**19 - 1, 10**19}
    for k in ks:
        for d in (-1, 0, 1):
            vals.add(2**k + d)
    for k in range(1, 20):
        vals |= {10**k, 10**k - 1}
    vals |= {-v for v in vals}
    return sorted(vals)


BAD_UTF8 = ["80", "bf", "c0", "c080", "c1bf", "c2", "c220", "e0", "e080", "e08080", "e09f80", "eda080", "edbfbf", "ef", "efbf",
            "f0", "f08080", "f0808080", "f08f8080", "f4908080", "f5808080", "f8888080", "fe", "ff", "41ff42", "e282", "f09f98",
            "c3", "61c3", "c328", "a0a1", "e228a1", "e28228", "f0288cbc", "f09028bc", "f0288c28"]
GOOD_STRINGS = ["", "a", "héllo", "\u00ff\u0100", "\u07ff\u0800", "\uffff", "\ud7ff\ue000", "\U00010000", "\U0010ffff",
                "日本語", "😀 smile", "a\u0301", "\x00\x7f", "\u0080", "tab\tnl\n", "'quotes\"", "\\back", "\u2028"]
# Round 3.  MARKED TEXT: code points / character sequences that SOME decoder, reader or normaliser treats as
# something other than content, while `string(bytes)` / `bytes(string)` (strict UTF-8, nothing else) must carry them
# through unchanged.  The class of change this stands for: "the codec / the text path is swapped for a close relative
# that agrees on almost every string" — a signature-aware codec (utf-8-sig, utf-16), an error handler, a
# strip / C-string cut / universal-newline / Unicode-normalisation / case-folding / un-escaping step.  Each such
# relative is value AND position dependent, so every marker is placed alone, first, last, doubled, at both ends and
# in the middle of ordinary text (`_marked_strings`).
MARKED = {
    "signature": ['\ufeff', '\ufffe', '\xef\xbb\xbf', '\xff\xfe', '\xfe\xff', '+/v8', '\xef\xbb', '\ufeff\ufeff'],
    "terminator": ['\x00', '\x1a', '\x04', '\x7f', '\x1b'],
    "line/blank": ['\r\n', '\r', '\n', '\n\r', '\x85', '\u2028', '\u2029', ' ', '\t', '\x0b', '\x0c', '\x1c', '\xa0', '\u3000', '\u2003',
                   '\u200b', '\u1680'],
    "replacement": ['\ufffd', '?', '\ufffd\ufffd', '\\udc80', '\\xff', '\\ufffd', '&#65533;'],
    "escape": ['\\', '\\\\', '\\n', '\\u0041', '\\x41', '\\101', '\\N{BOM}', '%41', '%EF%BB%BF', '%', '&amp;', '&#65;', '=41', '=\r\n',
               '=?utf-8?q?a?=', 'xn--a', '+AGE-', '+-', '{0}', '%s', '$x', '"', "'", "b'a'"],
    "normal-form": ['e\u0301', '\xe9', 'A\u030a', '\xc5', '\u212b', '\u2126', '\u03a9', '\ufb01', '\uff21', '\xb5', '\u03bc',
                    '\u1100\u1161', '\uac00', '\u0958', '\u2000', '\xbd', '\u2460', '\u0344'],
    "case": ['\xdf', '\u1e9e', '\u0130', '\u0131', 'i\u0307', '\u03c2', '\u03c3', '\u01c5', '\u0149', '\u1f88', 'K', '\u212a'],
    "format": ['\u200e', '\u200f', '\u202e', '\u2060', '\xad', '\u180e', '\ufe0f', '\u200d', '\u200c', '\u061c', '\ufff9', '\U000e0001',
               '\U000e0041'],
    "edge": ['\x01', '\x1f', '\x80', '\x9f', '\u07ff', '\u0800', '\ud7ff', '\ue000', '\ufdd0', '\uffff', '\U00010000', '\U0001fffe',
             '\U0001f600', '\U000f0000', '\U0010fffd', '\U0010ffff'],
}
MARKED_FILL = ['id', 'name,value', 'a', 'x y', 'Zz', 't\xe9', '\u65e5\u672c', '\U0001f431 cat', '0', 'k=v']


def _marked_strings(rng: random.Random, quick: bool) -> List[str]:
    """every marker alone / first / last (always: the positions a signature, a terminator or a strip looks at), and one
    (quick) or all of: doubled in front, both ends, middle, second position, first after another marker"""
    allm = [m for ms in MARKED.values() for m in ms]
    out: List[str] = []
    for m in allm:
        w, w2 = rng.choice(MARKED_FILL), rng.choice(MARKED_FILL)
        out += [m, m + w, w + m]
        more = [m + m + w, m + w + m, w + m + w2, w[:1] + m + w[1:], rng.choice(allm) + m + w, m + rng.choice(allm) + w,
                w + m + m, m + w + "\n" + m + w2]
        out += [rng.choice(more)] if quick else more
    seen, uniq = set(), []
    for t in out:
        if t not in seen:
            seen.add(t)
            uniq.append(t)
    return uniq


INT_TEXTS = ["0", "-0", "+0", "007", "+5", "-5", " 1_0 ", "1_000", "1__0", "_1", "1_", "", "-", "+", " ", "12a", "1.0", "1e3",
             "0x10", "0X1f", "-0x10", "-0X1F", "0x", "0xg", "0x_1", "0x1_0", "0x-5", "0x+5", "0x0x5", "0x 5", " 0x5", "0x5 ",
             "-0x-5", "- 5", "--5", "+-5", "\t42\n", "\u00a042", "4 2", "0b1", "0o7", "1,000", "1L", "0x8000000000000000",
             "0x7fffffffffffffff", "-0x8000000000000000", "-0x8000000000000001", "0xffffffffffffffff", "0x10000000000000000",
             "9223372036854775807", "9223372036854775808", "-9223372036854775808", "-9223372036854775809",
             "18446744073709551615", "18446744073709551616", "00000000000000000000000000009", "1" * 30]


DEC_ALPHABET = "0123456789+-_ \t\n\r\x0b\x0c"
_BLANKS = " \t\n\r\x0b\x0c"


def dec_text_value(t: str) -> Optional[int]:
    """own reader of integer text over DEC_ALPHABET: blanks? sign? digits (_ digits)* blanks?  -> value, else None
    (a hand-written scanner: no int(), no regex)"""
    i, n = 0, len(t)
    while i < n and t[i] in _BLANKS:
        i += 1
    j = n
    while j > i and t[j - 1] in _BLANKS:
        j -= 1
    neg = False
    if i < j and t[i] in "+-":
        neg = t[i] == "-"
        i += 1
    if i >= j:
        return None
    val, prev_digit = 0, False
    while i < j:
        ch = t[i]
        if ch in "0123456789":
            val = val * 10 + "0123456789".index(ch)
            prev_digit = True
        elif ch == "_" and prev_digit and i + 1 < j and t[i + 1] in "0123456789":
            prev_digit = False
        else:
            return None
        i += 1
    return -val if neg else val


# Round 4.  GRAMMAR EDGES of integer text: every short arrangement of the tokens a lenient reader strips, skips or
# re-reads (signs, blanks, underscore, the hex prefix) in front of, inside and behind a digit string.  The class of
# change this stands for: "the text is taken apart by hand (a sign / prefix / blank split off) and the REST is handed
# to a reader that accepts its own sign / blanks / prefix" — so text with a doubled or detached token is parsed
# instead of rejected.
GRAMMAR_TOKENS = ["-", "+", " ", "_", "0x", "\t", "0"]


def _grammar_texts(rng: random.Random, quick: bool) -> List[str]:
    import itertools
    pre = [""] + ["".join(p) for k in (1, 2, 3) for p in itertools.product(GRAMMAR_TOKENS[:5], repeat=k)]
    out = []
    short = [p for p in pre if sum(1 for _ in p.replace("0x", "x")) <= 2]          # all arrangements of <= 2 tokens: always
    digs = lambda: rng.choice(["5", "10", "42", "7f", "123", dec_str(rng.randint(0, 10**6)), "9223372036854775807",
                                "9223372036854775808", "18446744073709551615"])
    for p in short:
        out += [p + rng.choice(["5", "10", "42", "123"]), p + digs()]
    long_ = [p for p in pre if p not in short]
    for p in (rng.sample(long_, 40) if quick else long_):
        out.append(p + digs())
    for _ in range(40 if quick else 600):                                       # tokens inside / behind the digits
        d = digs()
        k = rng.randint(1, len(d))
        tok = rng.choice(GRAMMAR_TOKENS) + rng.choice(["", ""] + GRAMMAR_TOKENS)
        out.append(rng.choice(["", "-", "+", " "]) + d[:k] + tok + d[k:])
    seen, uniq = set(), []
    for t in out:
        if t not in seen:
            seen.add(t)
            uniq.append(t)
    return uniq


class C10(Prop):
    pid = "C10"
    manifest = dict(
        technique='Lean 4 theorems over all Int / all code-point lists / all octet lists / all instants: int↔string and uint↔string round trips via a decimal-digits lemma, UTF-8 decode∘encode = id and decode-success ⇒ genuine encoding, timestamp and duration text round trips, int↔uint↔double compositions, truncation and range errors; constructor dispatch regenerated from celtypes.py as functions of (class of the source, text) and proved equal to the pinned dispatch for ALL classes and texts (semantic bridge), __str__ formats + range decorators regenerated + bridge; differential correspondence and an independent round-trip / range oracle on both runners, on single inputs and on sequences of related inputs in one process (memo / cache / shared-state changes)',
        text='proof: int(string(i)) = i for ALL int64, uint(string(u)) = u for ALL uint64, string(bytes(s)) = s for ALL Unicode strings, bad UTF-8 is always an error, timestamp(string(t)) = t for ALL whole-second timestamps of years 1..9999 and whole-minute offsets, duration(string(d)) = d for ALL whole-second durations in range, int/uint of a double truncate toward zero or fail, never clamp. double(string(d)) = d rests on CPython repr/float (trusted, corresponded on random bit patterns): partial',
        note='Lean kernel; CPython int()/str()/float()/repr(), UTF-8 codec, pendulum.parse trusted and corresponded; string(double)/double(string) not modelled (oracle only)',
        ref='DESIGN.md §5 C10')
    lean_targets = ["Cel.Props.C10", "Cel.Bridge.Conv", "Cel.Bridge.Time"]
    audit_namespaces = ["Cel.Props.C10", "Cel.Bridge.Conv", "Cel.Bridge.Time"]
    gen_names = ["Conv", "Time", "Num"]
    trusted = ["CPython `float.__repr__` (shortest round-trip) and `float(text)` (correctly rounded): double(string(d)) == d is corresponded on random bit patterns, not proved",
               "CPython `int(text[, base])`, `str(int)`, `math.trunc`, the UTF-8 codec: modelled in Lean and compared on every run",
               "pendulum.parse for RFC 3339 shaped text: modelled (shape, field ranges, zone designators) and compared; other shapes pendulum accepts are outside the model",
               "glibc strftime for %m %d %H %M %S %z"]
    rule = ("every conversion function × every source type on boundary values (±2^k±1, 10^k, MIN/MAX of int64/uint64, 2^63/2^64 as doubles "
            "and their neighbours, ±0, ±inf, NaN, subnormals), random 64-bit ints and double bit patterns, Unicode strings incl. astral and "
            "U+D7FF/U+E000 edges, byte strings valid and invalid UTF-8 (overlong, surrogate, >10FFFF, truncated, stray), int texts incl. "
            "sign/underscore/blank/0x quirks, whole-second timestamps on year boundaries/leap days/random with whole-minute offsets, RFC 3339 "
            "texts with fractions and all zone designators plus invalid dates, durations over the full range; round trips in both directions; "
            "through the constructor, the interpreter and the compiled runner with literals and bound variables; SEQUENCES of related conversions "
            "evaluated in one process (serially and on 4 threads; first steps repeated at the end): both signs / several spellings of one duration, "
            "one integer as many texts to both integer targets, equal values of different types (n, nu, n.0, true; -0.0/0.0), one instant at several "
            "offsets, text vs. bytes of the same content with damaged relatives, every route to the edges 0, ±2^63, 2^64, 10^18, 10^19, 2^53, "
            "identity conversions; each step judged by the single-case oracle. MARKED TEXT: ~120 markers that some codec / reader / normaliser "
            "treats as other than content (U+FEFF and other signatures, NUL and other terminators, line ends and blanks, U+FFFD, backslash / percent / "
            "entity escapes, decomposed and compatibility forms, case-folding specials, format controls, plane edges) alone, first, last, doubled, at "
            "both ends and inside ordinary text, as text and as bytes, with escaped string literals and b\"\\xNN\" literals. non-trivial = an error outcome, "
            "a value within 2^10 of a range boundary, a non-ASCII string, a timestamp before year 1000 / on a year boundary, or a non-identity composition")

    # ------------------------------------------------------------------------------------------
    def generate(self, rng: random.Random, tier: str) -> Iterable[Dict[str, Any]]:
        quick = tier == "quick"
        cases: List[Dict[str, Any]] = []
        VIAS = ["direct", "I", "C", "Ivar", "Cvar"]

        def via():
            return rng.choice(VIAS)

        cases += self._seq_cases(rng, quick)        # first: they must not inherit state from the single cases
        ints = [v for v in int_boundary(quick) if -2**65 <= v <= 2**65]
        i64 = [v for v in ints if I_MIN <= v <= I_MAX] + [rng.randint(I_MIN, I_MAX) for _ in range(150 if quick else 3000)]
        u64 = [v for v in ints if 0 <= v <= U_MAX] + [rng.randint(0, U_MAX) for _ in range(150 if quick else 3000)]
        if quick:
            i64 = rng.sample(i64, min(len(i64), 320))
            u64 = rng.sample(u64, min(len(u64), 240))
        for v in i64:
            cases.append({"kind": "conv", "f": "string", "src": "i", "v": v, "via": via()})
            cases.append({"kind": "conv", "f": "uint", "src": "i", "v": v, "via": via()})
            cases.append({"kind": "conv", "f": "double", "src": "i", "v": v, "via": via()})
            cases.append({"kind": "rt", "rt": "int_string", "v": v, "via": via()})
            cases.append({"kind": "rt", "rt": "string_int", "v": dec_str(v), "via": via()})
            cases.append({"kind": "rt", "rt": "int_uint", "v": v, "via": via()})
            cases.append({"kind": "rt", "rt": "int_double", "v": v, "via": via()})
        for v in u64:
            cases.append({"kind": "conv", "f": "string", "src": "u", "v": v, "via": via()})
            cases.append({"kind": "conv", "f": "int", "src": "u", "v": v, "via": via()})
            cases.append({"kind": "conv", "f": "double", "src": "u", "v": v, "via": via()})
            cases.append({"kind": "rt", "rt": "uint_string", "v": v, "via": via()})
            cases.append({"kind": "rt", "rt": "uint_int", "v": v, "via": via()})
            cases.append({"kind": "rt", "rt": "uint_double", "v": v, "via": via()})
        # decimal texts just outside the ranges, and other int texts
        texts = list(INT_TEXTS) + [dec_str(v) for v in ints if not (I_MIN <= v <= U_MAX)][:40]
        for _ in range(40 if quick else 2000):
            n = rng.choice(i64 + u64)
            t = dec_str(n)
            r = rng.random()
            if r < 0.2:
                t = rng.choice([" ", "\t", "\n", ""]) + t + rng.choice([" ", "\n", ""])
            elif r < 0.35 and len(t) > 2:
                k = rng.randint(1, len(t) - 1)
                t = t[:k] + "_" + t[k:]
            elif r < 0.45:
                t = ("-" if n < 0 else "") + rng.choice(["0x", "0X"]) + format(abs(n), rng.choice(["x", "X"]))
            elif r < 0.5:
                t = "+" + t if n >= 0 else t
            elif r < 0.55:
                t = t.replace("-", "-00") if n < 0 else "00" + t
            elif r < 0.6:
                k = rng.randint(0, len(t))
                t = t[:k] + rng.choice("abz.e,;/ ") + t[k:]
            texts.append(t)
        texts += _grammar_texts(rng, quick)          # round 4: sign / blank / underscore / prefix arrangements
        for t in texts:
            cases.append({"kind": "conv", "f": "int", "src": "s", "v": t, "via": via()})
            cases.append({"kind": "conv", "f": "uint", "src": "s", "v": t, "via": via()})
        # doubles
        dvals = [0.0, -0.0, 0.5, -0.5, 0.9999999999999999, -0.9999999999999999, 1.0, -1.0, 1.5, -1.5, 2.5, 1e15 + 0.5, 4503599627370495.5,
                 -4503599627370495.5, 9007199254740992.0, 9007199254740993.0, 2.0**63, -2.0**63, math.nextafter(2.0**63, 0), math.nextafter(2.0**63, math.inf),
                 math.nextafter(-2.0**63, 0), math.nextafter(-2.0**63, -math.inf), 2.0**64, math.nextafter(2.0**64, 0), math.nextafter(2.0**64, math.inf),
                 -1e-300, 5e-324, -5e-324, 2.2250738585072014e-308, 1.7976931348623157e308, -1.7976931348623157e308, 1e300, -1e300, 1e19, 1.8446744073709552e19,
                 math.inf, -math.inf, math.nan, 123456789.987654321, -123.456, 0.1, 1e22, 1e23, 9.007199254740993e15, 1e16, 1e-7, 123456.0, 1e-5, 0.0001]
        for _ in range(250 if quick else 6000):
            r = rng.random()
            if r < 0.4:
                dvals.append(dbl(rng.getrandbits(64)))
            elif r < 0.7:
                dvals.append(float(rng.randint(-2**66, 2**66)) + rng.choice([0.0, 0.5, 0.25, 0.75]))
            else:
                dvals.append(rng.uniform(-1e6, 1e6))
        for x in dvals:
            b = "nan" if x != x else bits(x)
            cases.append({"kind": "conv", "f": "int", "src": "d", "v": b, "via": via()})
            cases.append({"kind": "conv", "f": "uint", "src": "d", "v": b, "via": via()})
            if x == x:
                cases.append({"kind": "rt", "rt": "double_string", "v": b, "via": via()})
                if rng.random() < 0.5:
                    cases.append({"kind": "conv", "f": "string", "src": "d", "v": b, "via": via()})
        for _ in range(60 if quick else 1500):          # double(text) on plain decimal text
            n = rng.choice([rng.randint(-10**6, 10**6), rng.randint(-2**70, 2**70), rng.randint(2**53 - 4, 2**53 + 4) * rng.choice([1, -1, 2, 4])])
            t = dec_str(n)
            if rng.random() < 0.5:
                t += "." + "".join(rng.choice("0123456789") for _ in range(rng.randint(1, 20)))
            cases.append({"kind": "conv", "f": "double", "src": "s", "v": t, "via": via()})
        # strings and bytes
        strs = list(GOOD_STRINGS)
        pools = [(0x20, 0x7e), (0xa0, 0x7ff), (0x800, 0xd7ff), (0xe000, 0xffff), (0x10000, 0x10ffff), (0, 0x1f)]
        for _ in range(200 if quick else 4000):
            n = rng.choice([1, 1, 2, 3, 5, 8, 20])
            strs.append("".join(chr(rng.randint(*rng.choice(pools))) for _ in range(n)))
        for s in strs:
            cases.append({"kind": "conv", "f": "bytes", "src": "s", "v": s, "via": via()})
            cases.append({"kind": "rt", "rt": "string_bytes", "v": s, "via": via()})
        byts = [bytes.fromhex(h) for h in BAD_UTF8] + [utf8_encode(s) for s in strs[:30]]
        for _ in range(200 if quick else 4000):
            r = rng.random()
            if r < 0.4:
                byts.append(bytes(rng.getrandbits(8) for _ in range(rng.choice([1, 2, 3, 4, 6]))))
            else:   # damage a valid encoding
                b = bytearray(utf8_encode(rng.choice(strs)) or b"x") or bytearray(b"x")
                k = rng.randrange(len(b))
                op = rng.random()
                if op < 0.4:
                    b[k] = rng.getrandbits(8)
                elif op < 0.7:
                    del b[k]
                else:
                    b.insert(k, rng.choice([0x80, 0xbf, 0xc0, 0xe0, 0xf0, 0xff, 0xed]))
                byts.append(bytes(b))
        for b in byts:
            cases.append({"kind": "conv", "f": "string", "src": "y", "v": b.hex(), "via": rng.choice(["direct", "Ivar", "Cvar"])})
            cases.append({"kind": "rt", "rt": "bytes_string", "v": b.hex(), "via": rng.choice(["direct", "Ivar", "Cvar"])})
        # marked text (round 3): markers of signatures / terminators / line ends / escapes / normal forms at every position,
        # as text and as its bytes, through every via — literals included (escaped string literal, b"\xNN" bytes literal)
        for s in _marked_strings(rng, quick):
            b = utf8_encode(s)
            cases.append({"kind": "rt", "rt": "string_bytes", "v": s, "via": via(), "esc": 1})
            cases.append({"kind": "conv", "f": "string", "src": "y", "v": b.hex(), "via": via(), "esc": 1})
            if rng.random() < 0.5:
                cases.append({"kind": "rt", "rt": "bytes_string", "v": b.hex(), "via": via(), "esc": 1})
            if rng.random() < 0.5:
                cases.append({"kind": "conv", "f": "bytes", "src": "s", "v": s, "via": via(), "esc": 1})
            if rng.random() < 0.25:
                cases.append({"kind": "conv", "f": "string", "src": "s", "v": s, "via": via(), "esc": 1})
        for t in ["true", "false", "True", "False", "TRUE", "FALSE", "t", "f", "1", "0", "yes", "", "T", "tRuE", " true", "2", "-1", "00"]:
            cases.append({"kind": "conv", "f": "bool", "src": "s", "v": t, "via": via()})
        for b in (0, 1):
            cases.append({"kind": "conv", "f": "string", "src": "b", "v": b, "via": rng.choice(["I", "C"])})
        # timestamps
        offs = [k * MIN15 for k in range(-56, 57)] + [(23 * 60 + 59) * 60 * US_S, -(23 * 60 + 59) * 60 * US_S]
        years = sorted(set([1, 2, 9, 10, 99, 100, 999, 1000, 1582, 1900, 1969, 1970, 2000, 2024, 2038, 9999] + rng.sample(range(1, 10000), 60))) if quick else range(1, 10000)
        locs = [0, MAX_LOC - US_S + 1, MAX_LOC]
        for y in years:
            locs.append(loc_of_fields(y, 1, 1))
            locs.append(loc_of_fields(y, 12, 31, 23, 59, 59))
            if is_leap(y):
                locs.append(loc_of_fields(y, 2, 29, 12, 30, 45))
        for _ in range(300 if quick else 6000):
            locs.append(rng.randint(0, MAX_LOC) // US_S * US_S)
        for _ in range(30 if quick else 1000):
            locs.append(rng.randint(0, MAX_LOC))          # with microseconds (string() drops them)
        for l in locs:
            o = 0 if rng.random() < 0.5 else rng.choice(offs)
            v = via()
            cases.append({"kind": "rt", "rt": "ts_string", "v": [l, o], "via": v})
            if rng.random() < 0.5:
                cases.append({"kind": "conv", "f": "string", "src": "t", "v": [l, o], "via": via()})
            if rng.random() < 0.3:
                cases.append({"kind": "conv", "f": "int", "src": "t", "v": [l, o], "via": via()})
                cases.append({"kind": "conv", "f": "uint", "src": "t", "v": [l, o], "via": via()})
        # timestamp texts
        def ts_variant(l, o):
            y, m, d, H, M, S, us, _ = fields_of_loc(l)
            s = f"{y:04d}-{m:02d}-{d:02d}{rng.choice('TTT ')}{H:02d}:{M:02d}:{S:02d}"
            if rng.random() < 0.5:
                k = rng.randint(1, 9)
                s += rng.choice("..,") + f"{us:06d}000"[:k]
            mins = abs(o) // (60 * US_S)
            sg = "-" if o < 0 else "+"
            z = rng.choice(["Z", ""]) if o == 0 and rng.random() < 0.7 else rng.choice(
                [f"{sg}{mins // 60:02d}:{mins % 60:02d}", f"{sg}{mins // 60:02d}{mins % 60:02d}"] + ([f"{sg}{mins // 60:02d}"] if mins % 60 == 0 else []))
            return s + z
        tsx = ["2009-02-13T23:31:30Z", "0001-01-01T00:00:00Z", "9999-12-31T23:59:59Z", "0000-01-01T00:00:00Z", "2009-02-30T00:00:00Z", "2009-13-01T00:00:00Z",
               "2009-00-10T00:00:00Z", "2009-01-00T00:00:00Z", "2009-02-29T00:00:00Z", "2008-02-29T00:00:00Z", "1900-02-29T00:00:00Z", "2000-02-29T00:00:00Z",
               "2009-02-13T24:00:00Z", "2009-02-13T23:60:00Z", "2009-02-13T23:59:60Z", "2009-02-13T23:31:30+24:00", "2009-02-13T23:31:30-23:59",
               "2009-02-13T23:31:30+05:60", "2009-02-13T23:31:30+23:60", "2009-02-13T23:31:30+99:00", "2009-04-31T00:00:00Z", "2009-06-31T00:00:00+01:00",
               "2009-02-13T23:31:30.Z", "2009-02-13t23:31:30Z", "2009-02-13T23:31:30z", "", "abc", "2009-02-13T23:31:30Q", "12345-01-01T00:00:00Z",
               "2009-2-13T23:31:30Z", " 2009-02-13T23:31:30Z", "2009-02-13T23:31:30Z ", "10000-01-01T00:00:00Z", "2009-02-13T23:31:30+5:30"]
        for _ in range(400 if quick else 8000):
            l = rng.choice(locs) if rng.random() < 0.5 else rng.randint(0, MAX_LOC)
            o = 0 if rng.random() < 0.4 else rng.choice(offs)
            tsx.append(ts_variant(l, o))
        for _ in range(30 if quick else 2000):   # damaged
            t = ts_variant(rng.randint(0, MAX_LOC), rng.choice(offs))
            k = rng.randrange(len(t))
            tsx.append(t[:k] + rng.choice("0123456789-:TZ+. x") + t[k + 1:])
        for t in tsx:
            cases.append({"kind": "conv", "f": "timestamp", "src": "s", "v": t, "via": via()})
        # durations
        durs = [0, US_S, -US_S, MAX_DUR, -MAX_DUR, MAX_DUR - US_S, 59 * US_S, 60 * US_S, 3600 * US_S, 86400 * US_S, -86400 * US_S]
        for _ in range(80 if quick else 5000):
            durs.append(rng.choice([rng.randint(-MAX_DUR_S, MAX_DUR_S), rng.randint(-10**6, 10**6), rng.randint(-10**10, 10**10)]) * US_S)
        for _ in range(30 if quick else 2000):
            durs.append(rng.choice([rng.randint(-MAX_DUR, MAX_DUR), rng.randint(-10**9, 10**9), MAX_DUR - rng.randint(0, 10**6), -MAX_DUR + rng.randint(0, 10**6)]))
        for d in durs:
            cases.append({"kind": "rt", "rt": "dur_string", "v": d, "via": via()})
            cases.append({"kind": "conv", "f": "string", "src": "dur", "v": d, "via": via()})
            if d % US_S == 0 and rng.random() < 0.5:
                cases.append({"kind": "conv", "f": "duration", "src": "s", "v": f"{d // US_S}s", "via": via()})
        for s in [0, 1, -1, MAX_DUR_S, MAX_DUR_S + 1, -MAX_DUR_S, -MAX_DUR_S - 1, 10**15, I_MAX, I_MIN]:
            cases.append({"kind": "conv", "f": "duration", "src": "i", "v": s, "via": via()})
        return cases

    # ------------------------------------------------------------------------------------------
    def _seq_cases(self, rng: random.Random, quick: bool) -> List[Dict[str, Any]]:
        """Sequences of RELATED conversions evaluated in one process, in order: what a memo / cache / fast path
        keyed too coarsely gets wrong.  Each cluster is built around one random base value and holds inputs that
        a wrong key would confuse: the same text with the other sign / blanks / another spelling, equal values of
        different types (1, 1u, 1.0, true hash alike; equal instants with different offsets), the same text sent to
        different target types, an error outcome next to a success on a neighbouring input, the same input through
        the constructor and both runners.  The steps are shuffled and the first ones are repeated at the end (a
        memo poisoned by a later relative shows on the repeat).  The per-step oracle is the one of single cases."""
        VIAS = ["direct", "I", "C", "Ivar", "Cvar"]
        out: List[Dict[str, Any]] = []

        def V():
            return rng.choice(VIAS)

        def conv(f, src, v, via=None):
            return {"kind": "conv", "f": f, "src": src, "v": v, "via": via or V()}

        def rt(name, v, via=None):
            return {"kind": "rt", "rt": name, "v": v, "via": via or V()}

        def finish(steps, threads=False):
            steps = [st for st in steps if st is not None]
            rng.shuffle(steps)
            if len(steps) > 14:
                steps = steps[:14]
            k = min(len(steps), rng.choice([1, 2, 3]))
            steps = steps + [dict(st, via=V()) if rng.random() < 0.5 else dict(st) for st in steps[:k]]
            c = {"kind": "seq", "steps": steps}
            if threads:
                c["mode"] = "threads"
            elif rng.random() < 0.6:
                # one compiled program per (expression, runner), many activations: prefer bound variables
                c["share"] = True
                rv = rng.choice(["Ivar", "Cvar"])
                c["steps"] = [dict(st, via=rng.choice([rv, rv, rv, rv, "Ivar", "Cvar", st["via"]])) for st in steps]
            out.append(c)

        reps = 1 if quick else 12
        # (a) durations: both signs of one magnitude, several spellings of the same length of time
        for i in range(10 * reps):
            m = rng.choice([rng.randint(1, 120), 60 * rng.randint(1, 10**4), rng.randint(1, 10**6), rng.randint(1, MAX_DUR_S),
                            rng.choice([30, 60, 90, 3600, 86400, MAX_DUR_S])])
            steps = [rt("dur_string", m * US_S), rt("dur_string", -m * US_S), conv("string", "dur", m * US_S), conv("string", "dur", -m * US_S),
                     conv("duration", "dur", m * US_S), conv("duration", "dur", -m * US_S),
                     conv("duration", "s", f"{m}s"), conv("duration", "s", f"-{m}s"), conv("duration", "i", m), conv("duration", "i", -m)]
            extra = [f"0{m}s", f"{m}.0s", f"-{m}.000s"]
            if m % 60 == 0:
                extra += [f"{m // 60}m", f"-{m // 60}m", f"{m // 60 - 1}m60s"]
            if m % 3600 == 0:
                extra += [f"{m // 3600}h", f"-{m // 3600}h"]
            if m * 1000 <= MAX_DUR_S:
                extra += [f"{m}ms", f"-{m}ms", f"{m * 1000}ms"]
            extra += [f"{m}", f"{m}x", f"--{m}s", f"{m} s"]                      # not duration texts
            if m < MAX_DUR_S:
                extra += [f"{m + 1}s", f"-{m + 1}s"]
            steps += [conv("duration", "s", t) for t in rng.sample(extra, min(len(extra), 5))]
            finish(steps, threads=(i % 5 == 4))
        # (b) one integer, many texts, both integer targets (and double)
        for i in range(10 * reps):
            n = rng.choice([rng.randint(0, 1000), rng.randint(0, I_MAX), rng.randint(I_MAX - 3, I_MAX + 3), rng.randint(U_MAX - 3, U_MAX + 3),
                            rng.randint(0, U_MAX), 10**rng.randint(1, 19) + rng.randint(-2, 2), 2**rng.randint(1, 64) + rng.randint(-2, 2)])
            n = abs(n)
            t = dec_str(n)
            texts = [t, "-" + t, "+" + t, " " + t, t + " ", "0" + t, "-0" + t, hex(n), "-" + hex(n), hex(n).upper().replace("0X", "0X"),
                     t + "u", t + ".0", "0x" + t, "-0x" + t, "--" + t, "-+" + t, "- " + t, "+-" + t, t + "-"]
            if len(t) > 1:
                texts.append(t[:1] + "_" + t[1:])
            steps = []
            for x in rng.sample(texts, 7):
                steps.append(conv("int", "s", x))
                steps.append(conv("uint", "s", x))
            steps += [conv("double", "s", t), conv("double", "s", "-" + t)]
            if n <= I_MAX:
                steps += [rt("int_string", n), rt("int_string", -n), rt("string_int", t), rt("string_int", dec_str(-n)), conv("string", "i", -n)]
            if n <= U_MAX:
                steps += [rt("uint_string", n), conv("string", "u", n), conv("int", "u", n), rt("uint_int", n)]
            finish(steps, threads=(i % 5 == 4))
        # (c) equal values of different types (equal hash): n, nu, n.0, true/false — two conversions applied to all of them
        for i in range(8 * reps):
            n = rng.choice([0, 1, 0, 1, 2, rng.randint(0, 255), rng.randint(0, 2**53), 2**rng.randint(1, 62), rng.randint(0, I_MAX)])
            x = float(n)
            srcs = [("i", n), ("u", n), ("d", bits(x)), ("d", bits(-x)), ("i", -n), ("s", dec_str(n))] + ([("b", n)] if n in (0, 1) else [])
            steps = []
            for f in rng.sample(["string", "int", "uint", "double"], 2):
                for src, v in srcs:
                    if (f, src) in (("double", "b"), ("int", "b"), ("uint", "b")):
                        continue
                    steps.append(conv(f, src, v, rng.choice(["I", "C"]) if src == "b" else None))
            more = [rt("int_string", n), rt("uint_string", n), rt("double_string", bits(x)), rt("double_string", bits(-x)),
                    rt("int_double", n), rt("uint_double", n), rt("int_uint", n), rt("uint_int", n), conv("bool", "s", dec_str(n)),
                    conv("int", "d", bits(x + 0.5)), conv("uint", "d", bits(-x - 0.5)), conv("bool", "s", "true" if n else "false")]
            steps += rng.sample(more, 3)
            finish(steps, threads=(i % 4 == 3))
        # (d) one instant seen from several offsets (equal, same hash, different text) — two conversions applied to all of them
        offs = [0, 0, 3600 * US_S, -3600 * US_S, 19800 * US_S, -(9 * 3600 + 1800) * US_S, 14 * 3600 * US_S, -12 * 3600 * US_S, 60 * US_S, -60 * US_S]
        for i in range(8 * reps):
            utc = rng.choice([rng.randint(0, MAX_LOC) // US_S * US_S, loc_of_fields(rng.randint(1, 9999), 1, 1),
                              loc_of_fields(rng.randint(1, 9999), 12, 31, 23, 59, 59), loc_of_fields(rng.choice([999, 1000, 2000, 2024]), 2, 28, 23, 30)])
            views = [[utc + o, o] for o in rng.sample(offs, 4) if 0 <= utc + o <= MAX_LOC]
            l2 = utc + rng.choice([US_S, -US_S, 60 * US_S, 3600 * US_S, US_DAY])          # a near neighbour, UTC
            if 0 <= l2 <= MAX_LOC:
                views.append([l2, 0])
            kinds = rng.sample(["rt", "string", "int", "timestamp", "text"], 2)
            steps = []
            for l, o in views:
                for k in kinds:
                    if k == "rt":
                        steps.append(rt("ts_string", [l, o]))
                    elif k == "text":
                        steps.append(conv("timestamp", "s", ts_text(l, o)))
                        if o == 0:
                            steps.append(conv("timestamp", "s", ts_text(l, o)[:-1] + "+00:00"))
                    else:
                        steps.append(conv(k, "t", [l, o]))
            finish(steps, threads=(i % 4 == 3))
        # (e) text and bytes with the same content; a damaged relative of a valid encoding
        pools = [(0x20, 0x7e), (0xa0, 0x7ff), (0x800, 0xd7ff), (0xe000, 0xffff), (0x10000, 0x10ffff)]
        for i in range(6 * reps):
            w = "".join(chr(rng.randint(*rng.choice(pools))) for _ in range(rng.choice([1, 2, 4, 8])))
            b = utf8_encode(w)
            steps = [conv("bytes", "s", w), rt("string_bytes", w), conv("string", "y", b.hex(), rng.choice(["direct", "Ivar", "Cvar"])),
                     rt("bytes_string", b.hex(), rng.choice(["direct", "Ivar", "Cvar"]))]
            for _ in range(3):
                d = bytearray(b)
                k = rng.randrange(len(d))
                if rng.random() < 0.5:
                    d[k] ^= rng.choice([0x80, 0x40, 0x20, 0xff])
                else:
                    del d[k]
                steps += [conv("string", "y", bytes(d).hex(), rng.choice(["direct", "Ivar", "Cvar"])),
                          rt("bytes_string", bytes(d).hex(), rng.choice(["direct", "Ivar", "Cvar"]))]
            # round 3: the same content behind / in front of a marker (signature, terminator, line end, ...): a relative that a
            # signature-aware or stripping decoder maps to the SAME text as w
            allm = [m for ms in MARKED.values() for m in ms]
            for wm in (rng.choice(MARKED["signature"] + MARKED["terminator"] + MARKED["line/blank"]) + w, w + rng.choice(allm), rng.choice(allm) + w):
                steps += [rt("string_bytes", wm), conv("string", "y", utf8_encode(wm).hex(), rng.choice(["direct", "Ivar", "Cvar"]))]
            w2 = w + "x" if rng.random() < 0.5 else w.swapcase() + w[:1]
            steps += [conv("bytes", "s", w2), rt("string_bytes", w2), conv("string", "s", w), conv("bytes", "y", b.hex(), rng.choice(["direct", "Ivar", "Cvar"]))]
            finish(steps, threads=(i % 3 == 2))
        # (f) the edges of the two integer ranges, every route to them
        for i, e in enumerate([2**63, 2**64, 0, -2**63, 10**19, 2**53, 10**18] * reps):
            steps = []
            for n in range(e - 2, e + 3):
                if 0 <= n <= U_MAX:
                    steps += [conv("int", "u", n), rt("uint_int", n), rt("uint_string", n), conv("string", "u", n)]
                if I_MIN <= n <= I_MAX:
                    steps += [conv("uint", "i", n), rt("int_uint", n), rt("int_string", n)]
                steps += [conv("int", "s", dec_str(n)), conv("uint", "s", dec_str(n))]
            for x in (float(e), math.nextafter(float(e), math.inf), math.nextafter(float(e), -math.inf)):
                steps += [conv("int", "d", bits(x)), conv("uint", "d", bits(x))]
            finish(steps, threads=(i % 3 == 2))
        # (g) bool texts
        for i in range(2 * reps):
            finish([conv("bool", "s", t) for t in ["true", "True", "TRUE", "t", "false", "False", "FALSE", "f", "1", "0", "T", "tRuE", "yes", ""]])
        return out

    # ------------------------------------------------------------------------------------------
    @staticmethod
    def _value(src, v, esc=False):
        """(python value for a binding / direct call, CEL literal text or None); esc: cases of the marked-text dimension
        also have literals for non-ASCII text (\\uXXXX / \\UXXXXXXXX escapes) and for bytes (b"\\xNN...")"""
        from celpy import celtypes
        if esc and src == "s":
            lit = "'" + "".join(ch if 32 <= ord(ch) < 127 and ch not in "\\'\"" else
                                ("\\u%04x" % ord(ch) if ord(ch) < 0x10000 else "\\U%08x" % ord(ch)) for ch in v) + "'"
            return celtypes.StringType(v), lit
        if esc and src == "y":
            return celtypes.BytesType(bytes.fromhex(v)), 'b"' + "".join("\\x%02x" % x for x in bytes.fromhex(v)) + '"'
        if src == "i":
            lit = f"({v})" if I_MIN < v <= I_MAX else None
            return (celtypes.IntType(v) if I_MIN <= v <= I_MAX else None), lit
        if src == "u":
            return (celtypes.UintType(v) if 0 <= v <= U_MAX else None), (f"{v}u" if 0 <= v <= U_MAX else None)
        if src == "d":
            x = math.nan if v == "nan" else dbl(int(v))
            lit = None
            if x == x and not math.isinf(x):
                s = repr(x)
                if "e" in s and "." not in s.split("e")[0]:
                    m, e = s.split("e")
                    s = m + ".0e" + e
                lit = f"({s})"
            return celtypes.DoubleType(x), lit
        if src == "s":
            lit = cel_str(v) if all(32 <= ord(ch) < 127 or ch in "\n\t\r" for ch in v) else None
            return celtypes.StringType(v), lit
        if src == "y":
            return celtypes.BytesType(bytes.fromhex(v)), None
        if src == "b":
            return celtypes.BoolType(bool(v)), ("true" if v else "false")
        if src == "t":
            l, o = v
            whole_min = o % (60 * US_S) == 0
            return make_ts(l, o), (ts_lit(l, o) if whole_min else None)
        if src == "dur":
            return make_dur(v), (f"duration('{v // US_S}s')" if v % US_S == 0 else None)
        raise ValueError(src)

    RT = {"int_string": ("i", "int(string({x}))"), "uint_string": ("u", "uint(string({x}))"), "string_int": ("s", "string(int({x}))"),
          "int_uint": ("i", "int(uint({x}))"), "uint_int": ("u", "uint(int({x}))"), "int_double": ("i", "int(double({x}))"),
          "uint_double": ("u", "uint(double({x}))"), "double_string": ("d", "double(string({x}))"),
          "string_bytes": ("s", "string(bytes({x}))"), "bytes_string": ("y", "bytes(string({x}))"),
          "ts_string": ("t", "timestamp(string({x}))"), "dur_string": ("dur", "duration(string({x}))")}
    CTOR = {"int": "IntType", "uint": "UintType", "double": "DoubleType", "string": "StringType", "bytes": "BytesType",
            "bool": "BoolType", "timestamp": "TimestampType", "duration": "DurationType"}

    # ---- sequences: several related conversions in ONE process, in order (or on 4 threads) ---------
    def impl(self, c):
        if c["kind"] != "seq":
            return self._impl1(c)
        steps = c["steps"]
        if c.get("mode") == "threads":
            from concurrent.futures import ThreadPoolExecutor
            with ThreadPoolExecutor(max_workers=4) as ex:
                outs = list(ex.map(self._impl1, steps))
        else:
            # "share": steps with the same expression and runner reuse ONE compiled program, evaluated with
            # different bindings (state kept on a program / runner / environment between evaluations)
            progs = {} if c.get("share") else None
            outs = [self._impl1(st, progs) for st in steps]
        return "seq " + json.dumps(outs)

    @staticmethod
    def _run_shared(progs, src, runner, bindings):
        import celpy
        from celpy.evaluation import CELEvalError
        try:
            key = (src, runner)
            if key not in progs:
                env = celpy.Environment(runner_class=celrun.RUNNERS[runner])
                try:
                    progs[key] = env.program(env.compile(src))
                except celpy.CELParseError:
                    return "parse-error"
            return canon_time(progs[key].evaluate(bindings))
        except CELEvalError:
            return "err"
        except RecursionError:
            return "EXC RecursionError"
        except Exception as ex:  # noqa
            return f"EXC {type(ex).__name__}"

    def _impl1(self, c, progs=None):
        from celpy import celtypes
        if c["kind"] == "conv":
            src, expr, fns = c["src"], c["f"] + "({x})", [c["f"]]
        else:
            src, expr = self.RT[c["rt"]]
            fns = re.findall(r"[a-z]+(?=\()", expr)      # outer first
        val, lit = self._value(src, c["v"], bool(c.get("esc")))
        via = c["via"]
        if via in ("I", "C") and lit is None:
            via += "var"
        if val is None and via != "direct":
            return "unrepresentable-input"
        if via == "direct":
            try:
                r = val if val is not None else c["v"]
                for fn in reversed(fns):
                    r = getattr(celtypes, self.CTOR[fn])(r)
                return canon_time(r)
            except ValueError:
                return "raise ValueError"
            except Exception as ex:
                return "raise " + type(ex).__name__
        if via in ("I", "C"):
            return run_cel(expr.format(x=lit), via)
        if progs is not None:
            return self._run_shared(progs, expr.format(x="x"), via[0], {"x": val})
        return run_cel(expr.format(x="x"), via[0], {"x": val})

    # ------------------------------------------------------------------------------------------
    def model_line(self, c):
        if c["kind"] == "seq":
            return None          # every step is also generated/evaluated alone against the model
        v = c["v"]
        if c["kind"] == "conv":
            f, src = c["f"], c["src"]
            if f in ("int", "uint"):
                if src in ("i", "u"):
                    if (src == "i" and not I_MIN <= v <= I_MAX) or (src == "u" and not 0 <= v <= U_MAX):
                        return None
                    return f"{f} {src} {v}"
                if src == "d":
                    return None if v == "nan" else f"{f} d {v}"
                if src == "s":
                    return f"{f} s {enc(v)}" if self._ascii_digits_only(v) else None
                if src == "t":
                    return f"{f} t {v[0]} {v[1]}"
            if f == "double" and src in ("i", "u"):
                return f"double {src} {v}"
            if f == "string":
                if src in ("i", "u"):
                    return f"string {src} {v}"
                if src == "b":
                    return f"string b {v}"
                if src == "y":
                    return "string y " + (",".join(str(b) for b in bytes.fromhex(v)) or "-")
                if src == "t":
                    return f"string t {v[0]} {v[1]}" if v[1] % (60 * US_S) == 0 else None
                if src == "dur":
                    return f"string dur {v}"
            if f == "bytes" and src == "s":
                return "bytes s " + enc(v)
            if f == "bool" and src == "s":
                return "bool s " + enc(v) if self._ascii_digits_only(v) else None
            if f == "timestamp" and src == "s":
                return "ts s " + enc(v) if RFC_SHAPE.match(v) else None
            if f == "duration" and src == "i":
                return f"dur i {v}"
            if f == "duration" and src == "s":
                return "dur s " + enc(v) if all(ord(ch) < 128 or ch == "µ" for ch in v) else None
            return None
        rt = c["rt"]
        if rt == "int_string":
            return f"rt_is {v}"
        if rt == "uint_string":
            return f"rt_us {v}"
        if rt == "string_int":
            return f"rt_si {enc(v)}"
        if rt == "int_uint":
            return f"rt_iu {v}"
        if rt == "uint_int":
            return f"rt_ui {v}"
        if rt == "int_double":
            return f"rt_id {v}"
        if rt == "uint_double":
            return f"rt_ud {v}"
        if rt == "string_bytes":
            return "rt_sb " + enc(v)
        if rt == "bytes_string":
            return "rt_bs " + (",".join(str(b) for b in bytes.fromhex(v)) or "-")
        if rt == "ts_string":
            return f"rt_ts {v[0]} {v[1]}" if v[1] % (60 * US_S) == 0 else None
        if rt == "dur_string":
            return f"rt_dur {v}"
        return None

    @staticmethod
    def _ascii_digits_only(s: str) -> bool:
        """the model knows ASCII digits only; other Unicode decimal digits are outside it"""
        return all(ord(ch) < 128 or not ch.isdigit() and not ch.isdecimal() and not ch.isnumeric() for ch in s)

    @staticmethod
    def _fmt(kind):
        def text(s):
            return "string:" + json.dumps("" if s == "-" else "".join(chr(int(x)) for x in s.split(",")))
        def byts(s):
            return "bytes:" + ("" if s == "-" else bytes(int(x) for x in s.split(",")).hex())
        return {"int": lambda s: "int:" + s, "uint": lambda s: "uint:" + s, "double": lambda s: "double:" + s,
                "string": text, "bytes": byts, "bool": lambda s: "bool:" + ("true" if s == "1" else "false"),
                "timestamp": lambda s: "ts " + s, "duration": lambda s: "dur " + s}[kind]

    def model_expect(self, c, m):
        if c["kind"] == "conv":
            outer = c["f"]
        else:
            outer = re.match(r"[a-z]+", self.RT[c["rt"]][1]).group(0)
        via = c["via"]
        return expect_from_model(m, "direct" if via == "direct" else via, "function_eval", self._fmt(outer))

    # ------------------------------------------------------------------------------------------
    def oracle(self, c, out):
        if c["kind"] != "seq":
            return self._oracle1(c, out)
        steps = c["steps"]
        try:
            outs = json.loads(out[4:]) if out.startswith("seq ") else None
        except ValueError:
            outs = None
        if not isinstance(outs, list) or len(outs) != len(steps):
            return f"sequence of {len(steps)} conversions: harness outcome {out[:200]}"
        for i, (st, o) in enumerate(zip(steps, outs)):
            msg = self._oracle1(st, o)
            if msg:
                before = "; ".join(self._show(x) for x in steps[:i]) or "nothing"
                how = c.get("mode", "serial") + (", one program per expression" if c.get("share") else "")
                return f"step {i + 1} of {len(steps)} in one process ({how}), after [{before}]: {msg}"
        return None

    def _show(self, st):
        if st["kind"] == "conv":
            return f"{st['f']}({st['src']}:{st['v']!r})@{st['via']}"
        return f"{st['rt']}({st['v']!r})@{st['via']}"

    def _oracle1(self, c, out):
        v = c["v"]
        isval = celrun.is_value(out) and not out.startswith("raise ") and out != "unrepresentable-input"
        def want(exp, what):
            return None if out == exp else f"{what} via {c['via']}: expected {exp}, implementation gave {out}"
        def want_err(what):
            return f"{what} via {c['via']}: must be an error, implementation gave the value {out}" if isval else None
        if c["kind"] == "rt":
            rt = c["rt"]
            if rt == "int_string":
                return want(f"int:{v}", f"int(string({v}))")
            if rt == "uint_string":
                return want(f"uint:{v}", f"uint(string({v}u))")
            if rt == "string_int":
                n = int(v)
                return want("string:" + json.dumps(v), f"string(int({v!r}))") if I_MIN <= n <= I_MAX else want_err(f"int({v!r})")
            if rt == "int_uint":
                return want(f"int:{v}", f"int(uint({v}))") if v >= 0 else want_err(f"uint({v})")
            if rt == "uint_int":
                return want(f"uint:{v}", f"uint(int({v}u))") if v <= I_MAX else want_err(f"int({v}u)")
            if rt in ("int_double", "uint_double"):
                lo, hi = (I_MIN, I_MAX) if rt == "int_double" else (0, U_MAX)
                t = trunc_exact(float(v))            # float(v): CPython's correctly rounded int→double (trusted)
                tag = "int:" if rt == "int_double" else "uint:"
                return want(f"{tag}{t}", f"{rt}({v})") if lo <= t <= hi else want_err(f"{rt}({v}): double value {t}")
            if rt == "double_string":
                return want(f"double:{v}", f"double(string(d)) for bits {v} = {dbl(int(v))!r}")
            if rt == "string_bytes":
                if utf8_encode(v) is None:
                    return None
                return want("string:" + json.dumps(v), f"string(bytes({v!r}))")
            if rt == "bytes_string":
                b = bytes.fromhex(v)
                return want("bytes:" + v, f"bytes(string(b'{v}'))") if utf8_decode(b) is not None else want_err(f"string(bytes {v}) (invalid UTF-8)")
            if rt == "ts_string":
                l, o = v
                if l % US_S != 0 or o % (60 * US_S) != 0:
                    return None
                if out.startswith("ts "):
                    gl, go = (int(x) for x in out.split()[1:])
                    if gl - go == l - o:
                        return None
                return f"timestamp(string(t)) for t = {ts_text(l, o)} via {c['via']}: expected the same instant, got {out}"
            if rt == "dur_string":
                if v % US_S != 0:
                    return None
                return want(f"dur {v}", f"duration(string(d)) for d = {v // US_S}s")
            return None
        f, src = c["f"], c["src"]
        if f in ("int", "uint"):
            lo, hi, tag = (I_MIN, I_MAX, "int:") if f == "int" else (0, U_MAX, "uint:")
            if src in ("i", "u"):
                if out == "unrepresentable-input":
                    return None
                return want(f"{tag}{v}", f"{f}({v})") if lo <= v <= hi else want_err(f"{f}({v}) (out of range)")
            if src == "d":
                if v == "nan" or math.isinf(dbl(int(v))):
                    return want_err(f"{f}(non-finite double)")
                t = trunc_exact(dbl(int(v)))
                return want(f"{tag}{t}", f"{f}({dbl(int(v))!r})") if lo <= t <= hi else want_err(f"{f}({dbl(int(v))!r}) (beyond the range)")
            if src == "s":
                if re.fullmatch(r"-?(0|[1-9][0-9]*)", v):
                    n = int(v)
                    return want(f"{tag}{n}", f"{f}({v!r})") if lo <= n <= hi else want_err(f"{f}({v!r}) (out of range)")
                if v.isascii() and (v.strip() == "" or re.search(r"[^0-9a-fA-FxX_+\-\s]", v)):
                    return want_err(f"{f}({v!r}) (unparsable text)")
                # round 4: the GRAMMAR of integer text.  Over the decimal alphabet (digits, signs, blanks, underscore) a text
                # denotes an integer only as  blanks? sign? digits (_ digits)* blanks?  — ONE optional sign, attached to the
                # digits, nothing between the digits but single underscores.  Anything else over that alphabet (a second sign,
                # a sign detached from the digits, a blank inside, a stray underscore, no digit) is unparsable: an error.
                # A text of the grammar may be refused (blanks / underscores / '+' are a leniency of the host language), but if
                # a value comes out it is the denoted one, in range.
                if v and all(ch in DEC_ALPHABET for ch in v):
                    n = dec_text_value(v)
                    if n is None:
                        return want_err(f"{f}({v!r}) (not an integer text: sign / blank / underscore arrangement)")
                    if not lo <= n <= hi:
                        return want_err(f"{f}({v!r}) (out of range)")
                    return want(f"{tag}{n}", f"{f}({v!r})") if isval else None
                # well-formed hexadecimal text  -?0x<hex digits>  (the only hex spelling the statement can speak about; what
                # follows a stray sign / blank / underscore after the prefix is modelled as coded, not judged here)
                mh = re.fullmatch(r"(-?)0[xX]([0-9a-fA-F]+)", v)
                if mh and isval:
                    n = 0
                    for ch in mh.group(2).lower():
                        n = n * 16 + "0123456789abcdef".index(ch)
                    n = -n if mh.group(1) else n
                    return want(f"{tag}{n}", f"{f}({v!r})") if lo <= n <= hi else want_err(f"{f}({v!r}) (out of range)")
                return None
            return None
        if f == "double" and src in ("i", "u"):
            if abs(v) < 2**53 and out.startswith("double:") and out != "double:nan":
                x = dbl(int(out[7:]))
                if Fraction(x) != v:
                    return f"double({v}) via {c['via']}: {v} is exactly representable, got {x!r}"
                return None
            return None if isval else f"double({v}) via {c['via']}: expected a double, got {out}"
        if f == "string":
            if src in ("i", "u"):
                return want("string:" + json.dumps(dec_str(v)), f"string({v})")
            if src == "y":
                s = utf8_decode(bytes.fromhex(v))
                return want("string:" + json.dumps(s), f"string(bytes {v})") if s is not None else want_err(f"string(bytes {v}) (invalid UTF-8)")
            if src == "t":
                l, o = v
                if l % US_S != 0 or o % (60 * US_S) != 0:
                    return None
                return want("string:" + json.dumps(ts_text(l, o)), f"string(timestamp {ts_text(l, o)})")
            if src == "dur":
                return want("string:" + json.dumps(f"{v // US_S}s"), f"string(duration {v // US_S}s)") if v % US_S == 0 else None
            return None
        if f == "bytes" and src == "s":
            b = utf8_encode(v)
            return want("bytes:" + b.hex(), f"bytes({v!r})") if b is not None else None
        if f == "timestamp" and src == "s":
            m = re.fullmatch(r"(\d{4})-(\d\d)-(\d\d)T(\d\d):(\d\d):(\d\d)(?:\.(\d{1,6}))?(Z|[+-]\d\d:\d\d)", v, re.ASCII)
            if not m:
                if v.isascii() and not re.search(r"\d", v):
                    return want_err(f"timestamp({v!r}) (unparsable text)")
                return None
            y, mo, d, H, M, S = (int(m.group(i)) for i in range(1, 7))
            us = int((m.group(7) or "0").ljust(6, "0"))
            z = m.group(8)
            off = 0 if z == "Z" else (1 if z[0] == "+" else -1) * (int(z[1:3]) * 60 + int(z[4:6])) * 60 * US_S
            dim = [31, 29 if is_leap(y) else 28, 31, 30, 31, 30, 31, 31, 30, 31, 30, 31]
            valid = 1 <= y and 1 <= mo <= 12 and 1 <= d <= dim[mo - 1] and H < 24 and M < 60 and S < 60
            if not valid:
                return want_err(f"timestamp({v!r}) (not a calendar date/time)")
            if z != "Z" and (int(z[4:6]) >= 60 or abs(off) > 14 * 3600 * US_S):
                return None
            exp = loc_of_fields(y, mo, d, H, M, S, us) - off
            if out.startswith("ts "):
                gl, go = (int(x) for x in out.split()[1:])
                if gl - go == exp:
                    return None
            return f"timestamp({v!r}) via {c['via']}: expected the instant {exp} µs, got {out}"
        if f == "duration" and src == "i":
            if not I_MIN <= v <= I_MAX:
                return None
            return want(f"dur {v * US_S}", f"duration({v})") if abs(v) <= MAX_DUR_S else want_err(f"duration({v})")
        # a conversion to the type the value already has is the identity
        if (f, src) == ("string", "s"):
            return want("string:" + json.dumps(v), f"string({v!r})") if utf8_encode(v) is not None else None
        if (f, src) == ("bytes", "y"):
            return want("bytes:" + v, f"bytes(b'{v}')")
        if (f, src) == ("double", "d"):
            return want("double:" + str(v), f"double({v})")
        if (f, src) == ("timestamp", "t"):
            l, o = v
            if out.startswith("ts "):
                gl, go = (int(x) for x in out.split()[1:])
                if gl - go == l - o:
                    return None
            return f"timestamp(t) for t = {ts_text(l, o)} via {c['via']}: expected the same instant, got {out}"
        if (f, src) == ("duration", "dur"):
            return want(f"dur {v}", f"duration(d) for d = {v} µs")
        if f == "duration" and src == "s":
            # the text read exactly (own reader in c11_util); only exact whole-µs values are demanded here
            # (rounding of finer text is C11's business)
            val = spec_duration_us(v)
            if val is None:
                return want_err(f"duration({v!r}) (not a duration text)") if v.isascii() and not re.search(r"[0-9]", v) else None
            if abs(val) > MAX_DUR:
                return want_err(f"duration({v!r}) (beyond ±{MAX_DUR_S}s)")
            return want(f"dur {int(val)}", f"duration({v!r})") if val.denominator == 1 else None
        if f == "double" and src == "s":
            # plain decimal text: the correctly rounded value of the exact rational (int/int true division)
            if not re.fullmatch(r"[+-]?[0-9]{1,25}(\.[0-9]{1,25})?", v):
                return None
            fr = Fraction(v)
            x = fr.numerator / fr.denominator
            if v.startswith("-") and x == 0:
                x = -0.0
            return want(f"double:{bits(x)}", f"double({v!r})")
        if f == "string" and src == "d":
            # string(d) must denote d: its text, read exactly, rounds back to d (and keeps the sign of zero)
            if v == "nan" or math.isinf(dbl(int(v))):
                return None
            x = dbl(int(v))
            if not out.startswith("string:"):
                return f"string({x!r}) via {c['via']}: expected text, got {out}"
            t = json.loads(out[7:])
            if not re.fullmatch(r"-?[0-9]+(\.[0-9]+)?(e[+-]?[0-9]+)?", t):
                return f"string({x!r}) via {c['via']}: {t!r} is not a decimal floating-point text"
            fr = Fraction(t)
            y = fr.numerator / fr.denominator if abs(fr) < Fraction(2) ** 1024 else math.inf
            if y != x or t.startswith("-") != (math.copysign(1.0, x) < 0):
                return f"string({x!r}) via {c['via']}: the text {t!r} denotes {y!r}, not the source value"
            return None
        return None

    def nontrivial(self, c, out):
        if c["kind"] == "seq":
            return True
        if not celrun.is_value(out) or out.startswith("raise"):
            return True
        if c["kind"] == "rt":
            return True
        v = c["v"]
        if isinstance(v, int):
            return min(abs(v - I_MIN), abs(v - I_MAX), abs(v - U_MAX), abs(v)) < 1024
        if isinstance(v, str):
            return not v.isascii() or c["src"] in ("y", "d")
        if isinstance(v, list):
            y, m, d = fields_of_loc(v[0])[:3]
            return y < 1000 or (m, d) in ((1, 1), (12, 31), (2, 29))
        return True


PROP = C10()
