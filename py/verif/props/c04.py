"""C04 — evaluation ends in a value or a CEL error, never another exception."""
from __future__ import annotations

import itertools
import random
from typing import Any, Dict, Iterable, List, Optional, Tuple

from ..core import Prop

MACROS = ("map", "filter", "all", "exists", "exists_one")
WRAPPERS = ("google.protobuf.Int32Value", "google.protobuf.UInt64Value", "google.protobuf.DoubleValue", "google.protobuf.BoolValue",
            "google.protobuf.BytesValue", "google.protobuf.StringValue", "google.protobuf.ListValue", "google.protobuf.Struct")
NOT_METHODS = MACROS + ("reduce", "min", "has", "dyn")     # `e.map(…)` is a macro even though `map` is also a function
REL = {"<": "_<_", "<=": "_<=_", ">": "_>_", ">=": "_>=_", "==": "_==_", "!=": "_!=_", "in": "_in_"}
ADD = {"+": "_+_", "-": "_-_"}
MUL = {"*": "_*_", "/": "_/_", "%": "_%_"}

# CEL's minimum size limits (langdef.md "Syntax"): the generators stay within them
LIM_REPEAT = 32
LIM_TERNARY = 24
LIM_NEST = 12


def inside(text: str, line: Optional[int], col: Optional[int]) -> bool:
    """1-based (line, column) lies inside `text` (the position just after the last character of a line
    counts: that is where lark reports an unexpected end of input)."""
    if not isinstance(line, int) or not isinstance(col, int):
        return False
    lines = text.split("\n")
    return 1 <= line <= len(lines) and 1 <= col <= len(lines[line - 1]) + 1


class Rt:
    """lazy handles on the implementation under test"""
    def __init__(self):
        import celpy
        from celpy import celtypes as ct
        from celpy import evaluation as ev
        from ..translate import measure_c04 as M
        from ..translate import gen_c04
        self.celpy, self.ct, self.ev, self.M, self.gen = celpy, ct, ev, M, gen_c04
        self.pool = M.pool_by_name()
        self.bf = ev.base_functions
        self.envs: Dict[Tuple[str, Optional[str]], Any] = {}
        self._tab = None
        self.fnames = sorted(k for k in self.bf if k[0].isalpha())

    def env(self, runner: str, package: Optional[str] = None):
        k = (runner, package)
        if k not in self.envs:
            R = {"I": self.celpy.InterpretedRunner, "C": self.celpy.CompiledRunner}[runner]
            self.envs[k] = self.celpy.Environment(package=package, runner_class=R)
        return self.envs[k]

    @property
    def tab(self):
        if self._tab is None:
            self._tab = self.gen.compute()
        return self._tab

    def cid(self, c: type) -> int:
        return self.tab["ids"].get(c, 999)

    def cname(self, i: int) -> str:
        cl = self.tab["classes"]
        return cl[i].__name__ if 0 <= i < len(cl) else f"class#{i}"


_RT: Optional[Rt] = None


def rt() -> Rt:
    global _RT
    if _RT is None:
        _RT = Rt()
    return _RT


# ------------------------------------------------------------------------------------------------------
# host functions used by the fuzz stream (they raise what an application's function may raise)
# ------------------------------------------------------------------------------------------------------

def _host_functions():
    from celpy.evaluation import CELEvalError

    def f_key(x): raise KeyError(x)
    def f_index(x): raise IndexError("boom")
    def f_zero(x): return 1 // 0
    def f_overflow(x): raise OverflowError("big")
    def f_runtime(x): raise RuntimeError("bad")
    def f_assert(x): assert False
    def f_noargs(x): raise ValueError()
    def f_type_noargs(x): raise TypeError()
    def f_cel(x): raise CELEvalError("inner")
    def f_stop(x): raise StopIteration()
    def f_lookup(x): return {}[x]
    def f_attr(x): return x.nosuch
    def f_unicode(x): return b"\xff".decode("utf-8")
    def f_id(x): return x
    return [f_key, f_index, f_zero, f_overflow, f_runtime, f_assert, f_noargs, f_type_noargs, f_cel, f_stop,
            f_lookup, f_attr, f_unicode, f_id]


# ------------------------------------------------------------------------------------------------------
# running the implementation
# ------------------------------------------------------------------------------------------------------

def confirm_timeout_late(fn):
    """decorator shim: `confirm_timeout` is defined further down (next to the deadline it belongs to)"""
    import functools

    @functools.wraps(fn)
    def wrapper(*a, **kw):
        return confirm_timeout(fn)(*a, **kw)
    return wrapper


@confirm_timeout_late
def run_impl(src: str, runner: str, bindings: Dict[str, Any], package: Optional[str] = None,
             functions: Optional[list] = None) -> str:
    """`ok` | `err` | `parse-error` | `EXC <Class>` (+ ` @stage`) | `… RENDER <Class>` | `parse-error BADPOS l:c`"""
    R = rt()
    celpy, ev = R.celpy, R.ev
    stage = "environment"
    try:
        env = R.env(runner, package)
        stage = "compile"
        try:
            ast = env.compile(src)
        except celpy.CELParseError as ex:
            try:
                str(ex), repr(ex)
            except Exception as e2:
                return f"parse-error RENDER {type(e2).__name__}"
            if not inside(src, ex.line, ex.column):
                return f"parse-error BADPOS {ex.line}:{ex.column}"
            return "parse-error"
        stage = "program"
        prog = env.program(ast, functions=functions)
        stage = "evaluate"
        with _deadline(EVAL_TIMEOUT_S):
            prog.evaluate(bindings)
        return "ok"
    except ev.CELEvalError as ex:
        if stage != "evaluate":
            return f"EXC CELEvalError @{stage}"
        try:
            str(ex), repr(ex)
        except Exception as e2:
            return f"err RENDER {type(e2).__name__}"
        return "err"
    except RecursionError:
        return f"EXC RecursionError @{stage}"
    except EvaluationTimeout:
        return f"EXC EvaluationTimeout(>{EVAL_TIMEOUT_S}s) @{stage}"
    except MemoryError:
        return f"EXC MemoryError @{stage}"
    except Exception as ex:  # noqa
        return f"EXC {type(ex).__name__} @{stage}"


EVAL_TIMEOUT_S = 30


class EvaluationTimeout(BaseException):
    """an evaluation of an expression within CEL's size limits did not end (normal ones take milliseconds)"""


class _deadline:
    def __init__(self, seconds: int):
        self.s = seconds

    def __enter__(self):
        # the budget is CPU time of this process (ITIMER_VIRTUAL), so that a busy machine cannot turn a 0.4 s evaluation
        # into a "timeout"; a wall-clock alarm at ten times the budget remains as a backstop for an evaluation that blocks
        import signal, threading
        self.on = threading.current_thread() is threading.main_thread()
        if self.on:
            def fire(signum, frame):
                raise EvaluationTimeout()
            self.old = signal.signal(signal.SIGALRM, fire)
            self.oldv = signal.signal(signal.SIGVTALRM, fire)
            signal.setitimer(signal.ITIMER_VIRTUAL, self.s)
            signal.alarm(self.s * 10)

    def __exit__(self, *a):
        import signal
        if self.on:
            signal.setitimer(signal.ITIMER_VIRTUAL, 0)
            signal.alarm(0)
            signal.signal(signal.SIGVTALRM, self.oldv)
            signal.signal(signal.SIGALRM, self.old)
        return False


def confirm_timeout(fn):
    """An EvaluationTimeout is a verdict only when it is confirmed: the same case is run once more with the cyclic garbage
    collector switched off (a harness process holding 10^5 cases makes allocation-heavy evaluations crawl through full
    collections — measured: 0.4 s alone, > 30 s inside a thorough run) and four times the budget.  A genuinely exponential or
    non-terminating evaluation (the D43 class) times out again and is reported; anything else returns its real outcome."""
    import functools

    @functools.wraps(fn)
    def wrapper(*a, **kw):
        global EVAL_TIMEOUT_S
        out = fn(*a, **kw)
        if isinstance(out, str) and out.startswith("EXC EvaluationTimeout"):
            import gc
            was, old = gc.isenabled(), EVAL_TIMEOUT_S
            gc.collect()
            gc.disable()
            EVAL_TIMEOUT_S = old * 4
            try:
                out = fn(*a, **kw)
            finally:
                EVAL_TIMEOUT_S = old
                if was:
                    gc.enable()
        return out
    return wrapper


def outcome(R: Rt, thunk) -> str:
    """outcome of applying a primitive directly: ok | okerr | raise:<class id>"""
    try:
        v = thunk()
    except RecursionError as ex:
        return f"raise:{R.cid(type(ex))}"
    except Exception as ex:
        return f"raise:{R.cid(type(ex))}"
    return "okerr" if isinstance(v, R.ev.CELEvalError) else "ok"


# ------------------------------------------------------------------------------------------------------
# depth-1 cases: one construct applied to pool values — CEL text + model line + direct primitive outcome
# ------------------------------------------------------------------------------------------------------

def leaf(R: Rt, name: str, var: str):
    """-> (cel text, bindings, python value, model token)"""
    if name == "mv":        # the macro variable (only as the body of a macro)
        return "v_", {}, None, "mv"
    p = R.pool[name]
    if name == "err":
        return "(1/0)", {}, R.ev.CELEvalError("divide by zero", ZeroDivisionError, ("division by zero",)), "e"
    return var, {var: p.make()}, p.make(), "v"


def d1_build(R: Rt, c: Dict[str, Any]):
    """-> (src, bindings, model line or None)"""
    ct, ev, bf = R.ct, R.ev, R.bf
    shape, ops, x = c["shape"], c["ops"], c.get("x")
    L = [leaf(R, n, v) for n, v in zip(ops, ("a", "b", "c", "d"))]
    b: Dict[str, Any] = {}
    for _, bb, _, _ in L:
        b.update(bb)
    T = [l[0] for l in L]
    Vv = [l[2] for l in L]
    K = [l[3] for l in L]
    anyerr = "e" in K

    def line(top, out, expr, truth="t", itn=0, itb=0, br="other"):
        return f"d1 {top} {out} {truth} {itn} {itb} {br} {expr}"

    if shape == "un":
        op = {"!": "!_", "-": "-_"}[x]
        return f"{x}{T[0]}", b, line("unary", outcome(R, lambda: bf[op](Vv[0])), f"un {op} {K[0]}")
    if shape == "bin":
        for tbl, site, tag in ((REL, "relation", "rel"), (ADD, "addition", "add"), (MUL, "multiplication", "mul"),
                               ({"||": "_||_"}, "condOr", "or"), ({"&&": "_&&_"}, "condAnd", "and")):
            if x in tbl:
                op = tbl[x]
                e = f"{tag} {op} {K[0]} {K[1]}" if tag in ("rel", "add", "mul") else f"{tag} {K[0]} {K[1]}"
                return f"{T[0]} {x} {T[1]}", b, line(site, outcome(R, lambda: bf[op](Vv[0], Vv[1])), e)
    if shape == "cond":
        truth = "t"
        t = True
        try:
            t = bool(Vv[0])
            truth = "t" if t else "f"
        except Exception as ex:
            truth = f"raise:{R.cid(type(ex))}"
        F = ct.BoolType(False)
        l, r = (Vv[1], F) if t else (F, Vv[2])
        return (f"{T[0]} ? {T[1]} : {T[2]}", b,
                line("exprCond", outcome(R, lambda: bf["_?_:_"](Vv[0], l, r)), f"cond {K[0]} {K[1]} {K[2]}", truth=truth))
    if shape == "index":
        return f"{T[0]}[{T[1]}]", b, line("memberIndex", outcome(R, lambda: bf["_[_]"](Vv[0], Vv[1])), f"index {K[0]} {K[1]}")
    if shape == "dot":
        v = Vv[0]
        if isinstance(v, ev.CELEvalError) or not isinstance(v, (ct.MessageType, ct.MapType)):
            return f"{T[0]}.{x}", b, line("dotMap", "ok", f"dot {K[0]} {x}", br="other")
        if isinstance(v, ct.MessageType):
            return f"{T[0]}.{x}", b, line("dotMessage", outcome(R, lambda: v.get(x)), f"dot {K[0]} {x}", br="msg")
        return f"{T[0]}.{x}", b, line("dotMap", outcome(R, lambda: v[x]), f"dot {K[0]} {x}", br="map")
    if shape == "hasdot":
        # has(e.f): the macro evaluates the member_dot node; an error VALUE means "absent", an exception still escapes
        v = Vv[0]
        if isinstance(v, ev.CELEvalError) or not isinstance(v, (ct.MessageType, ct.MapType)):
            return f"has({T[0]}.{x})", b, line("dotMap", "ok", f"call has 1 dot {K[0]} {x}", br="other")
        if isinstance(v, ct.MessageType):
            return f"has({T[0]}.{x})", b, line("dotMessage", outcome(R, lambda: v.get(x)), f"call has 1 dot {K[0]} {x}", br="msg")
        return f"has({T[0]}.{x})", b, line("dotMap", outcome(R, lambda: v[x]), f"call has 1 dot {K[0]} {x}", br="map")
    if shape == "call":
        src = f"{x}({', '.join(T)})"
        e = f"call {x} {len(K)} " + " ".join(K)
        if x in ("has", "dyn"):
            return src, b, line("literal", "ok", e.strip())
        if x not in bf:
            return src, b, line("funcResolve", f"raise:{R.cid(KeyError)}", e.strip())
        out = "ok" if anyerr else outcome(R, lambda: bf[x](*Vv))
        return src, b, line("funcCall", out, e.strip())
    if shape == "mcall":
        src = f"{T[0]}.{x}({', '.join(T[1:])})"
        e = f"mcall {x} {len(K) - 1} " + " ".join(K)
        if x not in bf:
            return src, b, line("methodResolve", f"raise:{R.cid(KeyError)}", e)
        out = "ok" if anyerr else outcome(R, lambda: bf[x](*Vv))
        return src, b, line("methodCall", out, e)
    if shape == "macro":
        # ops = [receiver, body]; body "mv" = the macro variable itself
        body_name = ops[1]
        T1, K1 = T[1], K[1]
        src = f"{T[0]}.{x}(v_, {T1})"
        v = Vv[0]
        import typing
        if isinstance(v, ev.CELEvalError) or not isinstance(v, typing.Iterable):
            return src, b, line("macroIter", "ok", f"macro {x} {K[0]} {K1}", itb=0)
        items = list(v)
        n = len(items)
        if x in ("all", "exists"):
            if n > 1:
                return src, b, None
            out = "ok"
            if n == 1:
                bodyv = items[0] if body_name == "mv" else Vv[1]
                init = ct.BoolType(x == "all")
                op = "_&&_" if x == "all" else "_||_"
                out = outcome(R, lambda: bf[op](init, bodyv))
            return src, b, line("macroFold", out, f"macro {x} {K[0]} {K1}", itn=n, itb=1)
        return src, b, line("macroIter", "ok", f"macro {x} {K[0]} {K1}", itn=min(n, 3), itb=1)
    if shape == "min":
        import typing
        v = Vv[0]
        src = f"{T[0]}.min()"
        if isinstance(v, ev.CELEvalError) or not isinstance(v, typing.Iterable):
            return src, b, line("macroMin", "ok", f"min {K[0]}", itb=0)
        return src, b, line("macroMin", outcome(R, lambda: min(v)), f"min {K[0]}", itb=1)
    if shape == "bad":
        return x.replace("$", T[0]), b, line("literal", "ok", "bad")
    if shape == "list":
        return "[" + ", ".join(T) + "]", b, line("exprlist", "ok", f"list {len(K)} " + " ".join(K))
    if shape == "map":
        src = "{" + ", ".join(f"{T[i]}: {T[i + 1]}" for i in range(0, len(T), 2)) + "}"
        S = R.M
        out = "ok"
        if not anyerr:
            import lark
            sites = {s.name: s for s in R.tab["sites"]}
            # the real `mapinits` on the evaluated children
            stub = _stub(R)
            out = outcome(R, lambda: stub.mapinits(_stub_tree("mapinits", [], list(Vv))))
        return src, b, line("mapLit", out, f"map {len(K)} " + " ".join(K))
    if shape == "obj0":
        v = Vv[0]
        out = outcome(R, lambda: v(None))
        return f"{T[0]}{{}}", b, line("objectNew0", out, f"obj 0 {K[0]}")
    if shape == "obj":
        v = Vv[0]
        msg = ct.MessageType({ct.StringType("value"): Vv[1]})
        out = "ok" if K[0] == "e" else outcome(R, lambda: v(msg))
        return f"{T[0]}{{value: {T[1]}}}", b, line("objectNew", out, f"obj 1 {K[0]} {K[1]}")
    if shape == "objw":
        # a well-known wrapper type (an annotation of the Environment) applied to a message with a `value` field
        cls = R.celpy.googleapis[x]
        msg = ct.MessageType({ct.StringType("value"): Vv[0]})
        return f"{x}{{value: {T[0]}}}", b, line("objectNew", outcome(R, lambda: cls(msg)), f"obj 1 v {K[0]}")
    if shape == "ident":
        present = c.get("present", True)
        bb = dict(b) if present else {}
        act = R.ev.Activation(annotations=dict(R.celpy.googleapis))
        act2 = act.clone()
        act2.identifiers.load_values(bb)
        out = outcome(R, lambda: act2.resolve_variable("a"))
        if x == "dot":
            return ".a", bb, line("dotIdent", out, "dotid")
        return "a", bb, line("ident", out, "v")
    if shape == "lit":
        kind, text = R.M.LITERALS[c["i"]]
        call = [cl for k, cl in _literal_cases(R) if True][c["i"]]
        return text, {}, line("literal", outcome(R, call), "lit")
    raise ValueError(f"unknown d1 shape {shape}")


_STUB = None


def _stub(R: Rt):
    global _STUB
    if _STUB is None:
        class Stub(R.ev.Evaluator):
            def __init__(self):
                pass

            def visit_children(self, tree):
                return list(tree._values)
        _STUB = Stub
    return _STUB()


def _stub_tree(data, children, values):
    import lark
    t = lark.Tree(data, children)
    t._values = values
    return t


_LITC = None


def _literal_cases(R: Rt):
    global _LITC
    if _LITC is None:
        site = [s for s in R.tab["sites"] if s.name == "literal"][0]
        _LITC = list(site.cases())
    return _LITC


# ------------------------------------------------------------------------------------------------------
# random ill-typed expressions (oracle only)
# ------------------------------------------------------------------------------------------------------

class ExprGen:
    """text generator: every operator, member, index, macro and function applied to every value kind, nested"""

    def __init__(self, rng: random.Random, R: Rt, names: List[str]):
        self.rng, self.R, self.names = rng, R, names
        self.bind: Dict[str, str] = {}
        self.fn = R.fnames + ["nosuch", "f_key", "f_index", "f_zero", "f_overflow", "f_runtime", "f_assert", "f_noargs",
                              "f_type_noargs", "f_cel", "f_stop", "f_lookup", "f_attr", "f_unicode", "f_id"]

    def leaf(self) -> str:
        r = self.rng
        k = r.random()
        if k < 0.55:
            n = r.choice(self.names)
            p = self.R.pool[n]
            if p.is_cel:
                var = f"v{len(self.bind)}"
                for kk, vv in self.bind.items():
                    if vv == n:
                        var = kk
                self.bind[var] = n
                return var
            return p.cel or "null"
        if k < 0.8:
            M = self.R.M
            core = getattr(M, "N_CORE_LITERALS", len(M.LITERALS))
            # the escape sweep (a backslash before every character, in every literal form) is 90 % of the literal texts:
            # it gets a fixed 15 % share so that the core literals stay as frequent as before
            lits = M.LITERALS[core:] if (core < len(M.LITERALS) and r.random() < 0.15) else M.LITERALS[:core]
            return r.choice([t for _, t in lits if "\n" not in t])
        return r.choice(["x_undefined", "int", "size", "type", "google.protobuf.Struct", ".y", "[]", "{}", "(1/0)",
                         "class", "lambda", "None", "def", "is", "not", "yield", "package_", "functions", "get",
                         "google.protobuf.Struct{a: 1}", "google.protobuf.Int32Value{value: 2}", "dyn", "has"])

    def expr(self, d: int) -> str:
        r = self.rng
        if d <= 0 or r.random() < 0.15:
            return self.leaf()
        e = lambda: self.expr(d - 1)
        k = r.randrange(19)
        if k == 0:
            return f"{r.choice(['!', '-'])}({e()})"
        if k in (1, 2):
            op = r.choice(list(REL) + list(ADD) + list(MUL) + ["||", "&&"])
            return f"({e()} {op} {e()})"
        if k == 3:
            return f"({e()} ? {e()} : {e()})"
        if k == 4:
            return f"({e()})[{e()}]"
        if k == 5:
            return f"({e()}).{r.choice(['a', 'b', 'value', 'size', 'map', 'x'])}"
        if k == 6:
            n = r.choice([0, 1, 1, 2, 2, 3])
            return f"{r.choice(self.fn + ['has', 'dyn', 'has', 'dyn'])}({', '.join(e() for _ in range(n))})"
        if k == 7:
            n = r.choice([0, 0, 1, 1, 2])
            return f"({e()}).{r.choice(self.fn)}({', '.join(e() for _ in range(n))})"
        if k in (8, 9):
            m = r.choice(MACROS)
            v = r.choice(["i", "j", "v0", "class", "lambda"])
            body = r.choice([v, e(), f"{v} {r.choice(list(REL))} {e()}", f"({e()}).{m}({v}, {v})"])
            return f"({e()}).{m}({v}, {body})"
        if k == 10:
            # malformed macro shapes
            m = r.choice(MACROS + ("reduce", "min"))
            args = r.choice([[], [e()], ["1", "x"], ["x.y", "x"], ["[x][0]", "x"], ["x", e(), e()], ["a", "b", e()],
                             ["a", "b", e(), "a + b"], ["a", "b", e(), "a", "b"], ["1", "2", "3", "4"], ["-x", "x"]])
            return f"({e()}).{m}({', '.join(args)})"
        if k == 11:
            return "[" + ", ".join(e() for _ in range(r.randint(0, 3))) + "]"
        if k == 12:
            return "{" + ", ".join(f"{e()}: {e()}" for _ in range(r.randint(0, 3))) + "}"
        if k == 13:
            n = r.randint(0, 2)
            names = [r.choice(["a", "b", "value", "self", "a"]) for _ in range(n)]
            recv = r.choice([e(), "google.protobuf.Struct", "google.protobuf.Int32Value", "int", "google.protobuf.ListValue",
                             "google.protobuf.BoolValue", "google.protobuf.StringValue", "google.protobuf.UInt32Value",
                             "google.protobuf.DoubleValue", "google.protobuf.BytesValue"])
            if not recv.replace(".", "").replace("_", "").isalnum():
                recv = f"({recv})"
            return f"{recv}{{{', '.join(f'{nm}: {e()}' for nm in names)}}}"
        if k == 14:
            return f"has(({e()}).{r.choice(['a', 'b'])})"
        if k == 15:
            return f".{r.choice(['a', 'size', 'v0', 'google'])}" + (f"({e()})" if r.random() < 0.5 else "")
        if k == 16:
            return f"({e()}).reduce(r_, i_, {e()}, {r.choice(['r_', 'i_', 'r_ + i_', e()])})"
        if k == 17:
            return f"({e()}).min()"
        return f"type({e()})"


def limit_exprs(rng: random.Random) -> List[str]:
    """expressions AT CEL's minimum size limits, with a failing leaf deep inside (so the error, its position
    and its rendering come from the deepest node)"""
    bad = rng.choice(["(1/0)", "nosuch", "'a' + 1", "[1][5]", "{}.a", "null.map(x, x)", "int('x')"])
    R, T, N = LIM_REPEAT, LIM_TERNARY, LIM_NEST
    out = []
    out.append(" || ".join(["false"] * (R - 1) + [bad]))
    # every operand erroneous (the error of one step must not be quoted into the next: size stays linear)
    out.append(" || ".join([f"({bad})"] * R))
    out.append(" && ".join(["nosuch"] * R))
    out.append("[" + ", ".join(["0"] * R) + "].all(x, 1/x > 0)")
    out.append("[" + ", ".join(["0"] * R) + "].exists(x, 1/x > 0)")
    out.append("'" + "a" * R + "'.exists(x, x.contains([1]))")
    out.append("[" + ", ".join(["0"] * R) + "].map(x, 1/x)")
    out.append("[" + ", ".join(["0"] * R) + "].exists_one(x, 1/x > 0)")
    out.append(" && ".join(["true"] * (R - 1) + [bad]))
    out.append("size([" + ", ".join(["1"] * (R - 1) + [bad]) + "])")
    out.append("[" + ", ".join(["1"] * (R - 1) + [bad]) + "]")
    out.append("{" + ", ".join([f"{i}: {i}" for i in range(R - 1)] + [f"99: {bad}"]) + "}")
    out.append("google.protobuf.Struct{" + ", ".join([f"f{i}: {i}" for i in range(R - 1)] + [f"g: {bad}"]) + "}")
    t = bad
    for i in range(T):
        t = f"true ? ({t}) : {i}"
    out.append(t)
    t = bad
    for i in range(T):
        t = f"false ? {i} : {t}"
    out.append(t)
    out.append(" + ".join(["1"] * T + [bad]))
    out.append(" * ".join(["1"] * T + [bad]))
    out.append(" - ".join([bad] + ["1"] * T))
    out.append(" == ".join(["1"] * (T // 2) + [bad]))
    t = bad
    for _ in range(N):
        t = f"dyn({t})"
    out.append(t)
    t = bad
    for _ in range(N):
        t = f"size([{t}])"
    out.append(t)
    out.append("{'a': 1}" + ".a" * N)
    out.append("x_undefined" + ".a" * N)
    out.append("[[1]]" + "[0]" * N)
    t = bad
    for _ in range(N):
        t = f"[{t}]"
    out.append(t)
    t = bad
    for _ in range(N):
        t = f"{{'k': {t}}}"
    out.append(t)
    t = bad
    for _ in range(N):
        t = f"google.protobuf.Struct{{f: {t}}}"
    out.append(t)
    t = bad
    for _ in range(N):
        t = f"({t})"
    out.append(t)
    t = bad
    for i in range(N):
        t = f"[1].map(x{i}, {t})"
    out.append(t)
    t = bad
    for i in range(N):
        t = f"[1].all(x{i}, {t})"
    out.append(t)
    t = bad
    for i in range(N):
        t = f"-({t})" if i % 2 else f"!({t})"
    out.append(t)
    # two recursive constructs per level, each N deep (needs the recursion limit Environment() sets: with
    # Python's default of 1000 frames these raise RecursionError in the interpreter)
    for leaf in (bad, "1"):
        t = leaf
        for _ in range(N):
            t = f"size([{t}])"
        out.append(t)
        t = leaf
        for _ in range(N):
            t = f"[{t}].size()"
        out.append(t)
        t = leaf
        for _ in range(N):
            t = f"has({{'a': {t}}}.a)"
        out.append(t)
        t = leaf
        for _ in range(N):
            t = f"{{'k': [{t}]}}"
        out.append(t)
        t = leaf
        for _ in range(N):
            t = f"[{t}]"
        t = t + "[0]" * N
        for _ in range(N):
            t = f"{{'a': {t}}}"
        out.append(t + ".a" * N)
    out.append("!" * R + "true")
    out.append("-" * R + "1")
    return out


FUZZ_TOKENS = ['1', '2u', '1.5', '"s"', "'a'", 'x', 'y.z', '(', ')', '[', ']', '{', '}', '?', ':', '||', '&&', '!', '-', '+',
               '*', '/', '%', '<', '<=', '==', '!=', 'in', '.', ',', 'true', 'false', 'null', '\n', '\r\n', '\t', ' ', '//c\n',
               'b"x"', 'has(', 'map(', 'é', '\x00', '\ud800', '"""', '\\', '0x', '1e', '..', '$', '#', '@', '`', '~', '^', '|',
               '&', '=', '>>', '\f', '\v', '\x85', ' ', "r'", "'''", '0xg', '1u2', '.5.', 'as', 'if', 'return', '\U0001F431']


def fuzz_text(rng: random.Random) -> str:
    k = rng.random()
    if k < 0.03:
        # no token at all: blanks, line breaks, comments only (the parser's end-of-input path with no previous token)
        return "".join(rng.choice([" ", "\t", "\n", "\r\n", "\f", "// c", "//", "\n// x\n", "\r"]) for _ in range(rng.randint(0, 5)))
    if k < 0.6:
        n = rng.randint(0, 12)
        return "".join(rng.choice(FUZZ_TOKENS) + rng.choice(["", " "]) for _ in range(n))
    if k < 0.8:
        n = rng.randint(0, 40)
        return bytes(rng.randrange(256) for _ in range(n)).decode("latin-1")
    if k < 0.9:
        n = rng.randint(0, 20)
        return "".join(chr(rng.choice([rng.randrange(32, 127), rng.randrange(0, 0x3000), rng.randrange(0x10000, 0x10FFFF)]))
                       for _ in range(n))
    # a valid expression damaged at one position
    base = rng.choice(["1 + 2 * 3", "a.b(c, d)[0]", "[1, 2].map(x, x * 2)", "{'a': 1}.a == 1 ? 'y' : 'n'", "true && !false",
                       "timestamp('2020-01-01T00:00:00Z') + duration('1s')"])
    i = rng.randrange(len(base) + 1)
    return base[:i] + rng.choice(FUZZ_TOKENS) + base[i + rng.choice([0, 1]):]


# ------------------------------------------------------------------------------------------------------
# sequences: several texts compiled / evaluated through the SAME Environment objects in one process
# (state kept between calls: the parser's `text`, cached parsers, activations, programs built earlier)
# ------------------------------------------------------------------------------------------------------

SEQ_FIXED = ["", " ", "\n", " \t\r\n ", "// only a comment", "1 +", "foo(bar", "1", "true", "x_undefined", "1/0", "[1][5]",
             "{'a': 1}.b", "\n\n1/0", "1\n+\n(1/0)", "true\n  && (1/0 > 0)\n  && false", "// c\n-v0", "1 // trailing\n/ 0\n",
             "[1, 2]\n.map(x,\n 1/(x - 1))", "{'a': 1,\n 'b': [1][3]}", "\n\n\n'a' + 1", "v0\n.a\n.b", "size(\n1\n)",
             "[1,\r\n2][\r\n7]", "1 +\n\n\n\n\n2 +\nnosuch", "has(\n{'a': 1}\n.b)", "1 true", "'abc"]


def spread(src: str, rng: random.Random) -> str:
    """the same expression over several lines: blanks outside string literals become line breaks"""
    out, q = [], None
    for ch in src:
        if q:
            if ch == q:
                q = None
        elif ch in "'\"":
            q = ch
        elif ch == " " and rng.random() < 0.35:
            ch = rng.choice(["\n", "\n", "\n  ", "\r\n", "\n\n"])
        out.append(ch)
    return "".join(out)


def seq_case(rng: random.Random, R: Rt, names: List[str]) -> Dict[str, Any]:
    g = ExprGen(rng, R, names)
    n = rng.randint(2, 4)
    texts = []
    for _ in range(n):
        k = rng.random()
        if k < 0.35:
            t = rng.choice(SEQ_FIXED)
        else:
            t = g.expr(rng.randint(1, 3))
            if k < 0.8:
                t = spread(t, rng)
            if rng.random() < 0.2:
                t = "\n" * rng.randint(1, 3) + t
            if rng.random() < 0.1:
                t = t + "\n// end"
        texts.append(t)
    steps: List[List[int]] = []
    if rng.random() < 0.7:
        steps = [[0, i, 0] for i in range(n)]          # op 0 = compile + program, op 1 = evaluate
    else:
        for i in range(n):                             # the ordinary life cycle first, then out of order
            steps += [[0, i, 0], [1, i, 0]]
    for _ in range(2 * n):
        steps.append([0, rng.randrange(n), 0] if rng.random() < 0.25 else [1, rng.randrange(n), rng.randrange(2)])
    bind0 = dict(g.bind)
    bind1 = {v: rng.choice(names) for v in bind0}
    return dict(kind="seq", runner="I" if rng.random() < 0.7 else "C", n_env=1 if rng.random() < 0.75 else 2,
                texts=texts, steps=steps, binds=[bind0, bind1])


@confirm_timeout_late
def run_seq(c: Dict[str, Any]) -> str:
    """`seq <values> <eval errors> <parse errors>` | `EXC <Class> @step <k> <what>` | `… RENDER …` | `… BADPOS …`"""
    R = rt()
    celpy, ev = R.celpy, R.ev
    Rn = {"I": celpy.InterpretedRunner, "C": celpy.CompiledRunner}[c["runner"]]
    n_ok = n_err = n_parse = 0
    k = -1
    what = "environment"
    try:
        envs = [celpy.Environment(runner_class=Rn) for _ in range(c.get("n_env", 1))]
        binds = [{v: R.pool[n].make() for v, n in b.items()} for b in c["binds"]]
        progs: Dict[int, Any] = {}
        fns = _host_functions()
        for k, (op, i, w) in enumerate(c["steps"]):
            text = c["texts"][i]
            env = envs[i % len(envs)]
            if op == 0:
                what = f"compile({text!r})"
                try:
                    ast = env.compile(text)
                except celpy.CELParseError as ex:
                    n_parse += 1
                    try:
                        str(ex), repr(ex)
                    except Exception as e2:
                        return f"parse-error RENDER {type(e2).__name__} @step {k} {what}"
                    if not inside(text, ex.line, ex.column):
                        return f"parse-error BADPOS {ex.line}:{ex.column} @step {k} {what}"
                    continue
                what = f"program({text!r})"
                progs[i] = env.program(ast, functions=fns)
            else:
                if i not in progs:
                    continue
                what = f"evaluate({text!r})"
                try:
                    with _deadline(EVAL_TIMEOUT_S):
                        progs[i].evaluate(binds[w])
                    n_ok += 1
                except ev.CELEvalError as ex:
                    n_err += 1
                    try:
                        str(ex), repr(ex)
                    except Exception as e2:
                        return f"err RENDER {type(e2).__name__} @step {k} {what}"
        return f"seq {n_ok} {n_err} {n_parse}"
    except EvaluationTimeout:
        return f"EXC EvaluationTimeout(>{EVAL_TIMEOUT_S}s) @step {k} {what}"
    except BaseException as ex:  # noqa
        if isinstance(ex, (KeyboardInterrupt, SystemExit)):
            raise
        return f"EXC {type(ex).__name__} @step {k} {what}"


def minimise_seq(c: Dict[str, Any], budget: int = 60) -> Dict[str, Any]:
    """a failing sequence with as few steps as a greedy one-step-at-a-time removal finds (for the report only)"""
    def fails(steps):
        return not run_seq(dict(c, steps=steps)).startswith("seq ")
    steps = [list(x) for x in c["steps"]]
    i, runs = len(steps) - 2, 0          # the last step is the failing one after truncation: keep it
    while i >= 0 and runs < budget:
        cand = steps[:i] + steps[i + 1:]
        runs += 1
        if fails(cand):
            steps = cand
        i -= 1
    return dict(c, steps=steps)


# ------------------------------------------------------------------------------------------------------
# the property
# ------------------------------------------------------------------------------------------------------

class C04(Prop):
    pid = "C04"
    manifest = dict(
        technique=("Lean 4: totality of the interpreter skeleton evalI by structural induction over ALL expression trees and "
                   "activations (Props/C04.lean: evalI_esc, evalI_total, evalI_only_celerror, runI/runC_only_celerror, "
                   "parse_only_parseerror), reduced to the finite coverage fact rule_covered — every exception class MEASURED at a "
                   "primitive site (all primitives x value pool, Gen/Measured.lean) is caught, up to Python's subclass closure, by the "
                   "except clauses READ FROM THE SOURCE around that site (Gen/Handlers.lean) — decided by `decide +kernel` on every run; "
                   "lark's exception DAG vs. CELParser.parse likewise; differential correspondence of the skeleton per site; "
                   "ill-typed / malformed / size-limit / random-text fuzz of both runners with str() and repr() of every error; "
                   "sessions (session_only_cel_errors: every history of compile/evaluate calls through one Environment) with random "
                   "multi-step sequences on shared Environments; handler_bodies_pure: the operations inside every except body, read from "
                   "the source, are on a list of operations that cannot raise"),
        text=("proof: whatever escapes the interpreter model is CELEvalError, for every expression tree, activation and every primitive "
              "behaviour consistent with the measured table; handlers, class hierarchy, raised-classes table, Transpiler.evaluate's "
              "blanket handler and the parser's except clauses are regenerated from the working tree on every run"),
        note=("trusted: pool->all-values step of the measured table (behaviour depends on operand kind + boundary class), CPython, "
              "lark internals, hand-written skeleton tied by per-site correspondence; transpiler construction (program()) and "
              "str()/repr() rendering are corresponded, not proved"),
        ref="DESIGN.md §5 C04, notes/C04.md")
    lean_targets = ["Cel.Props.C04", "Cel.Bridge.Total"]
    audit_namespaces = ["Cel.Props.C04", "Cel.Bridge.Total"]
    gen_names = ["Handlers", "Measured"]
    trusted = ["measured tables: exhaustive over a finite value pool (~80 values, every CEL kind incl. boundaries, natives, error values); "
               "'a primitive raises only the classes measured for its operand kinds' (PrimSpec) is assumed for values outside the pool",
               "the interpreter skeleton (which primitive is applied under which try statement) is hand-written; tied to the source by the "
               "per-site handler extraction (AST) and the depth-1 correspondence of every construct",
               "CPython exception semantics (isinstance matching of except clauses), lark's LALR parser and lexer",
               "Transpiler construction (Environment.program) and error rendering (str/repr, tree_dump) are checked by correspondence only",
               "pureOps (Bridge/Total.lean): the operations allowed inside except bodies cannot raise (constructors of the library's errors, "
               "logging, type/isinstance/str(ex), f-string conversion of CEL values, ex.args[0] guarded by the args0 checks, lark's get_context)",
               "the session model's step function (compile keeps the text, evaluate = runI) is hand-written; tied by the sequence stream"]
    rule = ("every construct (unary, binary, ternary, index, select, call, method, macro, min, list/map/object literal, identifier, literal "
            "token) applied to value-pool operands of every kind [depth-1: CEL text run on both runners, interpreter outcome compared with "
            "the Lean skeleton fed with the outcome of the primitive applied directly]; random nested ill-typed expressions incl. malformed "
            "macro shapes, host functions raising, package/dotted bindings; expressions at CEL's minimum size limits; random token/byte "
            "strings for compile (incl. texts without any token); a backslash before every printable character and incomplete numeric "
            "escapes in every cooked string/bytes literal form; every %-format string x every value, sequence repetition x every integer; "
            "sequences of 2-4 texts (multi-line, failing on later lines, unparsable, empty) compiled and evaluated out of order through 1-2 "
            "shared Environments with two binding sets. non-trivial = distinct input whose outcome is not a plain value (an error handler, the parser's "
            "error path or a conversion was reached)")

    # ---- generation -----------------------------------------------------------------------------------
    def generate(self, rng, tier):
        R = rt()
        quick = tier == "quick"
        M = R.M
        cel_names = [p.name for p in M.pool() if p.is_cel] + ["err"]
        reps = []
        seen = set()
        for p in M.pool():
            if (p.is_cel or p.name == "err") and p.kind not in seen:
                seen.add(p.kind)
                reps.append(p.name)
        cases: List[Dict[str, Any]] = []

        def add(c, pc=0.34):
            c = dict(c, kind="d1")
            cases.append(dict(c, runner="I"))
            if rng.random() < (pc if quick else max(pc, 0.4)):
                cases.append(dict(c, runner="C"))

        A = cel_names if not quick else reps
        # unary, select, min, obj0, list1, macros
        for a in cel_names:
            for op in ("!", "-"):
                add(dict(shape="un", ops=[a], x=op))
            for f in ("a", "value"):
                add(dict(shape="dot", ops=[a], x=f))
                add(dict(shape="hasdot", ops=[a], x=f), 0.2)
            add(dict(shape="min", ops=[a]))
            for w in WRAPPERS:
                add(dict(shape="objw", ops=[a], x=w), 0.3)
            add(dict(shape="obj0", ops=[a]))
            if not quick or a in reps:
                for m in MACROS:
                    for body in ("mv", "bt", "err", "i1"):
                        add(dict(shape="macro", ops=[a, body], x=m), 0.2)
            for t in ("$.map()", "$.map(x)", "$.all(1, x)", "$.filter(x.y, x)", "$.exists_one([x][0], x)", "$.map(x, x, x)",
                      "$.reduce(r, i, 0)", "$.reduce(1, i, 0, r)", "$.exists()"):
                add(dict(shape="bad", ops=[a], x=t), 0.5)
        ops2 = list(REL) + list(ADD) + list(MUL) + ["||", "&&"]
        pairs = list(itertools.product(A, reps)) if quick else list(itertools.product(cel_names, cel_names))
        if quick:
            pairs = rng.sample(pairs, min(len(pairs), 260))
        for a, b in pairs:
            for op in ops2:
                add(dict(shape="bin", ops=[a, b], x=op), 0.15)
            add(dict(shape="index", ops=[a, b]), 0.3)
            add(dict(shape="list", ops=[a, b]), 0.3)
            add(dict(shape="map", ops=[a, b]), 0.3)
            add(dict(shape="obj", ops=[a, b]), 0.3)
        for a, b in (rng.sample(pairs, min(len(pairs), 120)) if quick else pairs):
            add(dict(shape="map", ops=[a, R.pool["i1"].name, b, "i2"]), 0.3)
        # primitives whose behaviour depends on the VALUE of an operand, not only on its kind: `str % x` / `bytes % x` are
        # Python %-formatting (every format string x every value), sequence repetition (`*` with every integer)
        fmts = [p.name for p in M.pool() if p.kind in ("strfmt", "bytesfmt")]
        ints = [p.name for p in M.pool() if p.is_cel and p.kind.startswith(("int", "uint", "bool"))]
        for a in fmts:
            for b in cel_names:
                add(dict(shape="bin", ops=[a, b], x="%"), 0.15)
        for a in ("s_a", "b_a", "l_1", "s_fmts"):
            for b in ints:
                add(dict(shape="bin", ops=[a, b], x="*"), 0.15)
                add(dict(shape="bin", ops=[b, a], x="*"), 0.15)
        few = [n for n in reps if R.pool[n].kind in ("int", "str", "err", "null", "list", "bool", "dbl")]
        for c0 in reps:
            for l in few:
                for r in (few if not quick else few[:3]):
                    add(dict(shape="cond", ops=[c0, l, r]), 0.2)
        fns = R.fnames + ["nosuch", "has", "dyn"]
        for f in fns:
            add(dict(shape="call", ops=[], x=f))
            for a in (reps if quick else cel_names):
                add(dict(shape="call", ops=[a], x=f), 0.25)
                if f not in NOT_METHODS:
                    add(dict(shape="mcall", ops=[a], x=f), 0.25)
            second = few if quick else few + rng.sample(reps, 8)
            firsts = rng.sample(reps, 8) if quick else reps
            for a in firsts:
                for b in second:
                    add(dict(shape="call", ops=[a, b], x=f), 0.2)
                    if f not in NOT_METHODS:
                        add(dict(shape="mcall", ops=[a, b], x=f), 0.2)
        for a in reps:
            add(dict(shape="ident", ops=[a], x="plain", present=True))
            add(dict(shape="ident", ops=[a], x="dot", present=True))
        add(dict(shape="ident", ops=["i1"], x="plain", present=False))
        add(dict(shape="ident", ops=["i1"], x="dot", present=False))
        for i in range(len(M.LITERALS)):
            add(dict(shape="lit", ops=[], i=i), 1.0)

        # random nested ill-typed expressions ----------------------------------------------------------------
        n_expr = 1000 if quick else 20000
        for i in range(n_expr):
            g = ExprGen(rng, R, cel_names + [p.name for p in M.pool() if not p.is_cel and p.cel])
            src = g.expr(rng.randint(1, 4))
            pkg = rng.choice([None, None, None, "jq", "a.b"])
            bind = dict(g.bind)
            extra = {}
            if rng.random() < 0.25:
                # package / dotted names bound to arbitrary kinds
                extra = {rng.choice(["jq", "a", "a.b", "a.b.c", "y"]): rng.choice(cel_names[:-1])}
            runner = "I" if rng.random() < 0.6 else "C"
            cases.append(dict(kind="expr", src=src, bind=bind, xbind=extra, package=pkg, runner=runner))
        for s in limit_exprs(rng):
            for r in ("I", "C"):
                cases.append(dict(kind="expr", src=s, bind={}, xbind={}, package=None, runner=r))
        # sequences through shared Environment objects ---------------------------------------------------------
        for i in range(300 if quick else 6000):
            cases.append(seq_case(rng, R, cel_names[:-1]))
        # random strings for compile -------------------------------------------------------------------------
        n_fuzz = 8000 if quick else 100000
        for i in range(n_fuzz):
            cases.append(dict(kind="compile", text=fuzz_text(rng), runner=rng.choice(["I", "C"])))
        return cases

    # ---- implementation ---------------------------------------------------------------------------------
    def impl(self, c):
        R = rt()
        k = c["kind"]
        if k == "d1":
            src, b, line = d1_build(R, c)
            c["_line"] = line
            c["_src"] = src
            if b:
                c["_src"] = src + "  with " + ", ".join(f"{v} = {R.pool[n].cel or n}" for v, n in zip("abcd", c["ops"]) if v in b)
            out = run_impl(src, c["runner"], b)
            return out.split(" @")[0]
        if k == "expr":
            b = {v: R.pool[n].make() for v, n in c["bind"].items()}
            for v, n in c.get("xbind", {}).items():
                b[v] = R.pool[n].make()
            return run_impl(c["src"], c["runner"], b, c.get("package"), _host_functions())
        if k == "compile":
            text = c["text"]
            celpy = R.celpy
            env = R.env(c["runner"])
            # what lark itself does with the text (input of the model's parse wrapper)
            try:
                env.cel_parser.parser.parse(text)
                c["_lark"] = "ok"
            except Exception as ex:
                c["_lark"] = f"raise:{R.cid(type(ex))}"
            try:
                env.compile(text)
                return "tree"
            except celpy.CELParseError as ex:
                try:
                    str(ex), repr(ex)
                except Exception as e2:
                    return f"parse-error RENDER {type(e2).__name__}"
                if not inside(text, ex.line, ex.column):
                    return f"parse-error BADPOS {ex.line}:{ex.column}"
                return "parse-error"
            except RecursionError:
                return "EXC RecursionError"
            except Exception as ex:  # noqa
                return f"EXC {type(ex).__name__}"
        if k == "seq":
            return run_seq(c)
        if k == "site":
            # primitive-level replay: which classes does the site raise without arguments
            d = R.tab
            e = set()
            for ent in d["measured"][c["site"]].values():
                e |= {x.__name__ for x in ent["emptyargs"]}
            return "empty-args " + ",".join(sorted(e))
        raise ValueError(k)

    # ---- model ------------------------------------------------------------------------------------------
    def model_line(self, c):
        if c["kind"] == "d1" and c["runner"] == "I":
            if "_line" not in c:
                _, _, line = d1_build(rt(), c)
                c["_line"] = line
            return c["_line"]
        if c["kind"] == "compile":
            if "_lark" not in c:
                self.impl(c)
            return f"parse {c['_lark']}"
        return None

    def model_expect(self, c, m):
        R = rt()
        if m.startswith("EXC "):
            try:
                return "EXC " + R.cname(int(m[4:]))
            except ValueError:
                return m
        if c["kind"] == "compile":
            return {"ok": "tree"}.get(m, m)
        return m

    # ---- oracle: the property itself ----------------------------------------------------------------------
    def oracle(self, c, out):
        if c["kind"] == "site":
            return None
        if c["kind"] == "seq":
            if out.startswith("seq "):
                return None
            steps = c["steps"]
            if " @step " in out:
                try:
                    k = int(out.split(" @step ")[1].split()[0])
                    steps = minimise_seq(dict(c, steps=steps[:k + 1]))["steps"]
                    c["_minimal_steps"] = steps
                except Exception:
                    pass
            hist = "; ".join(("compile " if op == 0 else f"evaluate[binding set {w}] ") + repr(c["texts"][i]) for op, i, w in steps)
            if "BADPOS" in out:
                return f"runner {c['runner']}, {c.get('n_env', 1)} Environment(s), steps: {hist}: CELParseError position outside the text ({out})"
            if "RENDER" in out:
                return f"runner {c['runner']}, {c.get('n_env', 1)} Environment(s), steps: {hist}: the raised error cannot be rendered ({out})"
            return (f"runner {c['runner']}, {c.get('n_env', 1)} Environment(s) shared by the steps: {hist}: {out} escaped; only a value, "
                    f"CELEvalError or CELParseError may leave compile/program/evaluate, whatever was compiled or evaluated before")
        what = c.get("_src") or c.get("src") or c.get("text")
        where = f"runner {c.get('runner')}: {what!r}"
        if c["kind"] == "compile":
            if out in ("tree", "parse-error"):
                return None
            if "BADPOS" in out:
                return f"compile({what!r}) raised CELParseError whose line:column = {out.split()[-1]} does not lie inside the text"
            if "RENDER" in out:
                return f"compile({what!r}): the parse error cannot be rendered ({out})"
            return f"compile({what!r}) let {out} escape; only CELParseError may leave compile()"
        if out in ("ok", "err", "parse-error"):
            return None
        if "BADPOS" in out:
            return f"{where}: CELParseError position {out.split()[-1]} is not inside the text"
        if "RENDER" in out:
            return f"{where}: the raised error cannot be rendered with str()/repr() ({out})"
        return f"{where} let {out} escape; only a value, CELEvalError or CELParseError may leave compile/program/evaluate"

    def nontrivial(self, c, out):
        if c.get("kind") == "seq" and out.startswith("seq "):
            return out.split()[2:] != ["0", "0"]
        return out not in ("ok", "tree")

    def known_preds(self):
        return {}

    # ---- whole-run checks ----------------------------------------------------------------------------------
    def extra_checks(self, tier, rng):
        R = rt()
        out = []
        d = R.tab
        # 1. handlers that index `ex.args[0]` must never see an exception without arguments
        import ast
        from ..translate.common import parse
        from ..translate.py2lean import find_class, find_func
        from ..translate.gen_c04 import _enclosing
        evcls = find_class(parse("src/celpy/evaluation.py"), "Evaluator")
        for s in d["sites"]:
            f = find_func(evcls.body, s.method)
            try:
                _, tries = _enclosing(f, s.expr, s.under, s.which)
            except Exception:
                # the site can no longer be located: reported by the translator status (broken obligation), not here
                continue
            uses_args0 = any("ex.args[0]" in ast.unparse(h) for t in tries for h in t.handlers)
            empties = sorted({c.__name__ for e in d["measured"][s.name].values() for c in e["emptyargs"]})
            caught_names = {n for t in tries for h in t.handlers for n in (ast.unparse(h.type) if h.type is not None else "BaseException").strip("()").split(", ") if "ex.args[0]" in ast.unparse(h)}
            bad = [e for e in empties if e in caught_names]
            out.append(dict(name=f"args0:{s.name}", ok=not (uses_args0 and bad),
                            detail=f"handler indexes ex.args[0]={uses_args0}; classes raised without args: {empties}",
                            case={"kind": "site", "site": s.name}))
        return out

    def search_cases(self, rng):
        """first the inputs derived from the model's counterexample (table entries whose class is not caught by the
        handlers read from the source), then the thorough generator"""
        for c in self.derived_cases():
            yield c
        for c in self.generate(rng, "thorough"):
            yield c

    def derived_cases(self):
        R = rt()
        try:
            d = R.tab
        except Exception:
            return
        by_kind: Dict[str, List[str]] = {}
        for p in R.M.pool():
            if p.is_cel or p.name == "err":
                by_kind.setdefault(p.kind, []).append(p.name)
        sym = {v: k for tbl in (REL, ADD, MUL, {"||": "_||_", "&&": "_&&_"}) for k, v in tbl.items()}

        def names(k):
            return by_kind.get(k, [])[:8]

        for s in d["sites"]:
            hs = tuple(d["handlers"][s.name])
            for key, e in d["measured"][s.name].items():
                unc = [c for c in e["exc"] if not (hs and issubclass(c, hs))]
                if not unc:
                    continue
                n = s.name
                out: List[Dict[str, Any]] = []
                if n == "unary":
                    out = [dict(shape="un", ops=[a], x={"!_": "!", "-_": "-"}[key[0]]) for a in names(key[1])]
                elif n in ("relation", "addition", "multiplication", "condOr", "condAnd"):
                    out = [dict(shape="bin", ops=[a, b], x=sym[key[0]]) for a in names(key[1]) for b in names(key[2])]
                elif n == "exprCond":
                    out = [dict(shape="cond", ops=[a, b, c]) for a in names(key[1]) for b in names(key[2])[:1] for c in names(key[3])[:1]]
                elif n == "memberIndex":
                    out = [dict(shape="index", ops=[a, b]) for a in names(key[1]) for b in names(key[2])]
                elif n in ("dotMessage", "dotMap"):
                    out = [dict(shape="dot", ops=[a], x=f) for a in names(key[1]) for f in ("a", "b", "value")]
                elif n in ("macroIter", "macroIterBare", "macroFold"):
                    out = [dict(shape="macro", ops=[a, body], x=m) for a in names(key[-1]) + names(key[1]) for m in MACROS
                           for body in ("mv", "bt", "i1", "err")]
                elif n == "macroMin":
                    out = [dict(shape="min", ops=[a]) for a in names(key[1])]
                elif n in ("funcCall", "methodCall"):
                    shape = "call" if n == "funcCall" else "mcall"
                    if shape == "mcall" and key[0] in NOT_METHODS:
                        continue
                    ks = key[2:]
                    for combo in itertools.product(*[names(k) for k in ks]):
                        if key[1] == "3":
                            for b in ("i1", "s_a", "null"):
                                out.append(dict(shape=shape, ops=list(combo) + [b, b], x=key[0]))
                        else:
                            out.append(dict(shape=shape, ops=list(combo), x=key[0]))
                elif n in ("funcResolve", "methodResolve"):
                    out = [dict(shape="call", ops=["i1"], x="nosuch"), dict(shape="mcall", ops=["i1"], x="nosuch")]
                elif n == "objectNew0":
                    out = [dict(shape="obj0", ops=[a]) for a in names(key[1])]
                elif n == "objectNew":
                    vk = key[2][6:] if key[2].startswith("value:") else None
                    vals = names(vk) if vk else ["i1", "s_a"]
                    out = [dict(shape="obj", ops=[a, b]) for a in names(key[1]) for b in vals]
                    out += [dict(shape="objw", ops=[b], x=w) for w in WRAPPERS for b in vals]
                elif n == "mapLit":
                    ks = key[1:]
                    if len(ks) == 1:
                        out = [dict(shape="map", ops=[a, "i1"]) for a in names(ks[0])]
                    else:
                        out = [dict(shape="map", ops=[a, "i1", b, "i2"]) for a in names(ks[0]) for b in names(ks[1])]
                elif n == "exprlist":
                    out = [dict(shape="list", ops=[a, b]) for a in names(key[1]) for b in names(key[2])]
                elif n == "literal":
                    out = [dict(shape="lit", ops=[], i=i) for i, (k, _) in enumerate(R.M.LITERALS) if k == key[1]]
                elif n in ("ident", "dotIdent"):
                    _, pkg, bname, vkind, look = key
                    for a in names(vkind):
                        for src in (look, "." + look, look + ".b", "." + look + ".b"):
                            for r in ("I", "C"):
                                yield dict(kind="expr", src=src, bind={}, xbind={bname: a}, package=None if pkg == "None" else pkg, runner=r)
                elif n == "objectFields":
                    for a in names(key[2]):
                        b = {"v0": a} if a != "err" else {}
                        t = "v0" if a != "err" else "(1/0)"
                        for src in (f"google.protobuf.Struct{{a: {t}, a: {t}}}", f"google.protobuf.Struct{{self: {t}}}",
                                    f"google.protobuf.Struct{{self: {t}, items: {t}, args: {t}, fields: {t}, cls: {t}}}", f"x{{a: {t}, b: {t}}}"):
                            for r in ("I", "C"):
                                yield dict(kind="expr", src=src, bind=b, xbind={}, package=None, runner=r)
                for c in out:
                    for r in ("I", "C"):
                        yield dict(c, kind="d1", runner=r)


PROP = C04()
