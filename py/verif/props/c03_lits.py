"""C03 helper: literal texts following cel.lark's terminals.  The transpiler pastes / re-reads literal text
(`python_int_text`, `celstr`, `celbytes` at construction time), the interpreter converts it at evaluation time."""
from __future__ import annotations
import random
from typing import List

FIXED = [
    "0", "00", "007", "-007", "-0", "0x0", "0X1F", "-0X1f", "0xAbC", "-0x00ff", "9223372036854775807",
    "-9223372036854775808", "9223372036854775808", "0x7fffffffffffffff", "0x8000000000000000", "-0X8000000000000000",
    "0u", "00u", "007U", "0X10u", "0xFFu", "0XffU", "18446744073709551615u", "18446744073709551616u",
    "1.", ".5", "5.e3", "1E5", "1e+5", "1e-5", ".5e-3", "00.5", "007e1", "-0.0", "-.5", "1e400", "-1e400", "1e-400",
    "true", "false", "null",
    "''", '""', "'a'", r"r'\n'", r"R'\\'", r"'\n\t\r\a\b\f\v'", r"'\\'", r"'\''", r"'\"'", r"'\101'", r"'\377'",
    r"'\400'", r"'\999'", r"'\x41'", r"'\xff'", r"'é'", r"'\U0001F431'", r"'\U00110000'", r"'\ud800'", "'é'",
    "'\U0001F431'", "'''a\nb'''", '"""q"""', "'''it''s'''", r"r'''\d'''", "b''", "b'a'", "B'a'", r"b'\x00\xff'",
    r"b'\377'", r"b'\400'", r"b'é'", r"b'\U0001F431'", "b'é'", r"br'\x41'", "rb'x'", r"bR'\n'",
    'b"""x\ny"""', r"b'\n'", r"'\?'", r"'\`'", r"'a\qb'", r"'\x4'", r"'\u12'", r"'%s'", r"'{0}'", r"'$x ${y}'",
]

PIECES = ["a", "Z", "0", " ", "é", r"\n", r"\t", r"\\", r"\'", r'\"', r"\a", r"\101", r"\777", r"\x4f", r"A",
          r"\U00000041", r"\U0010FFFF", r"\U00110000", r"\udc00", r"\000", r"\x00", "%", "{", "$", r"\400", r"\xff"]


def literal_spellings(rng: random.Random, n: int) -> List[str]:
    out = list(FIXED)
    hexd = "0123456789abcdefABCDEF"
    for _ in range(n):
        k = rng.randrange(6)
        if k == 0:
            t = rng.choice(["", "-"]) + rng.choice(["0x", "0X"]) + "".join(rng.choice(hexd) for _ in range(rng.randint(1, 17)))
            out.append(t + rng.choice(["", "", "u", "U"]))
        elif k == 1:
            v = rng.choice([0, 1, 7, 42, 2**31, 2**63 - 1, 2**63, 2**64 - 1, 2**64, rng.getrandbits(70)])
            t = rng.choice(["", "-"]) + "0" * rng.randint(0, 3) + str(v)
            out.append(t + rng.choice(["", "", "u", "U"]))
        elif k == 2:
            m = rng.choice(["1.", ".5", "0.5", "12.25", "00.50", "1", "007"])
            e = rng.choice(["", "e3", "E3", "e+3", "e-3", "e0", "e400"])
            if "." not in m and not e:
                e = "e1"
            out.append(rng.choice(["", "-"]) + m + e)
        else:
            body = "".join(rng.choice(PIECES) for _ in range(rng.randint(0, 4)))
            q = rng.choice(["'", '"', "'''", '"""'])
            pre = rng.choice(["", "", "r", "R", "b", "B", "br", "rb", "bR"])
            out.append(pre + q + body + q)
    return out
