"""C03 helper: abstract CEL expressions (tuples), type-directed generator, renderer, syntactic predicates,
lark-tree -> AST conversion for the conformance corpus.

AST (JSON-friendly lists/tuples):
  ["lit", kind, text]            kind in int uint double bool string bytes null   (text = CEL spelling)
  ["id", name]
  ["un", op, a]                  op in "!" "-"
  ["bin", op, a, b]              op in + - * / % < <= > >= == != in
  ["or", a, b] ["and", a, b] ["cond", c, x, y]
  ["list", [e..]]   ["map", [[k, v]..]]
  ["idx", a, i]     ["sel", a, field]
  ["call", f, [args]]            f(args)        (not has/dyn)
  ["mcall", recv, f, [args]]     recv.f(args)   (not a macro name)
  ["macro", kind, recv, var, body]      kind in all exists exists_one map filter
  ["has", a]                     has(a)
  ["dyn", a]
  ["raw", text]                  opaque CEL text (corpus expressions outside the modelled syntax)
"""
from __future__ import annotations
import random
from typing import Any, Dict, List, Optional, Tuple

MACROS = ("all", "exists", "exists_one", "map", "filter")
EXT_MACROS = ("reduce", "min")
REL = ("<", "<=", ">", ">=", "==", "!=", "in")
ARITH = ("+", "-", "*", "/", "%")

PY_KEYWORDS = {"False", "None", "True", "and", "as", "assert", "async", "await", "break", "class", "continue", "def", "del",
               "elif", "else", "except", "finally", "for", "from", "global", "if", "import", "in", "is", "lambda", "nonlocal",
               "not", "or", "pass", "raise", "return", "try", "while", "with", "yield"}
# attributes of celpy.evaluation.Activation that shadow `activation.<name>` in transpiled code
ACTIVATION_ATTRS = {"identifiers", "functions", "package", "clone", "nested_activation", "resolve_variable",
                    "resolve_function", "get"}
# … and the attributes every Python object has (`__class__ + 1` with a binding for `__class__` reads type(activation)):
# the same zone D61 (found in round 2 by the identifier-spelling stream)
ACTIVATION_ATTRS |= set(dir(object)) | {"__dict__", "__getattr__", "__module__", "__weakref__"}

# variables bound in every generated case (name -> (type, python constructor text))
VARS = {
    "vi": ("int", "celpy.celtypes.IntType(7)"),
    "vj": ("int", "celpy.celtypes.IntType(-3)"),
    "vz": ("int", "celpy.celtypes.IntType(0)"),
    "vmax": ("int", "celpy.celtypes.IntType(9223372036854775807)"),
    "vu": ("uint", "celpy.celtypes.UintType(5)"),
    "vd": ("double", "celpy.celtypes.DoubleType(2.5)"),
    "vb": ("bool", "celpy.celtypes.BoolType(True)"),
    "vf": ("bool", "celpy.celtypes.BoolType(False)"),
    "vs": ("string", "celpy.celtypes.StringType('hello')"),
    "ve": ("string", "celpy.celtypes.StringType('')"),
    "vy": ("bytes", "celpy.celtypes.BytesType(b'ab')"),
    "vn": ("null", "None"),
    "vl": ("list<int>", "celpy.celtypes.ListType([celpy.celtypes.IntType(1), celpy.celtypes.IntType(2), celpy.celtypes.IntType(0)])"),
    "vls": ("list<string>", "celpy.celtypes.ListType([celpy.celtypes.StringType('a'), celpy.celtypes.StringType('b')])"),
    "vle": ("list<int>", "celpy.celtypes.ListType([])"),
    "vlm": ("list<dyn>", "celpy.celtypes.ListType([celpy.celtypes.IntType(1), celpy.celtypes.StringType('x'), celpy.celtypes.BoolType(True)])"),
    "vm": ("map<string,int>", "celpy.celtypes.MapType({celpy.celtypes.StringType('a'): celpy.celtypes.IntType(1), celpy.celtypes.StringType('b'): celpy.celtypes.IntType(0)})"),
    "vmi": ("map<int,string>", "celpy.celtypes.MapType({celpy.celtypes.IntType(1): celpy.celtypes.StringType('one'), celpy.celtypes.IntType(2): celpy.celtypes.StringType('two')})"),
    "vt": ("timestamp", "celpy.celtypes.TimestampType('2009-02-13T23:31:30Z')"),
    "vdur": ("duration", "celpy.celtypes.DurationType('3600s')"),
}
VARS_BY_TYPE: Dict[str, List[str]] = {}
for _n, (_t, _) in VARS.items():
    VARS_BY_TYPE.setdefault(_t, []).append(_n)

SCALARS = ["int", "uint", "double", "bool", "string", "bytes", "null", "timestamp", "duration"]
ALLTYPES = SCALARS + ["list<int>", "list<string>", "list<dyn>", "map<string,int>", "map<int,string>", "type"]

STR_LITS = ["'a'", "'b'", "''", "'hello'", '"x y"', "'é'", "'12'", "'-7'", "'true'", "'1.5'", "r'\\d+'", "'a\\nb'", "'''tri'''", "'h.*o'", "'('",
            "'2009-02-13T23:31:30Z'", "'10s'", "'UTC'", "'\\x41'", "'\\u00e9'", "'\\101'"]
BYTES_LITS = ["b'a'", "b''", "b'ab'", "b'\\x00\\xff'", 'b"xyz"', "b'\\141'", "b'é'"]
INT_LITS = ["0", "1", "2", "3", "5", "7", "10", "42", "-1", "-5", "100", "9223372036854775807", "-9223372036854775808", "0x10", "-0x1F",
            "4611686018427387904", "9223372036854775808", "00", "64"]
UINT_LITS = ["0u", "1u", "2u", "5U", "42u", "18446744073709551615u", "0x10u", "18446744073709551616u"]
DBL_LITS = ["0.0", "1.0", "2.5", "-1.5", "1e3", "1.", ".5", "1e-3", "-0.0", "1e400", "3.0", "9.3e18", "1E2"]


class Gen:
    def __init__(self, rng: random.Random, p_ill: float = 0.3, max_depth: int = 6):
        self.rng = rng
        self.p_ill = p_ill
        self.max_depth = max_depth
        self.scope: List[Tuple[str, str]] = []   # macro variables in scope (name, type)

    # -- helpers --------------------------------------------------------------------------
    def ch(self, xs):
        return self.rng.choice(xs)

    def elem_type(self, t: str) -> str:
        if t.startswith("list<"):
            return t[5:-1]
        if t.startswith("map<"):
            return t[4:-1].split(",")[0]
        return "dyn"

    def any_type(self) -> str:
        return self.ch(ALLTYPES)

    def expr(self, depth: int) -> Any:
        """a whole random expression: pick a type (70%: generated well-typed, 30% ill-typed injected below)"""
        return self.gen(self.any_type(), depth)

    def gen(self, t: str, depth: int) -> Any:
        r = self.rng.random()
        # ill-typed injection: produce an expression of another type where `t` is wanted
        if r < self.p_ill * 0.35:
            t2 = self.any_type()
            return self.gen_typed(t2, depth)
        return self.gen_typed(t, depth)

    def leaf(self, t: str) -> Any:
        rng = self.rng
        cands = [(n, ty) for (n, ty) in self.scope if ty == t or ty == "dyn" or t == "dyn"]
        if cands and rng.random() < 0.5:
            return ["id", self.ch(cands)[0]]
        if t == "dyn":
            t = self.ch(SCALARS + ["list<int>", "map<string,int>"])
        if t in VARS_BY_TYPE and rng.random() < 0.35:
            return ["id", self.ch(VARS_BY_TYPE[t])]
        if t == "int":
            return ["lit", "int", self.ch(INT_LITS)]
        if t == "uint":
            return ["lit", "uint", self.ch(UINT_LITS)]
        if t == "double":
            return ["lit", "double", self.ch(DBL_LITS)]
        if t == "bool":
            return ["lit", "bool", self.ch(["true", "false"])]
        if t == "string":
            return ["lit", "string", self.ch(STR_LITS)]
        if t == "bytes":
            return ["lit", "bytes", self.ch(BYTES_LITS)]
        if t == "null":
            return ["lit", "null", "null"]
        if t == "timestamp":
            return self.ch([["id", "vt"], ["call", "timestamp", [["lit", "string", self.ch(["'2009-02-13T23:31:30Z'", "'1970-01-01T00:00:00Z'", "'x'", "'2024-02-29T12:00:00.5+01:00'"])]]]])
        if t == "duration":
            return self.ch([["id", "vdur"], ["call", "duration", [["lit", "string", self.ch(["'10s'", "'1h30m'", "'x'", "'-1.5s'", "'0'"])]]]])
        if t == "type":
            return self.ch([["call", "type", [self.leaf(self.ch(SCALARS))]], ["id", self.ch(["int", "string", "bool", "list", "map", "double", "uint", "bytes"])]])
        if t.startswith("list<"):
            if rng.random() < 0.4 and t in VARS_BY_TYPE:
                return ["id", self.ch(VARS_BY_TYPE[t])]
            et = self.elem_type(t)
            return ["list", [self.leaf(et) for _ in range(rng.randint(0, 3))]]
        if t.startswith("map<"):
            if rng.random() < 0.4 and t in VARS_BY_TYPE:
                return ["id", self.ch(VARS_BY_TYPE[t])]
            kt, vt = t[4:-1].split(",")
            n = rng.randint(0, 2)
            keys = {"string": ["'a'", "'b'", "'c'"], "int": ["1", "2", "3"]}[kt]
            ks = rng.sample(keys, n) if rng.random() < 0.9 else [self.ch(keys) for _ in range(n)]
            return ["map", [[["lit", kt, k], self.leaf(vt)] for k in ks]]
        return ["lit", "int", "1"]

    def gen_typed(self, t: str, depth: int) -> Any:
        rng = self.rng
        if depth <= 0 or rng.random() < 0.12:
            return self.leaf(t)
        d = depth - 1
        g = self.gen
        opts: List[str] = ["cond", "cond", "idx", "selm", "dyn", "paren_leaf"]
        if t == "dyn":
            return self.gen_typed(self.ch(SCALARS + ["list<int>", "list<dyn>", "map<string,int>"]), depth)
        if t in ("int", "uint", "double"):
            opts += ["arith"] * 5 + ["conv", "neg"]
            if t == "int":
                opts += ["size", "size", "tsacc", "convint"]
        if t == "bool":
            opts += ["rel"] * 4 + ["or", "or", "and", "and", "not", "macrob", "macrob", "macrob", "has", "strfn", "in", "in", "convbool", "contains"]
        if t == "string":
            opts += ["concat", "concat", "convstr", "convstr"]
        if t == "bytes":
            opts += ["concat", "convbytes"]
        if t.startswith("list<"):
            opts += ["listlit", "listlit", "concat", "macrol", "macrol", "macrol", "filter", "filter"]
        if t.startswith("map<"):
            opts += ["maplit", "maplit"]
        if t == "timestamp":
            opts += ["tsarith", "convts"]
        if t == "duration":
            opts += ["durarith", "convdur"]
        if t == "type":
            opts += ["typeof", "typeof"]
        if t == "null":
            opts += ["leaf"]
        k = self.ch(opts)
        if k == "leaf" or k == "paren_leaf":
            return self.leaf(t)
        if k == "cond":
            return ["cond", g("bool", d), g(t, d), g(t, d)]
        if k == "idx":
            if rng.random() < 0.5:
                lt = "list<%s>" % t if ("list<%s>" % t) in ALLTYPES else "list<dyn>"
                return ["idx", g(lt, d), g("int", min(d, 1))]
            mt = {"int": "map<string,int>", "string": "map<int,string>"}.get(t, "map<string,int>")
            kt = mt[4:-1].split(",")[0]
            return ["idx", g(mt, d), g(kt, min(d, 1))]
        if k == "selm":
            mt = "map<string,int>" if t != "string" else "map<string,int>"
            return ["sel", g(mt, d), self.ch(["a", "b", "c", "zz"])]
        if k == "dyn":
            return ["dyn", g(t, d)]
        if k == "arith":
            op = self.ch(ARITH)
            return ["bin", op, g(t, d), g(t, d)]
        if k == "neg":
            return ["un", "-", g(t, d)]
        if k == "conv":
            src = self.ch(["int", "uint", "double", "string"])
            return ["call", t, [g(src, d)]]
        if k == "convint":
            return ["call", "int", [g(self.ch(["timestamp", "string", "double", "uint"]), d)]]
        if k == "size":
            a = g(self.ch(["string", "list<int>", "map<string,int>", "bytes", "list<dyn>"]), d)
            return ["call", "size", [a]] if rng.random() < 0.5 else ["mcall", a, "size", []]
        if k == "tsacc":
            f = self.ch(["getDate", "getDayOfMonth", "getDayOfWeek", "getDayOfYear", "getFullYear", "getMonth", "getHours", "getMilliseconds", "getMinutes", "getSeconds"])
            recv = g("timestamp" if rng.random() < 0.7 else "duration", d)
            args = [] if rng.random() < 0.7 else [["lit", "string", self.ch(["'UTC'", "'+01:00'", "'America/New_York'", "'nowhere'"])]]
            return ["mcall", recv, f, args]
        if k == "rel":
            op = self.ch(["<", "<=", ">", ">=", "==", "!="])
            ot = self.ch(["int", "int", "uint", "double", "string", "bool", "bytes", "list<int>", "map<string,int>", "timestamp", "duration", "null", "type"])
            return ["bin", op, g(ot, d), g(ot, d)]
        if k == "in":
            et = self.ch(["int", "string"])
            cont = g("list<%s>" % et, d) if rng.random() < 0.6 else g({"int": "map<int,string>", "string": "map<string,int>"}[et], d)
            return ["bin", "in", g(et, d), cont]
        if k == "or":
            return ["or", g("bool", d), g("bool", d)]
        if k == "and":
            return ["and", g("bool", d), g("bool", d)]
        if k == "not":
            return ["un", "!", g("bool", d)]
        if k == "macrob":
            kind = self.ch(["all", "exists", "exists_one"])
            return self.macro(kind, "bool", d)
        if k == "macrol":
            return self.macro("map", self.elem_type(t), d)
        if k == "filter":
            return self.macro("filter", "bool", d, recv_t=t)
        if k == "has":
            inner = self.ch([["sel", g("map<string,int>", d), self.ch(["a", "b", "zz"])],
                             ["sel", ["sel", g("map<string,int>", d), "a"], "b"],
                             ["sel", g(self.ch(["int", "string", "list<int>"]), d), "a"]])
            return ["has", inner]
        if k == "strfn":
            f = self.ch(["startsWith", "endsWith", "contains", "matches"])
            a, b = g("string", d), g("string", min(d, 1))
            return ["mcall", a, f, [b]] if rng.random() < 0.7 else ["call", f, [a, b]]
        if k == "contains":
            a = g(self.ch(["list<int>", "map<string,int>", "string"]), d)
            return ["mcall", a, "contains", [g(self.ch(["int", "string"]), min(d, 1))]]
        if k == "convbool":
            return ["call", "bool", [g(self.ch(["string", "bool", "int"]), d)]]
        if k == "concat":
            return ["bin", "+", g(t, d), g(t, d)]
        if k == "convstr":
            return ["call", "string", [g(self.ch(["int", "uint", "double", "bool", "bytes", "string", "timestamp", "duration", "list<int>", "null"]), d)]]
        if k == "convbytes":
            return ["call", "bytes", [g(self.ch(["string", "bytes"]), d)]]
        if k == "listlit":
            et = self.elem_type(t)
            return ["list", [g(et, d) for _ in range(rng.randint(0, 3))]]
        if k == "maplit":
            kt, vt = t[4:-1].split(",")
            n = rng.randint(0, 3)
            return ["map", [[g(kt, min(d, 1)), g(vt, d)] for _ in range(n)]]
        if k == "tsarith":
            return self.ch([["bin", "+", g("timestamp", d), g("duration", d)], ["bin", "-", g("timestamp", d), g("duration", d)],
                            ["bin", "+", g("duration", d), g("timestamp", d)]])
        if k == "convts":
            return ["call", "timestamp", [g(self.ch(["string", "timestamp", "int"]), d)]]
        if k == "durarith":
            return self.ch([["bin", "+", g("duration", d), g("duration", d)], ["bin", "-", g("timestamp", d), g("timestamp", d)],
                            ["bin", "-", g("duration", d), g("duration", d)]])
        if k == "convdur":
            return ["call", "duration", [g(self.ch(["string", "duration", "int"]), d)]]
        if k == "typeof":
            return ["call", "type", [g(self.any_type(), d)]]
        return self.leaf(t)

    def macro(self, kind: str, body_t: str, d: int, recv_t: Optional[str] = None) -> Any:
        rng = self.rng
        if recv_t is None:
            recv_t = self.ch(["list<int>", "list<int>", "list<string>", "list<dyn>", "map<string,int>", "map<int,string>"])
        recv = self.gen(recv_t, d)
        var = self.ch(["x", "y", "e", "it", "x"])
        self.scope.append((var, self.elem_type(recv_t)))
        try:
            body = self.gen(body_t, d)
        finally:
            self.scope.pop()
        return ["macro", kind, recv, var, body]


# ------------------------------------------------------------------------------------------
# rendering
# ------------------------------------------------------------------------------------------

def render(e: Any) -> str:
    k = e[0]
    if k == "lit":
        return e[2]
    if k == "id":
        return e[1]
    if k == "raw":
        return e[1]
    if k == "un":
        return f"{e[1]}({render(e[2])})"
    if k == "bin":
        return f"({render(e[2])} {e[1]} {render(e[3])})"
    if k == "or":
        return f"({render(e[1])} || {render(e[2])})"
    if k == "and":
        return f"({render(e[1])} && {render(e[2])})"
    if k == "cond":
        return f"({render(e[1])} ? {render(e[2])} : {render(e[3])})"
    if k == "list":
        return "[" + ", ".join(render(x) for x in e[1]) + "]"
    if k == "map":
        return "{" + ", ".join(f"{render(a)}: {render(b)}" for a, b in e[1]) + "}"
    if k == "idx":
        return f"{member(e[1])}[{render(e[2])}]"
    if k == "sel":
        return f"{member(e[1])}.{e[2]}"
    if k == "call":
        return f"{e[1]}(" + ", ".join(render(x) for x in e[2]) + ")"
    if k == "mcall":
        return f"{member(e[1])}.{e[2]}(" + ", ".join(render(x) for x in e[3]) + ")"
    if k == "macro":
        return f"{member(e[2])}.{e[1]}({e[3]}, {render(e[4])})"
    if k == "has":
        return f"has({render(e[1])})"
    if k == "dyn":
        return f"dyn({render(e[1])})"
    raise ValueError(k)


def member(e: Any) -> str:
    """render in `member` position (left of `.`, `[`)"""
    k = e[0]
    if k in ("id", "list", "map", "idx", "sel", "call", "mcall", "macro", "has", "dyn"):
        return render(e)
    if k == "lit" and e[1] in ("string", "bytes", "bool", "null"):
        return render(e)
    s = render(e)
    if s.startswith("(") and s.endswith(")") and k in ("bin", "or", "and", "cond"):
        return s
    return "(" + s + ")"


# ------------------------------------------------------------------------------------------
# traversal helpers and syntactic predicates
# ------------------------------------------------------------------------------------------

def children(e: Any) -> List[Any]:
    k = e[0]
    if k in ("lit", "id", "raw"):
        return []
    if k == "un":
        return [e[2]]
    if k == "bin":
        return [e[2], e[3]]
    if k in ("or", "and"):
        return [e[1], e[2]]
    if k == "cond":
        return [e[1], e[2], e[3]]
    if k == "list":
        return list(e[1])
    if k == "map":
        return [x for kv in e[1] for x in kv]
    if k == "idx":
        return [e[1], e[2]]
    if k == "sel":
        return [e[1]]
    if k == "call":
        return list(e[2])
    if k == "mcall":
        return [e[1]] + list(e[3])
    if k == "macro":
        return [e[2], e[4]]
    if k in ("has", "dyn"):
        return [e[1]]
    raise ValueError(k)


def walk(e: Any):
    yield e
    for c in children(e):
        yield from walk(c)


def size(e: Any) -> int:
    return sum(1 for _ in walk(e))


def depth(e: Any) -> int:
    cs = children(e)
    return 1 + (max(depth(c) for c in cs) if cs else 0)


def kinds(e: Any) -> set:
    return {n[0] for n in walk(e)}


# ------------------------------------------------------------------------------------------
# lark tree -> AST (for the conformance corpus and for arbitrary text)
# ------------------------------------------------------------------------------------------

class Unsupported(Exception):
    pass


def from_tree(t: Any) -> Any:
    """celpy's lark parse tree -> AST; raises Unsupported for constructs outside the AST (member_object,
    leading-dot identifiers, extension macros, malformed macro shapes)."""
    import lark
    if isinstance(t, lark.Token):
        raise Unsupported("token")
    d, ch = t.data, t.children
    if d in ("expr",):
        if len(ch) == 1:
            return from_tree(ch[0])
        return ["cond", from_tree(ch[0]), from_tree(ch[1]), from_tree(ch[2])]
    if d in ("conditionalor", "conditionaland"):
        if len(ch) == 1:
            return from_tree(ch[0])
        return ["or" if d == "conditionalor" else "and", from_tree(ch[0]), from_tree(ch[1])]
    if d in ("relation", "addition", "multiplication"):
        if len(ch) == 1:
            return from_tree(ch[0])
        opn = ch[0].data
        op = {"relation_lt": "<", "relation_le": "<=", "relation_gt": ">", "relation_ge": ">=", "relation_eq": "==",
              "relation_ne": "!=", "relation_in": "in", "addition_add": "+", "addition_sub": "-",
              "multiplication_mul": "*", "multiplication_div": "/", "multiplication_mod": "%"}[opn]
        return ["bin", op, from_tree(ch[0].children[0]), from_tree(ch[1])]
    if d == "unary":
        if len(ch) == 1:
            return from_tree(ch[0])
        return ["un", {"unary_not": "!", "unary_neg": "-"}[ch[0].data], from_tree(ch[1])]
    if d in ("member", "primary"):
        return from_tree(ch[0])
    if d == "paren_expr":
        return from_tree(ch[0])
    if d == "member_dot":
        return ["sel", from_tree(ch[0]), str(ch[1])]
    if d == "member_index":
        return ["idx", from_tree(ch[0]), from_tree(ch[1])]
    if d == "member_dot_arg":
        name = str(ch[1])
        args = list(ch[2].children) if len(ch) == 3 and ch[2] is not None else []
        if name in MACROS:
            if len(args) != 2:
                raise Unsupported("macro arity")
            v = args[0]
            # the bind variable must be a bare identifier
            vt = from_tree(v)
            if vt[0] != "id":
                raise Unsupported("macro variable")
            return ["macro", name, from_tree(ch[0]), vt[1], from_tree(args[1])]
        if name in EXT_MACROS:
            raise Unsupported("extension macro")
        return ["mcall", from_tree(ch[0]), name, [from_tree(a) for a in args]]
    if d == "ident_arg":
        name = str(ch[0])
        args = list(ch[1].children) if len(ch) == 2 and ch[1] is not None else []
        if name in ("has", "dyn"):
            if len(args) != 1:
                raise Unsupported("has/dyn arity")
            return [name, from_tree(args[0])]
        return ["call", name, [from_tree(a) for a in args]]
    if d == "ident":
        return ["id", str(ch[0])]
    if d == "list_lit":
        if not ch or ch[0] is None:
            return ["list", []]
        return ["list", [from_tree(a) for a in ch[0].children]]
    if d == "map_lit":
        if not ch or ch[0] is None:
            return ["map", []]
        xs = ch[0].children
        return ["map", [[from_tree(xs[i]), from_tree(xs[i + 1])] for i in range(0, len(xs), 2)]]
    if d == "literal":
        tok = ch[0]
        kind = {"INT_LIT": "int", "UINT_LIT": "uint", "FLOAT_LIT": "double", "STRING_LIT": "string", "MLSTRING_LIT": "string",
                "BYTES_LIT": "bytes", "BOOL_LIT": "bool", "NULL_LIT": "null"}[tok.type]
        return ["lit", kind, str(tok)]
    raise Unsupported(d)


_PARSER = None


def parse_text(src: str) -> Any:
    """CEL text -> AST, or raises (Unsupported / parse errors)"""
    global _PARSER
    import celpy
    if _PARSER is None:
        _PARSER = celpy.CELParser()
    return from_tree(_PARSER.parse(src))
