"""Helpers shared by the C10 and C11 checks: an independent proleptic-Gregorian calendar in plain
integers (Howard Hinnant's era/yoe/doy algorithms — NOT datetime, NOT the Lean model, which mirrors
CPython's _ord2ymd), construction / deconstruction of TimestampType and DurationType values,
the text encoding of the Lean line protocol, and the interpreter's exception handlers read from
the source."""
from __future__ import annotations
import ast
import builtins
import datetime
import functools
from fractions import Fraction
from typing import Optional, Tuple

from ..core import REPO

US_S = 10**6
US_DAY = 86400 * US_S
MAX_DAYS = 3652059                      # 0001-01-01 .. 9999-12-31
MAX_LOC = MAX_DAYS * US_DAY - 1
MAX_DUR_S = 315576000000
MAX_DUR = MAX_DUR_S * US_S
EPOCH_IDX = 719162                      # day index of 1970-01-01 counted from 0001-01-01
EPOCH_US = EPOCH_IDX * US_DAY
H14 = 14 * 3600 * US_S


# ---- independent calendar (days since 1970-01-01, Hinnant) -------------------------------------
def days_from_civil(y: int, m: int, d: int) -> int:
    y -= m <= 2
    era = (y if y >= 0 else y - 399) // 400
    yoe = y - era * 400
    doy = (153 * (m + (-3 if m > 2 else 9)) + 2) // 5 + d - 1
    doe = yoe * 365 + yoe // 4 - yoe // 100 + doy
    return era * 146097 + doe - 719468


def civil_from_days(z: int) -> Tuple[int, int, int]:
    z += 719468
    era = (z if z >= 0 else z - 146096) // 146097
    doe = z - era * 146097
    yoe = (doe - doe // 1460 + doe // 36524 - doe // 146096) // 365
    y = yoe + era * 400
    doy = doe - (365 * yoe + yoe // 4 - yoe // 100)
    mp = (5 * doy + 2) // 153
    d = doy - (153 * mp + 2) // 5 + 1
    m = mp + (3 if mp < 10 else -9)
    return (y + (m <= 2), m, d)


def idx_from_civil(y, m, d) -> int:
    """day index counted from 0001-01-01"""
    return days_from_civil(y, m, d) + EPOCH_IDX


def fields_of_loc(loc: int):
    """(y, m, d, H, M, S, us, dayindex) of a local clock value in µs since 0001-01-01T00:00"""
    n, tod = divmod(loc, US_DAY)
    y, m, d = civil_from_days(n - EPOCH_IDX)
    return (y, m, d, tod // (3600 * US_S), tod // (60 * US_S) % 60, tod // US_S % 60, tod % US_S, n)


def loc_of_fields(y, m, d, H=0, M=0, S=0, us=0) -> int:
    return idx_from_civil(y, m, d) * US_DAY + ((H * 60 + M) * 60 + S) * US_S + us


def is_leap(y: int) -> bool:
    return y % 4 == 0 and (y % 100 != 0 or y % 400 == 0)


def spec_accessor(name: str, local: int) -> int:
    """the civil-calendar field the property names, from the local clock, in plain integers"""
    y, m, d, H, M, S, us, n = fields_of_loc(local)
    if name == "getFullYear":
        return y
    if name == "getMonth":
        return m - 1
    if name == "getDate":
        return d
    if name == "getDayOfMonth":
        return d - 1
    if name == "getDayOfYear":
        return n - idx_from_civil(y, 1, 1)
    if name == "getDayOfWeek":
        return (4 + (n - EPOCH_IDX)) % 7          # 1970-01-01 was a Thursday; Sunday = 0
    if name == "getHours":
        return H
    if name == "getMinutes":
        return M
    if name == "getSeconds":
        return S
    if name == "getMilliseconds":
        return us // 1000
    raise KeyError(name)


ACCESSORS = ["getDate", "getDayOfMonth", "getDayOfWeek", "getDayOfYear", "getFullYear", "getMonth",
             "getHours", "getMinutes", "getSeconds", "getMilliseconds"]


# ---- values of the implementation -------------------------------------------------------------
def make_ts(loc: int, off: int):
    """TimestampType with the given local clock (µs since 0001-01-01T00:00) and UTC offset (µs)"""
    from celpy import celtypes
    y, m, d, H, M, S, us, _ = fields_of_loc(loc)
    tz = datetime.timezone.utc if off == 0 else datetime.timezone(datetime.timedelta(microseconds=off))
    return celtypes.TimestampType(datetime.datetime(y, m, d, H, M, S, us, tzinfo=tz))


def ts_parts(v) -> Tuple[int, int]:
    """(local clock, offset) of a datetime, from its fields with the independent calendar"""
    off = v.utcoffset()
    offus = 0 if off is None else (off.days * 86400 + off.seconds) * US_S + off.microseconds
    return loc_of_fields(v.year, v.month, v.day, v.hour, v.minute, v.second, v.microsecond), offus


def td_us(v) -> int:
    return (v.days * 86400 + v.seconds) * US_S + v.microseconds


def make_dur(us: int):
    from celpy import celtypes
    return celtypes.DurationType(datetime.timedelta(microseconds=us))


def off_text(off: int) -> str:
    """+HH:MM / -HH:MM of a whole-minute offset"""
    mins = abs(off) // (60 * US_S)
    return ("-" if off < 0 else "+") + f"{mins // 60:02d}:{mins % 60:02d}"


def ts_text(loc: int, off: int) -> str:
    y, m, d, H, M, S, us, _ = fields_of_loc(loc)
    s = f"{y:04d}-{m:02d}-{d:02d}T{H:02d}:{M:02d}:{S:02d}"
    if us:
        s += f".{us:06d}"
    return s + ("Z" if off == 0 else off_text(off))


def ts_lit(loc: int, off: int) -> str:
    return f"timestamp('{ts_text(loc, off)}')"


def dur_lit(us: int) -> str:
    assert us % US_S == 0
    return f"duration('{us // US_S}s')"


def canon_time(v) -> str:
    """canonical outcome for the values C10/C11 look at (class-exact for timestamps/durations)"""
    from celpy import celtypes
    from .. import celrun
    t = type(v)
    if t is celtypes.TimestampType:
        l, o = ts_parts(v)
        return f"ts {l} {o}"
    if t is celtypes.DurationType:
        return f"dur {td_us(v)}"
    if t is datetime.timedelta:
        return f"pydur {td_us(v)}"
    if t is datetime.datetime:
        l, o = ts_parts(v)
        return f"pyts {l} {o}"
    return celrun.canon(v)


def run_cel(src: str, runner: str, bindings=None) -> str:
    """like celrun.run, with canon_time"""
    import celpy
    from celpy.evaluation import CELEvalError
    from .. import celrun
    try:
        env = celpy.Environment(runner_class=celrun.RUNNERS[runner])
        try:
            tree = env.compile(src)
        except celpy.CELParseError:
            return "parse-error"
        v = env.program(tree).evaluate(bindings or {})
        return canon_time(v)
    except CELEvalError:
        return "err"
    except RecursionError:
        return "EXC RecursionError"
    except Exception as ex:  # noqa
        return f"EXC {type(ex).__name__}"


# ---- Lean line protocol -------------------------------------------------------------------------
def enc(s: str) -> str:
    return ",".join(str(ord(c)) for c in s) or "-"


def dec(t: str) -> str:
    return "" if t == "-" else "".join(chr(int(x)) for x in t.split(","))


def cel_str(s: str) -> str:
    """a CEL string literal for s (printable ASCII and a few escapes only)"""
    out = []
    for c in s:
        if c == "\\":
            out.append("\\\\")
        elif c == "'":
            out.append("\\'")
        elif c == "\n":
            out.append("\\n")
        elif c == "\t":
            out.append("\\t")
        elif c == "\r":
            out.append("\\r")
        elif ord(c) < 32 or ord(c) == 127:
            out.append("\\x%02x" % ord(c))
        else:
            out.append(c)
    return "'" + "".join(out) + "'"


# ---- which exception classes the interpreter turns into evaluation errors ------------------------
@functools.lru_cache(maxsize=None)
def interp_handlers(rule: str) -> Tuple[str, ...]:
    """names of the classes caught by `except` clauses of Evaluator.<rule> (current source)"""
    src = (REPO / "src/celpy/evaluation.py").read_text()
    mod = ast.parse(src)
    out = []
    for node in mod.body:
        if isinstance(node, ast.ClassDef) and node.name == "Evaluator":
            for f in node.body:
                if isinstance(f, ast.FunctionDef) and f.name == rule:
                    for n in ast.walk(f):
                        if isinstance(n, ast.Try):
                            for h in n.handlers:
                                if h.type is None:
                                    out.append("BaseException")
                                elif isinstance(h.type, ast.Tuple):
                                    out += [ast.unparse(e) for e in h.type.elts]
                                else:
                                    out.append(ast.unparse(h.type))
    return tuple(out)


def interp_catches(rule: str, exc_name: str) -> bool:
    exc = getattr(builtins, exc_name, None)
    if exc is None:
        return False
    for h in interp_handlers(rule):
        hc = getattr(builtins, h, None)
        if hc is not None and isinstance(hc, type) and issubclass(exc, hc):
            return True
    return False


def expect_from_model(model_out: str, via: str, rule: str, okfmt) -> str:
    """map a model answer `ok …` / `raise Class` to the canonical outcome of the given route:
    via 'direct' (dunder / constructor called from Python), 'I…' interpreter, 'C…' compiled"""
    if model_out.startswith("ok "):
        return okfmt(model_out[3:])
    if model_out.startswith("raise "):
        cls = model_out[6:]
        if via == "direct":
            return "raise " + cls
        if via.startswith("C"):
            return "err"                      # Transpiler.evaluate wraps every exception
        return "err" if interp_catches(rule, cls) else "EXC " + cls
    return "model:" + model_out


# ---- exact duration text (the property's own reading, independent of the implementation) --------
UNIT_S = {"ns": Fraction(1, 10**9), "us": Fraction(1, 10**6), "µs": Fraction(1, 10**6), "ms": Fraction(1, 1000),
          "s": Fraction(1), "m": Fraction(60), "h": Fraction(3600), "d": Fraction(86400)}


def spec_duration_us(text: str) -> Optional[Fraction]:
    """exact value in µs of `[-+]?(number unit)+` where every number has at least one digit;
    None when the text is not of that shape (the oracle then only demands an error)"""
    i, n = 0, len(text)
    sign = 1
    if i < n and text[i] in "+-":
        sign = -1 if text[i] == "-" else 1
        i += 1
    total = Fraction(0)
    items = 0
    while i < n:
        j = i
        while j < n and text[j] in "0123456789":
            j += 1
        ip = text[i:j]
        fp = ""
        if j < n and text[j] == ".":
            k = j + 1
            while k < n and text[k] in "0123456789":
                k += 1
            fp = text[j + 1:k]
            j = k
        if not ip and not fp:
            return None
        unit = None
        for u in ("ns", "us", "µs", "ms", "s", "m", "h", "d"):
            if text.startswith(u, j):
                unit = u
                break
        if unit is None:
            return None
        num = Fraction(int(ip or "0")) + (Fraction(int(fp), 10 ** len(fp)) if fp else 0)
        total += num * UNIT_S[unit]
        i = j + len(unit)
        items += 1
    if items == 0:
        return None
    return sign * total * US_S
