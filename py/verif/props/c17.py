"""C17 — Custodian helper functions implement their set, CIDR, tag and ARN semantics.

Correspondence: every `celpy.c7nlib` helper named by the property is called directly and through CEL
(`functions=celpy.c7nlib.FUNCTIONS`, interpreted and compiled runner, function and method call syntax) and
compared with the executable Lean model (`Cel.Model.C7n` via `Cel.Drv.C17`).  The oracle is written
independently of both: membership loops for the set helpers, integer interval containment for CIDR, a
character-level backtracking glob matcher, zero-padded tuple comparison for versions, index loops for tags and
ARNs, and the bracket discipline for the filter context.
"""
from __future__ import annotations
import itertools
import random
from typing import Any, Dict, Iterable, List, Optional

from ..core import Prop
from .. import celrun

# ------------------------------------------------------------------------------------------------
# encodings for the Lean driver
# ------------------------------------------------------------------------------------------------

def enc_str(s: str) -> str:
    return ".".join(str(ord(c)) for c in s) if s else "-"


def dec_str(t: str) -> str:
    return "" if t == "-" else "".join(chr(int(x)) for x in t.split("."))


def enc_elems(xs: List[Any]) -> str:
    if not xs:
        return "-"
    return ",".join(("i%d" % x) if isinstance(x, int) else ("s" + enc_str(x)) for x in xs)


def enc_tags(tags: List[Dict[str, str]]) -> str:
    if not tags:
        return "-"
    return ";".join((enc_str(t["Key"]) if "Key" in t else "~") + "|" + (enc_str(t["Value"]) if "Value" in t else "~")
                    for t in tags)


def dotted(a: int) -> str:
    return ".".join(str((a >> s) & 255) for s in (24, 16, 8, 0))


def cidr_text(c: Dict[str, Any]) -> str:
    t = c["t"]
    if t == "net":
        if c.get("form") == "mask" and 0 <= c["len"] <= 32:
            return dotted(c["addr"]) + "/" + dotted((0xFFFFFFFF << (32 - c["len"])) & 0xFFFFFFFF)
        return dotted(c["addr"]) + "/" + str(c["len"])
    if t == "addr":
        return dotted(c["ip"])
    if t == "v6":
        return "::1"
    return c["text"]


def cidr_tok(c: Dict[str, Any]) -> str:
    t = c["t"]
    if t == "net":
        return f"n:{c['addr']}:{c['len']}"
    if t == "addr":
        return f"a:{c['ip']}"
    if t == "v6":
        return "v6"
    return "x"


def ver_text(v: List[int]) -> str:
    return ".".join(str(x) for x in v)


# ------------------------------------------------------------------------------------------------
# independent reference computations (the oracle's side)
# ------------------------------------------------------------------------------------------------

def ref_distinct(xs: List[Any]) -> int:
    n = 0
    for i, x in enumerate(xs):
        if not any(type(y) is type(x) and y == x for y in xs[:i]):
            n += 1
    return n


def ref_member(x: Any, ys: List[Any]) -> bool:
    return any(type(y) is type(x) and y == x for y in ys)


def ref_bracket(pat: str, i: int):
    """`pat[i]` is the character after a `[`.  Returns None when the bracket is not closed, else
    (negated, members, ranges, index after the closing bracket); members/ranges of the body."""
    j = i
    neg = False
    if j < len(pat) and pat[j] == "!":
        neg = True
        j += 1
    start = j
    if j < len(pat) and pat[j] == "]":
        j += 1
    while j < len(pat) and pat[j] != "]":
        j += 1
    if j >= len(pat):
        return None
    body = pat[start:j]
    singles, ranges = [], []
    k = 0
    while k < len(body):
        if k + 2 < len(body) and body[k + 1] == "-":
            ranges.append((body[k], body[k + 2]))
            k += 3
        else:
            singles.append(body[k])
            k += 1
    return neg, singles, ranges, j + 1


def ref_glob(text: str, pat: str) -> Optional[bool]:
    """Shell-pattern matching by backtracking over the pattern text (no regular expressions, no item list).
    None: the pattern has an inverted range `[b-a]` (outside the modelled fragment)."""
    memo: Dict[Any, Optional[bool]] = {}
    bad = [False]

    def go(ti: int, pi: int) -> bool:
        key = (ti, pi)
        if key in memo:
            return memo[key]
        if pi == len(pat):
            r = ti == len(text)
        else:
            c = pat[pi]
            if c == "*":
                r = go(ti, pi + 1) or (ti < len(text) and go(ti + 1, pi))
            elif c == "?":
                r = ti < len(text) and go(ti + 1, pi + 1)
            elif c == "[":
                br = ref_bracket(pat, pi + 1)
                if br is None:
                    r = ti < len(text) and text[ti] == "[" and go(ti + 1, pi + 1)
                else:
                    neg, singles, ranges, nxt = br
                    if any(lo > hi for lo, hi in ranges):
                        bad[0] = True
                    if ti < len(text):
                        ch = text[ti]
                        inside = ch in singles or any(lo <= ch <= hi for lo, hi in ranges)
                        r = (inside != neg) and go(ti + 1, nxt)
                    else:
                        r = False
            else:
                r = ti < len(text) and text[ti] == c and go(ti + 1, pi + 1)
        memo[key] = r
        return r

    # scan the whole pattern for inverted ranges first (the matcher may not visit every bracket)
    pi = 0
    while pi < len(pat):
        if pat[pi] == "[":
            br = ref_bracket(pat, pi + 1)
            if br is not None:
                if any(lo > hi for lo, hi in br[2]):
                    return None
                pi = br[3]
                continue
        pi += 1
    return go(0, 0)


def ref_net(c: Dict[str, Any]):
    """(lo, hi) of a well-formed network / address description, 'invalid' for a network text that
    `ipaddress` must reject, None where the oracle does not know"""
    if c["t"] == "net":
        a, l = c["addr"], c["len"]
        if not (0 <= l <= 32) or not (0 <= a < 2 ** 32):
            return "invalid"
        size = 2 ** (32 - l)
        if a % size:
            return "invalid"
        return (a, a + size - 1)
    if c["t"] == "addr":
        if 0 <= c["ip"] < 2 ** 32:
            return (c["ip"], c["ip"])
    return None


def ref_vcmp(op: str, a: List[int], b: List[int]) -> bool:
    n = max(len(a), len(b))
    x, y = tuple(a + [0] * (n - len(a))), tuple(b + [0] * (n - len(b)))
    return {"lt": x < y, "le": x <= y, "gt": x > y, "ge": x >= y, "eq": x == y, "ne": x != y}[op]


ARN_FORMATS = {
    5: ["partition", "service", "region", "account-id", "resource-id"],
    6: ["partition", "service", "region", "account-id", "resource-type", "resource-id"],
}

WS = " \t\n\r\x0b\x0c\x1c\x1d\x1e\x1f"


def ref_normalize(s: str) -> str:
    out = []
    for ch in s:
        o = ord(ch)
        out.append(chr(o + 32) if 65 <= o <= 90 else ch)
    i, j = 0, len(out)
    while i < j and out[i] in WS:
        i += 1
    while j > i and out[j - 1] in WS:
        j -= 1
    return "".join(out[i:j])


# ------------------------------------------------------------------------------------------------
# running the implementation
# ------------------------------------------------------------------------------------------------

class _Filter:
    """stands in for the Custodian filter: `c7nlib.image()` reaches it through `C7N.filter`.

    Custodian filters are data-like objects: two filters built from the same policy text compare equal although they
    belong to different managers/regions.  The property speaks about THE filter installed for an evaluation, i.e. object
    identity.  `eq` is the equality class of the stand-in: stand-ins of one class compare (and hash) equal although they
    are different objects with different `ident`s (seeded C17-m5: a context kept "per equal filter")."""

    def __init__(self, ident: int, log: List[Any], eq: int = 0):
        self.ident = ident
        self.log = log
        self.eq = eq

    def __eq__(self, other):
        return isinstance(other, _Filter) and other.eq == self.eq

    def __ne__(self, other):
        return not self.__eq__(other)

    def __hash__(self):
        return 17 + self.eq

    def __repr__(self):
        return f"_Filter({self.ident}, eq={self.eq})"

    def get_instance_image(self, resource):
        self.log.append(self.ident)
        return {"CreationDate": "2020-01-01T00:00:00Z", "Name": "x"}


class _Impl:
    """lazily built CEL programs over `celpy.c7nlib.FUNCTIONS`"""

    def __init__(self):
        self.progs: Dict[Any, Any] = {}
        self.envs: Dict[Any, Any] = {}
        self.rcls: Any = None
        self.log: List[Any] = []

    def lib(self):
        import celpy.c7nlib as L
        return L

    def functions(self):
        L = self.lib()
        from celpy import celtypes
        fns = dict(L.FUNCTIONS)

        def observe():
            cur = L.C7N
            self.log.append(None if cur is None else cur.filter.ident)
            return celtypes.BoolType(True)

        def boom():
            raise RuntimeError("boom")
        fns["observe"] = observe
        fns["boom"] = boom
        return fns

    def prog(self, src: str, runner: str):
        k = (src, runner)
        if k not in self.progs:
            import celpy
            L = self.lib()
            rc = {"I": celpy.InterpretedRunner, "C": celpy.CompiledRunner, "R": L.C7N_Interpreted_Runner}[runner]
            if k not in self.envs:
                env = celpy.Environment(runner_class=rc)
                self.envs[k] = (env, env.compile(src))
            env, ast_ = self.envs[k]
            if runner == "R":
                env.runner_class = self.rcls or L.C7N_Interpreted_Runner
            self.progs[k] = env.program(ast_, functions=self.functions())
        return self.progs[k]

    def fresh_programs(self):
        """a context history is a self-contained case: it starts with program (runner) objects of its own - and with a
        subclass of `C7N_Interpreted_Runner` of its own - so whatever a runner (or `type(self)`) keeps between evaluations
        comes from THIS history (the parsed expressions are kept)"""
        self.progs = {}
        L = self.lib()
        self.rcls = type("C7N_Interpreted_Runner", (L.C7N_Interpreted_Runner,), {})

    def cel(self, src: str, runner: str, act: Dict[str, Any]):
        return self.prog(src, runner).evaluate(act)


IMPL = _Impl()


def _boolish(v) -> str:
    from celpy import celtypes
    if isinstance(v, (bool, celtypes.BoolType)):
        return "true" if v else "false"
    return "notbool " + celrun.canon(v)


def cel_list(xs):
    from celpy import celtypes
    return celtypes.ListType([celtypes.IntType(x) if isinstance(x, int) else celtypes.StringType(x) for x in xs])


def cel_tags(tags):
    from celpy import celtypes
    S = celtypes.StringType
    return celtypes.ListType([celtypes.MapType({S(k): S(v) for k, v in t.items()}) for t in tags])


def marked_expected(m: str, a: str, d: str) -> str:
    """canonical form of the mapping `marked_key` builds from the three parts; the date goes through
    `celtypes.TimestampType` (text → timestamp is C10/C11's subject)"""
    from celpy import celtypes
    S = celtypes.StringType
    try:
        ts = celtypes.TimestampType(d)
    except Exception as ex:
        return "raise " + type(ex).__name__
    return celrun.canon(celtypes.MapType({S("message"): S(m), S("action"): S(a), S("action_date"): ts}))


def call_spec(c: Dict[str, Any]):
    """(direct thunk, CEL source for fn style, CEL source for method style, activation)"""
    from celpy import celtypes
    L = IMPL.lib()
    S = celtypes.StringType
    k = c["kind"]
    if k == "set":
        fn = c["fn"]
        a = cel_list(c["a"])
        if fn == "unique_size":
            return (lambda: L.unique_size(a)), "unique_size(a)", "a.unique_size()", {"a": a}
        b = cel_list(c["b"])
        f = getattr(L, fn)
        return (lambda: f(a, b)), f"{fn}(a, b)", f"a.{fn}(b)", {"a": a, "b": b}
    if k == "normalize":
        s = S(c["s"])
        return (lambda: L.normalize(s)), "normalize(s)", "s.normalize()", {"s": s}
    if k == "glob":
        t, p = S(c["text"]), S(c["pat"])
        return (lambda: L.glob(t, p)), "glob(t, p)", "t.glob(p)", {"t": t, "p": p}
    if k == "cidr":
        n, x = S(cidr_text(c["n"])), S(cidr_text(c["x"]))
        return ((lambda: L.parse_cidr(n).contains(L.parse_cidr(x))),
                "contains(parse_cidr(n), parse_cidr(x))", "parse_cidr(n).contains(parse_cidr(x))", {"n": n, "x": x})
    if k == "size":
        n = S(cidr_text(c["c"]))
        return (lambda: L.size_parse_cidr(n)), "size_parse_cidr(n)", "n.size_parse_cidr()", {"n": n}
    if k == "version":
        a, b = S(ver_text(c["a"])), S(ver_text(c["b"]))
        import operator
        op = {"lt": operator.lt, "le": operator.le, "gt": operator.gt, "ge": operator.ge, "eq": operator.eq,
              "ne": operator.ne}[c["op"]]
        sym = {"lt": "<", "le": "<=", "gt": ">", "ge": ">=", "eq": "==", "ne": "!="}[c["op"]]
        return ((lambda: op(L.version(a), L.version(b))), f"version(a) {sym} version(b)",
                f"a.version() {sym} b.version()", {"a": a, "b": b})
    if k in ("key", "marked_key"):
        tags, tk = cel_tags(_tags_of(c)), S(c["k"])
        f = getattr(L, k)
        return (lambda: f(tags, tk)), f"{k}(tags, k)", f"tags.{k}(k)", {"tags": tags, "k": tk}
    if k == "arn":
        arn, fld = S(_arn_of(c)), S(c["field"])
        return (lambda: L.arn_split(arn, fld)), "arn_split(arn, f)", "arn.arn_split(f)", {"arn": arn, "f": fld}
    raise ValueError(k)


def _tags_of(c):
    if "m" in c:     # structured marked_key case: pre ++ [target] ++ post
        return list(c["pre"]) + [{"Key": c["k"], "Value": c["m"] + ":" + c["a"] + "@" + c["d"]}] + list(c["post"])
    return c["tags"]


def _arn_of(c):
    return ":".join([c["prefix"]] + list(c["fields"]))


# ---- tag streams -------------------------------------------------------------------------------

# values of the `message:action@date` shape the stream generator uses, with their parts (the oracle's table)
MARKED_VALUES = {
    "m:stop@2020-09-10": ("m", "stop", "2020-09-10"),
    "idle 3 days:terminate@2021-01-02": ("idle 3 days", "terminate", "2021-01-02"),
    "a:b:notify@2021-03-04": ("a:b", "notify", "2021-03-04"),
}


def run_tagseq(c: Dict[str, Any]) -> str:
    """A filter is applied to a STREAM of resources: each step builds a tag list (a fresh object, as `json_to_cel` does per
    resource), looks a few keys up in it with `key` / `marked_key`, and drops it before the next one is built - so a later
    list may live at the address of an earlier one - or (step flag `mut`) rewrites the previous list object in place.
    The answer of every lookup is reported; each must be the answer for the list AS IT IS at that moment."""
    from celpy import celtypes
    L = IMPL.lib()
    S = celtypes.StringType
    via = c.get("via", "py")
    outs: List[str] = []
    tags = None
    for st in c["steps"]:
        build = c.get("build", "cel")
        if st.get("mut") and tags is not None:
            tags[:] = cel_tags(st["tags"])                  # the same list object, new content
        elif build == "json":
            doc = [dict(t) for t in st["tags"]]
            tags = None                                     # the previous resource is gone before this one is converted
            tags = L.json_to_cel(doc)
        else:
            items = [celtypes.MapType({S(a): S(b) for a, b in t.items()}) for t in st["tags"]]
            tags = None                                     # drop the previous list, then make the new list object at once
            if build == "fill":
                tags = celtypes.ListType()
                tags.extend(items)
            else:
                tags = celtypes.ListType(items)
        for fn, k in st["looks"]:
            try:
                if via == "py":
                    v = getattr(L, fn)(tags, S(k))
                else:
                    src = f"tags.{fn}(k)" if c.get("style") == "method" else f"{fn}(tags, k)"
                    v = IMPL.cel(src, via, {"tags": tags, "k": S(k)})
                outs.append(celrun.canon(v))
            except Exception as ex:
                outs.append(("raise " + type(ex).__name__) if via == "py" else "error")
    tags = None
    return " ; ".join(outs) if outs else "-"


def tagseq_line(c: Dict[str, Any]) -> Optional[str]:
    toks = []
    for st in c["steps"]:
        for fn, k in st["looks"]:
            toks += ["key" if fn == "key" else "mkey", enc_tags(st["tags"]), enc_str(k)]
    return ("kseq " + " ".join(toks)) if toks else None


def ref_lookup(fn: str, tags: List[Dict[str, str]], k: str) -> Optional[str]:
    """the property's account of ONE lookup on well-formed tags (None: no claim)"""
    if not all("Key" in t and "Value" in t for t in tags):
        return None
    val = None
    for t in tags:
        if t["Key"] == k:
            val = t["Value"]
            break
    if fn == "key":
        return "null" if val is None else "string:" + _jstr(val)
    if val is None or ":" not in val:
        return "null"
    if val in MARKED_VALUES:
        exp = marked_expected(*MARKED_VALUES[val])
        return None if exp.startswith("raise ") else exp
    return None


# ---- context histories ---------------------------------------------------------------------------

def hist_src(it: Dict[str, Any]) -> str:
    obs = "observe()" if it["obs"] == "observe" else 'image(r).Name == "x"'
    terms = [obs] * it["nobs"]
    if it["fail"] == "cel":
        terms.append("(1/0 > 0)")
    elif it["fail"] == "exc":
        terms.append('arn_split("arn:a", "partition") == "p"')
    elif it["fail"] == "boom":
        terms.append("boom()")
    return " && ".join(terms)


def run_hist(hist: List[Dict[str, Any]]) -> str:
    from celpy import celtypes
    L = IMPL.lib()
    log = IMPL.log
    log.clear()
    act = {"r": celtypes.MapType({})}

    def cur():
        c = L.C7N
        return None if c is None else c.filter.ident
    IMPL.fresh_programs()
    objs: Dict[int, _Filter] = {}

    def filt(ident: int, eq: int) -> _Filter:
        # one object per ident: an item that names an earlier ident re-installs the very same filter object
        if ident not in objs:
            objs[ident] = _Filter(ident, log, eq)
        return objs[ident]
    for it in hist:
        log.append(cur())
        src = hist_src(it)
        f = filt(it["f"], it.get("eq", 0))
        try:
            st = it["style"]
            if st == "with":
                p = IMPL.prog(src, it["runner"])
                with L.C7NContext(filter=f):
                    p.evaluate(act)
            elif st == "runner":
                IMPL.prog(src, "R").evaluate(act, filter=f)
            elif st == "nested":
                p = IMPL.prog(src, "R")
                with L.C7NContext(filter=filt(it["g"], it.get("geq", 0))):
                    p.evaluate(act, filter=f)
                    log.append(cur())
            else:  # bare: no context at all
                IMPL.prog(src, it["runner"]).evaluate(act)
        except Exception:
            pass
        log.append(cur())
    fin = cur()
    show = lambda v: "N" if v is None else str(v)
    out = "done " + show(fin) + " " + (",".join(show(v) for v in log) if log else "-")
    log.clear()
    return out


def hist_tokens(hist) -> str:
    toks = []
    n = 0
    for it in hist:
        body = ["obs"] * it["nobs"] + (["fail"] if it["fail"] != "no" else [])
        inner = ["ctx", str(it["f"]), str(len(body))] + body
        st = it["style"]
        if st == "nested":
            ev = ["try", "1", "ctx", str(it["g"]), "2"] + inner + ["obs"]
        elif st == "bare":
            ev = ["try", str(len(body))] + body
        else:
            ev = ["try", "1"] + inner
        toks += ["obs"] + ev + ["obs"]
        n += 3
    return f"hist {n} " + " ".join(toks)


def hist_expected(hist) -> str:
    """the property's own account of what must be observed"""
    log = []
    for it in hist:
        log.append("N")
        log += [("N" if it["style"] == "bare" else str(it["f"]))] * it["nobs"]
        if it["style"] == "nested" and it["fail"] == "no":
            log.append("N")
        log.append("N")
    return "done N " + (",".join(log) if log else "-")


# ------------------------------------------------------------------------------------------------

SETFN = ["intersect", "difference"]
VOPS = ["lt", "le", "gt", "ge", "eq", "ne"]


def lists_upto(alpha, n):
    out = []
    for k in range(n + 1):
        out += [list(t) for t in itertools.product(alpha, repeat=k)]
    return out


def strings_upto(alpha, n):
    out = []
    for k in range(n + 1):
        out += ["".join(t) for t in itertools.product(alpha, repeat=k)]
    return out


class C17(Prop):
    pid = "C17"
    manifest = dict(
        technique='Lean 4 theorems over an executable model of the c7nlib helpers: intersect/difference/unique_size against list membership and duplicate-free lists, strict IPv4 networks as aligned Nat intervals (containment iff every address is contained; nested-or-disjoint), a glob matcher proved equal to the inductively defined shell-pattern language by induction on the pattern, the packaging release key as a strict total order equal to zero-padded tuple order, first-match/decomposition lemmas for key/marked_key/arn_split, and a bracket invariant over all nested histories for the C7N global; small helpers and tables regenerated from c7nlib.py + bridge; differential correspondence (direct calls and through CEL with FUNCTIONS, both runners) with independent oracles',
        text='proof: the helper functions of the model satisfy the stated set, CIDR, glob, version, tag and ARN laws for all inputs and the context bracket for all histories; the model is tied to c7nlib.py by regenerated definitions (bridge) and by correspondence on exhaustive small scopes; fnmatch/ipaddress/packaging are trusted libraries tied by correspondence',
        note='Lean kernel; standard axioms; py2lean; fnmatch, ipaddress, packaging.version, Unicode casing and TimestampType text parsing are delegated and only corresponded',
        ref='DESIGN.md §5 C17')
    lean_targets = ["Cel.Props.C17", "Cel.Bridge.C7n"]
    audit_namespaces = ["Cel.Props.C17", "Cel.Bridge"]
    gen_names = ["C7n"]
    trusted = ["fnmatch (regex translation incl. atomic groups), ipaddress (text parsing, bit masks), packaging.version (text parsing, pre/post/dev segments) — corresponded, not proved",
               "Unicode case mapping / non-ASCII white space in normalize; TimestampType text parsing in marked_key",
               "Python set semantics = duplicate-free list (hash collisions between IntType and StringType do not occur)",
               "CPython `with` statement semantics (enter / exit on every exit path)"]
    rule = ("per helper: exhaustive small scopes (list pairs over 4-symbol alphabets, patterns/texts over {a,b,*,?,[,],!} and a range alphabet, "
            "every prefix length x structured addresses, dotted versions over {0,1,9,10,12}, tag lists with duplicate/missing keys (0..14 tags), "
            "streams of 2..5 tag lists of 0..18 tags that are built, looked up (key/marked_key, directly and through CEL) and dropped or "
            "rewritten in place one after the other, ARN shapes with 4..7 fields) + seeded random larger ones; each called directly and (a share) through CEL on both runners in function and method "
            "syntax; context histories: every ok/fail sequence up to length 6 with seeded styles plus seeded short ones; each history "
            "starts with runner objects of its own, re-evaluates the same program, and installs filter stand-ins that are different "
            "objects comparing equal (equality classes), the very same object again, or unequal ones. non-trivial = distinct case whose outcome is "
            "not the default one for its kind (true set result, matching glob, contained network, true comparison, found key, non-null, "
            "history containing a failing evaluation)")

    # ---- generation ------------------------------------------------------------------------------
    def generate(self, rng: random.Random, tier: str) -> Iterable[Dict[str, Any]]:
        quick = tier == "quick"
        cases: List[Dict[str, Any]] = []
        vias = ["py", "py", "py", "I", "py", "py", "C", "py"]
        ctr = [0]

        def add(c, force_via=None):
            ctr[0] += 1
            c["via"] = force_via or vias[ctr[0] % len(vias)]
            c["style"] = "method" if (ctr[0] // len(vias)) % 2 else "fn"
            cases.append(c)

        # --- sets ---
        alphas = [["a", "b", "c", "d"], ["a", "1", 1, 2]]
        for alpha in alphas:
            L4 = lists_upto(alpha, 4)
            L2 = lists_upto(alpha, 2)
            for l in (L4 if not quick else lists_upto(alpha, 3)):
                add({"kind": "set", "fn": "unique_size", "a": l, "b": []})
            if quick:
                pairs = list(itertools.product(L2, L2)) + [(rng.choice(L4), rng.choice(L4)) for _ in range(1500)]
            else:
                pairs = list(itertools.product(L4, L4)) if alpha is alphas[0] else \
                    list(itertools.product(lists_upto(alpha, 3), lists_upto(alpha, 3)))
            for a, b in pairs:
                for fn in SETFN:
                    if quick or rng.random() < 0.04:
                        add({"kind": "set", "fn": fn, "a": a, "b": b})
                    else:
                        add({"kind": "set", "fn": fn, "a": a, "b": b}, "py")
        for _ in range(600 if quick else 6000):
            pool = [rng.choice(["x", "y", "zz", "", "x ", "X", 0, 1, -1, 7, 2 ** 40, 2 ** 61 - 1, 2 ** 61 - 2, "7"])
                    for _ in range(rng.randint(1, 7))]
            hi = 7 if rng.random() < 0.7 else 14
            a = [rng.choice(pool) for _ in range(rng.randint(0, hi))]
            b = [rng.choice(pool) for _ in range(rng.randint(0, hi))]
            add({"kind": "set", "fn": rng.choice(SETFN + ["unique_size"]), "a": a, "b": b})

        # --- normalize ---
        nalpha = [" ", "\t", "\n", "A", "z", "Z", "b", "\x1f", "_", "é"]
        for s in strings_upto([" ", "A", "b", "\n"], 3 if quick else 5):
            add({"kind": "normalize", "s": s})
        for _ in range(300 if quick else 4000):
            add({"kind": "normalize", "s": "".join(rng.choice(nalpha) for _ in range(rng.randint(0, 8)))})
        for o in range(0, 128):
            add({"kind": "normalize", "s": chr(o) + "Q" + chr(o)}, "py")

        # --- glob ---
        G7 = ["a", "b", "*", "?", "[", "]", "!"]
        if quick:
            pats = strings_upto(G7, 3)
            texts = strings_upto(["a", "b", "[", "]", "!"], 2)
            for p in pats:
                for t in texts:
                    add({"kind": "glob", "text": t, "pat": p}, "py" if rng.random() < 0.9 else None)
            for _ in range(6000):
                p = "".join(rng.choice(G7) for _ in range(rng.randint(3, 5)))
                t = "".join(rng.choice(["a", "b", "a", "b", "[", "]", "!", "*", "?"]) for _ in range(rng.randint(0, 5)))
                add({"kind": "glob", "text": t, "pat": p}, "py" if rng.random() < 0.8 else None)
        else:
            pats = strings_upto(G7, 5)
            t3 = strings_upto(["a", "b", "[", "]", "!"], 3)
            t5 = strings_upto(["a", "b"], 5) + strings_upto(G7, 2)
            for p in pats:
                pool = t3 if len(p) <= 3 else None
                if pool is not None:
                    for t in pool:
                        add({"kind": "glob", "text": t, "pat": p}, "py" if rng.random() < 0.98 else None)
                else:
                    for t in rng.sample(t5, 12) + rng.sample(t3, 8):
                        add({"kind": "glob", "text": t, "pat": p}, "py" if rng.random() < 0.98 else None)
        R7 = ["a", "b", "c", "-", "[", "]", "!", "*"]
        for _ in range(2500 if quick else 40000):
            p = "".join(rng.choice(R7) for _ in range(rng.randint(1, 8)))
            if rng.random() < 0.5:
                body = "".join(rng.choice(["a", "c", "-", "b", "!", "]", "e"]) for _ in range(rng.randint(1, 5)))
                p = rng.choice(["", "a", "*"]) + "[" + body + "]" + rng.choice(["", "*", "b", "?"])
            t = "".join(rng.choice(["a", "b", "c", "-", "d", "!", "]"]) for _ in range(rng.randint(0, 4)))
            add({"kind": "glob", "text": t, "pat": p}, "py" if rng.random() < 0.8 else None)
        C6 = ["a", "A", "b", "B", "*", "?", "[", "]"]
        for _ in range(1500 if quick else 20000):
            p = "".join(rng.choice(C6) for _ in range(rng.randint(1, 4)))
            t = "".join(rng.choice(["a", "A", "b", "B"]) for _ in range(rng.randint(0, 4)))
            if rng.random() < 0.5:      # a text that matches up to letter case
                t = "".join((ch.swapcase() if rng.random() < 0.5 else ch) if ch.isalpha() else rng.choice(["a", "B", ""])
                            for ch in p)
            add({"kind": "glob", "text": t, "pat": p}, "py" if rng.random() < 0.8 else None)
        for t, p in [("ABC", "abc"), ("abc", "ABC"), ("a\nb", "a?b"), ("a\nb", "*"), ("x.py", "*.py"), ("x.pyc", "*.py"),
                     ("", ""), ("", "*"), ("a", ""), ("[", "["), ("[a", "[a"), ("a", "[!]"), ("!", "[!]"), ("]", "[]]"),
                     ("a", "[]a]"), ("b", "[!]a]"), ("\\", "[\\]"), ("a", "[\\a]"), ("^", "[^a]"), ("b", "[^a]"),
                     ("&", "[&&]"), ("|", "[a||]"), ("~", "[~~]"), ("a.b", "a.b"), ("axb", "a.b"), ("a+", "a+"),
                     ("(", "("), ("a{2}", "a{2}"), ("$", "$"), ("é", "?"), ("é", "[é]"), ("Z", "[a-z]"), ("z", "[a-z]")]:
            for via in ("py", "I", "C"):
                add({"kind": "glob", "text": t, "pat": p}, via)

        # --- cidr ---
        bases = [0x0A000000, 0xC0A86400, 0xFFFFFFFF, 0x00000000, 0x80000000, rng.getrandbits(32)]
        for ln in range(0, 33):
            size = 1 << (32 - ln)
            for base in (bases if not quick else bases[:3] + [bases[5]]):
                addr = base - base % size
                n = {"t": "net", "addr": addr, "len": ln}
                if rng.random() < 0.2:
                    n["form"] = "mask"
                lo, hi = addr, addr + size - 1
                xs: List[Dict[str, Any]] = []
                for ip in {lo, hi, lo - 1, hi + 1, lo + 1, hi - 1, (lo + hi) // 2, rng.randrange(lo, hi + 1), rng.getrandbits(32)}:
                    if 0 <= ip < 2 ** 32:
                        xs.append({"t": "addr", "ip": ip})
                for m in sorted({ln, ln + 1, ln - 1, 32, 31, 0, rng.randint(0, 32), min(32, ln + rng.randint(1, 8)), max(0, ln - rng.randint(1, 8))}):
                    if not (0 <= m <= 32):
                        continue
                    sz = 1 << (32 - m)
                    for a in {lo - lo % sz, hi - hi % sz, (lo - 1) - (lo - 1) % sz if lo > 0 else 0,
                              (hi + 1) - (hi + 1) % sz if hi + 1 < 2 ** 32 else 0, lo + 1 if m < 32 else lo}:
                        if 0 <= a < 2 ** 32:
                            xs.append({"t": "net", "addr": a, "len": m})
                xs += [{"t": "v6"}, {"t": "bad", "text": "localhost"}, {"t": "net", "addr": addr, "len": 33}]
                for x in xs:
                    add({"kind": "cidr", "n": n, "x": x})
                add({"kind": "size", "c": n})
        for c in ([{"t": "addr", "ip": 0x0A000001}, {"t": "v6"}, {"t": "net", "addr": 0x0A000001, "len": 8},
                   {"t": "net", "addr": 0x0A000000, "len": 33}, {"t": "net", "addr": 0, "len": 40}] +
                  [{"t": "bad", "text": t} for t in ["localhost", "", "10.0.0/8", "300.0.0.0/8", "10.0.0.0/8/9", " 10.0.0.0/8",
                                                      "10.0.0.0/-1", "10.0.0.0/ 8", "010.0.0.0/8", "::/0", "/8", "10.0.0.0/"]]):
            for via in ("py", "I", "C"):
                add({"kind": "size", "c": c}, via)
                add({"kind": "cidr", "n": c, "x": {"t": "addr", "ip": 0x0A000001}}, via)
                add({"kind": "cidr", "n": {"t": "net", "addr": 0x0A000000, "len": 8}, "x": c}, via)

        # --- versions ---
        comp = [0, 1, 9, 10, 12, 2]
        small = [list(t) for k in (1, 2, 3) for t in itertools.product([0, 1, 9, 10], repeat=k)]
        vpairs = list(itertools.product(small[:20], small[:20])) if quick else list(itertools.product(small, small))
        for _ in range(1500 if quick else 20000):
            a = [rng.choice(comp) if rng.random() < 0.8 else rng.randint(0, 12) for _ in range(rng.randint(1, 4))]
            r = rng.random()
            if r < 0.3:
                b = a + [0] * rng.randint(0, 2)
                if rng.random() < 0.5 and len(b) < 4:
                    b = b + [rng.choice(comp)]
            elif r < 0.5:
                b = list(a)
                b[rng.randrange(len(b))] = rng.choice(comp)
            else:
                b = [rng.choice(comp) for _ in range(rng.randint(1, 4))]
            if rng.random() < 0.5:
                a, b = b, a
            vpairs.append((a[:4], b[:4]))
        for a, b in vpairs:
            add({"kind": "version", "op": rng.choice(VOPS), "a": a, "b": b})
        for a, b in [([1, 10], [1, 9]), ([1, 9], [1, 10]), ([1, 0], [1]), ([0], [0, 0]), ([2, 7, 18], [2, 8]), ([1, 2], [1, 2, 0, 1])]:
            for op in VOPS:
                for via in ("py", "I", "C"):
                    add({"kind": "version", "op": op, "a": a, "b": b}, via)

        # --- tags ---
        keys = ["k", "j", "K", ""]
        vals = ["v1", "v2", ""]
        for _ in range(1200 if quick else 15000):
            tags = []
            for _ in range(rng.randint(0, 4) if rng.random() < 0.85 else rng.randint(5, 14)):   # a few heavily tagged ones
                t = {}
                r = rng.random()
                if r < 0.93:
                    t["Key"] = rng.choice(keys)
                if rng.random() < 0.93:
                    t["Value"] = rng.choice(vals)
                tags.append(t)
            add({"kind": "key", "tags": tags, "k": rng.choice(keys)})
        for tags in ([[]] + [[{"Key": a, "Value": "1"}, {"Key": b, "Value": "2"}] for a in "kj" for b in "kj"]):
            for via in ("py", "I", "C"):
                add({"kind": "key", "tags": tags, "k": "k"}, via)
        msgs = ["m", "", "m:x", "m@x", " m ", "a b"]
        acts = ["stop", "", " stop", "s@t", "st op", "s:t"]
        dates = ["2020-09-10", "2021-01-01", " 2020-09-10", "2020-09-10 ", "2020-09-10T00:00:00Z", "nonsense", "", "2020/09/10"]
        for _ in range(1200 if quick else 15000):
            pre = [{"Key": rng.choice(["j", "k", "z"]), "Value": rng.choice(["x", "m:a@2020-01-01"])} for _ in range(rng.randint(0, 2))
                   if rng.random() < 0.4]
            post = [{"Key": "k", "Value": "other:go@2019-01-01"}] if rng.random() < 0.3 else []
            w = rng.random()
            if w < 0.6:
                m, a, d = rng.choice(msgs[:2] + ["hello"]), rng.choice(acts[:2]), rng.choice(dates[:2])
            else:
                m, a, d = rng.choice(msgs), rng.choice(acts), rng.choice(dates)
            add({"kind": "marked_key", "pre": pre, "m": m, "a": a, "d": d, "post": post, "k": "k"})
        for v in ["nope:", "noat:stop", "stop@2020-01-01", "", ":", "@", ":@", "a:b@", "::", "a:b:c"]:
            for via in ("py", "I", "C"):
                add({"kind": "marked_key", "tags": [{"Key": "k", "Value": v}], "k": "k"}, via)
        add({"kind": "marked_key", "tags": [], "k": "k"})
        add({"kind": "marked_key", "tags": [{"Key": "k"}], "k": "k"})

        # --- ARNs ---
        fpool = ["p", "s3", "", "us-east-1", "123", "t/x", "x"]
        names = ARN_FORMATS[6] + ["bogus", ""]
        for nf in (3, 4, 5, 6, 7, 0):
            for _ in range(60 if quick else 600):
                fields = [rng.choice(fpool) for _ in range(nf)]
                pre = "arn" if rng.random() < 0.9 else rng.choice(["Arn", "", "arn ", "http"])
                add({"kind": "arn", "prefix": pre, "fields": fields, "field": rng.choice(names)})
        for nf in (5, 6):
            fields = ["F%d" % i for i in range(nf)]
            for name in names:
                for via in ("py", "I", "C"):
                    add({"kind": "arn", "prefix": "arn", "fields": fields, "field": name}, via)

        # --- tag streams: one filter over many resources, each tag list built, used for a few lookups and dropped ---
        streams: List[Dict[str, Any]] = []
        interest = ["k", "j", "Name", "owner", "maid_status"]
        plain = ["v1", "v2", "", "x"]
        marked = list(MARKED_VALUES)

        def tag_list(i: int) -> List[Dict[str, str]]:
            r = rng.random()
            n = rng.randint(0, 4) if r < 0.3 else rng.randint(5, 9) if r < 0.7 else rng.randint(10, 18)
            tl = []
            for j in range(n):
                if rng.random() < 0.35:
                    kk = rng.choice(interest)
                else:
                    kk = "t%d" % rng.randint(0, 12)
                vv = rng.choice(marked) if rng.random() < 0.25 else rng.choice(plain + ["r%d" % i])
                tl.append({"Key": kk, "Value": vv})
            return tl
        for _ in range(400 if quick else 6000):
            nsteps = rng.randint(2, 5)
            looks0 = [[rng.choice(["key", "key", "marked_key"]), rng.choice(interest)] for _ in range(rng.randint(1, 3))]
            steps = []
            for i in range(nsteps):
                looks = looks0 if rng.random() < 0.7 else \
                    [[rng.choice(["key", "marked_key"]), rng.choice(interest + ["t1"])] for _ in range(rng.randint(1, 3))]
                st = {"tags": tag_list(i), "looks": [list(x) for x in looks]}
                if i > 0 and rng.random() < 0.12:
                    st["mut"] = True
                steps.append(st)
            streams.append({"kind": "tagseq", "steps": steps, "via": rng.choice(["py", "py", "py", "I", "C"]),
                            "style": rng.choice(["fn", "method"]), "build": rng.choice(["cel", "cel", "fill", "json"])})
        cases[:0] = streams      # first: a stream is self-contained, single lookups later on share the process with it

        # --- context histories ---
        def item(fail: bool, i: int, prev: Optional[Dict[str, Any]]) -> Dict[str, Any]:
            st = rng.choice(["with", "with", "runner", "runner", "nested", "bare"])
            it = {"style": st, "f": i + 1, "g": 100 + i, "nobs": rng.choice([1, 1, 2]), "runner": "I", "obs": "observe",
                  "fail": "no"}
            if st == "with" and rng.random() < 0.5:
                it["runner"] = "C"
            if st == "bare":
                it["obs"] = "observe"
            elif it["runner"] == "C" or rng.random() < 0.4:
                it["obs"] = "image"
            if fail:
                it["fail"] = rng.choice(["cel", "exc"] + (["boom"] if it["runner"] == "I" else []))
            # the same program evaluated again (one program object serves many resources/filters): take the shape of
            # the previous item so that the source text - hence the runner object - is the same
            if prev is not None and rng.random() < 0.5 and prev["style"] != "bare" and st != "bare":
                it["nobs"], it["obs"] = prev["nobs"], prev["obs"]
                if it["runner"] == "C" and it["obs"] != "image":
                    it["runner"] = "I"
                if (prev["fail"] != "no") == fail:
                    it["fail"] = prev["fail"]
            if it["runner"] == "C" and it["fail"] == "boom":
                it["fail"] = "exc"
            # identity vs. equality of filters: most stand-ins of a history are different objects that compare equal;
            # sometimes the very same object is installed again; sometimes they differ also by value
            r = rng.random()
            if prev is not None and r < 0.15:
                it["f"], it["eq"] = prev["f"], prev.get("eq", 0)
            elif r < 0.8:
                it["eq"] = 0
            else:
                it["eq"] = i + 1
            it["geq"] = 0 if rng.random() < 0.6 else 100 + i
            return it

        def history(bits) -> List[Dict[str, Any]]:
            h: List[Dict[str, Any]] = []
            for i, b in enumerate(bits):
                h.append(item(b, i, h[-1] if h else None))
            return h
        maxlen = 6
        for n in range(0, maxlen + 1):
            for bits in itertools.product([False, True], repeat=n):
                reps = 1 if quick else 6
                for _ in range(reps):
                    cases.append({"kind": "ctx", "hist": history(bits), "via": "py", "style": "fn"})
        # short histories are where a kept context shows first: many seeded variants of length 2..4
        for _ in range(250 if quick else 3000):
            n = rng.randint(2, 4)
            cases.append({"kind": "ctx", "hist": history([rng.random() < 0.3 for _ in range(n)]), "via": "py", "style": "fn"})
        return cases

    # ---- implementation -------------------------------------------------------------------------------
    def impl(self, c):
        out = self._impl(c)
        c["_out"] = out
        return out

    def _impl(self, c):
        k = c["kind"]
        if k == "ctx":
            try:
                return run_hist(c["hist"])
            except Exception as ex:
                return "raise " + type(ex).__name__
            finally:
                import celpy.c7nlib as L
                L.C7N = None
        if k == "tagseq":
            return run_tagseq(c)
        via = c.get("via", "py")
        direct, src_fn, src_m, act = call_spec(c)
        try:
            if via == "py":
                v = direct()
            else:
                v = IMPL.cel(src_m if c.get("style") == "method" else src_fn, via, act)
        except Exception as ex:
            return ("raise " + type(ex).__name__) if via == "py" else "error"
        if k in ("cidr", "version"):
            return _boolish(v)
        return celrun.canon(v)

    # ---- model ----------------------------------------------------------------------------------------
    def model_line(self, c):
        k = c["kind"]
        if k == "set":
            if c["fn"] == "unique_size":
                return "usize " + enc_elems(c["a"])
            return ("isect " if c["fn"] == "intersect" else "diff ") + enc_elems(c["a"]) + " " + enc_elems(c["b"])
        if k == "normalize":
            if any(ord(ch) > 127 for ch in c["s"]):
                return None            # Unicode casing / white space: delegated
            return "norm " + enc_str(c["s"])
        if k == "glob":
            return "glob " + enc_str(c["text"]) + " " + enc_str(c["pat"])
        if k == "cidr":
            return "cidr " + cidr_tok(c["n"]) + " " + cidr_tok(c["x"])
        if k == "size":
            return "size " + cidr_tok(c["c"])
        if k == "version":
            return f"vcmp {c['op']} {ver_text(c['a'])} {ver_text(c['b'])}"
        if k == "key":
            return "key " + enc_tags(c["tags"]) + " " + enc_str(c["k"])
        if k == "marked_key":
            return "mkey " + enc_tags(_tags_of(c)) + " " + enc_str(c["k"])
        if k == "arn":
            return "arn " + enc_str(_arn_of(c)) + " " + enc_str(c["field"])
        if k == "ctx":
            return hist_tokens(c["hist"])
        if k == "tagseq":
            return tagseq_line(c)
        return None

    def model_expect(self, c, m):
        k = c["kind"]
        via = c.get("via", "py")
        if k == "tagseq":
            looks = [fn for st in c["steps"] for fn, _ in st["looks"]]
            parts = m.split(" ; ")
            if len(parts) != len(looks):
                return m
            return " ; ".join(self.model_expect({"kind": fn, "via": via}, p) for fn, p in zip(looks, parts))
        if m.startswith("raise "):
            return m if via == "py" else "error"
        if k == "set":
            m = m[3:] if m.startswith("ok ") else m
            return ("int:" + m) if c["fn"] == "unique_size" else ("bool:" + m)
        if k == "normalize":
            return "string:" + _jstr(dec_str(m))
        if k == "glob":
            if m.startswith("out-of-fragment "):
                return c.get("_out", m)      # inverted range: the model makes no prediction
            return "bool:" + m
        if k == "cidr":
            return m[3:] if m.startswith("ok ") else m
        if k == "size":
            return "null" if m == "null" else "int:" + m
        if k == "version":
            return m
        if k == "key":
            if m == "ok null":
                return "null"
            return "string:" + _jstr(dec_str(m.split()[2]))
        if k == "marked_key":
            if m == "ok null":
                return "null"
            _, _, mm, a, d = m.split()
            exp = marked_expected(dec_str(mm), dec_str(a), dec_str(d))
            if exp.startswith("raise ") and via != "py":
                return "error"
            return exp
        if k == "arn":
            return "string:" + _jstr(dec_str(m.split()[1]))
        return m

    # ---- oracle ---------------------------------------------------------------------------------------
    def oracle(self, c, out):
        k = c["kind"]
        if k == "set":
            a, b = c["a"], c["b"]
            if c["fn"] == "intersect":
                exp = "bool:" + _b(any(ref_member(x, b) for x in a))
            elif c["fn"] == "difference":
                exp = "bool:" + _b(any(not ref_member(x, b) for x in a))
            else:
                exp = "int:%d" % ref_distinct(a)
            if out != exp:
                return f"{c['fn']}({a!r}, {b!r}) via {c['via']} gave {out}; set semantics require {exp}"
            return None
        if k == "normalize":
            if any(ord(ch) > 127 for ch in c["s"]):
                return None
            exp = "string:" + _jstr(ref_normalize(c["s"]))
            if out != exp:
                return f"normalize({c['s']!r}) via {c['via']} gave {out}; lower-casing and trimming give {exp}"
            return None
        if k == "glob":
            r = ref_glob(c["text"], c["pat"])
            if r is None:
                return None
            if out != "bool:" + _b(r):
                return f"glob({c['text']!r}, {c['pat']!r}) via {c['via']} gave {out}; shell-pattern matching gives {_b(r)}"
            return None
        if k == "cidr":
            n, x = ref_net(c["n"]), ref_net(c["x"])
            if c["n"]["t"] != "net" or not isinstance(n, tuple):
                return None
            if isinstance(x, tuple):
                exp = _b(n[0] <= x[0] and x[1] <= n[1])
            elif x == "invalid" or c["x"]["t"] in ("bad", "v6"):
                exp = "false"       # nothing that is not an IPv4 address/network lies inside an IPv4 network
            else:
                return None
            if not isinstance(x, tuple):
                x = ("-", "-")
            if out != exp:
                return (f"parse_cidr({cidr_text(c['n'])!r}).contains(parse_cidr({cidr_text(c['x'])!r})) via {c['via']} gave {out}; "
                        f"[{x[0]},{x[1]}] inside [{n[0]},{n[1]}] is {exp}")
            return None
        if k == "size":
            n = ref_net(c["c"])
            if c["c"]["t"] == "net" and isinstance(n, tuple):
                if out != "int:%d" % c["c"]["len"]:
                    return f"size_parse_cidr({cidr_text(c['c'])!r}) via {c['via']} gave {out}; the prefix length is {c['c']['len']}"
            return None
        if k == "version":
            exp = _b(ref_vcmp(c["op"], c["a"], c["b"]))
            if out != exp:
                return f"version({ver_text(c['a'])!r}) {c['op']} version({ver_text(c['b'])!r}) via {c['via']} gave {out}; numeric component order gives {exp}"
            return None
        if k == "key":
            tags = c["tags"]
            if not all("Key" in t and "Value" in t for t in tags):
                return None                        # malformed tags: partial function, outside the statement
            exp = "null"
            for t in tags:
                if t["Key"] == c["k"]:
                    exp = "string:" + _jstr(t["Value"])
                    break
            if out != exp:
                return f"key({tags!r}, {c['k']!r}) via {c['via']} gave {out}; the first tag with that Key gives {exp}"
            return None
        if k == "marked_key":
            if "m" not in c:
                return None
            m, a, d = c["m"], c["a"], c["d"]
            if any(t.get("Key") == c["k"] for t in c["pre"]):
                return None
            if ":" in a or ":" in d or "@" in a:
                return None                        # outside the well-formedness hypothesis of message:action@date
            if a != a.strip() or d != d.strip() or "@" in d:
                return None
            exp = marked_expected(m, a, d)
            if exp.startswith("raise "):
                return None                        # not a date
            if out != exp:
                return f"marked_key of {m + ':' + a + '@' + d!r} via {c['via']} gave {out}; message/action/action_date are {exp}"
            return None
        if k == "arn":
            f = c["fields"]
            if c["prefix"] != "arn" or len(f) not in ARN_FORMATS or any(":" in x for x in f):
                return None
            names = ARN_FORMATS[len(f)]
            if c["field"] not in names:
                return None
            exp = "string:" + _jstr(f[names.index(c["field"])])
            if out != exp:
                return f"arn_split({_arn_of(c)!r}, {c['field']!r}) via {c['via']} gave {out}; that field is {exp}"
            return None
        if k == "tagseq":
            outs = out.split(" ; ") if out != "-" else []
            i = 0
            for si, st in enumerate(c["steps"]):
                for fn, kk in st["looks"]:
                    exp = ref_lookup(fn, st["tags"], kk)
                    got = outs[i] if i < len(outs) else "<missing>"
                    i += 1
                    if exp is not None and got != exp:
                        return (f"stream of {len(c['steps'])} tag lists via {c['via']}: lookup #{i} (list {si + 1} of sizes "
                                f"{[len(x['tags']) for x in c['steps']]}) {fn}({st['tags']!r}, {kk!r}) gave {got}; the first tag with "
                                f"that Key of THIS list gives {exp}")
            return None
        if k == "ctx":
            exp = hist_expected(c["hist"])
            if out != exp:
                return (f"context history {[(i['style'], i['f'], i['fail']) for i in c['hist']]} observed {out}; "
                        f"the filter must be visible during each evaluation and cleared afterwards: {exp}")
            return None
        return None

    def known_preds(self):
        return {"empty_string_and_hash0_int": pred_hash_collision}

    def nontrivial(self, c, out):
        k = c["kind"]
        if k == "ctx":
            return any(i["fail"] != "no" for i in c["hist"])
        if k == "tagseq":
            return any(o.startswith(("string:", "map")) for o in out.split(" ; ")) and len(c["steps"]) > 1
        if k == "set" and c["fn"] == "unique_size":
            return out not in ("int:0", "int:%d" % len(c["a"]))
        return out not in ("bool:false", "false", "null", "error") and not out.startswith("raise")


def pred_hash_collision(c) -> bool:
    """D26: a set helper is applied to lists that contain both the empty string and an int whose CPython hash
    is 0 (0 or a multiple of 2**61-1): the only deterministic str/int hash collision; the set then compares
    IntType with StringType, which raises TypeError.  Mirrors `Cel.C7n.collide`."""
    if c.get("kind") != "set":
        return False
    xs = list(c["a"]) + (list(c["b"]) if c["fn"] != "unique_size" else [])
    return any(isinstance(x, str) and x == "" for x in xs) and \
        any(isinstance(x, int) and x % (2 ** 61 - 1) == 0 for x in xs)


def _b(x: bool) -> str:
    return "true" if x else "false"


def _jstr(s: str) -> str:
    import json
    return json.dumps(s)


PROP = C17()
