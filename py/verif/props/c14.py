"""C14 — host functions bind uniformly as functions or methods and override built-ins.

A case is a *history* of programs evaluated one after the other in one process:

    {"kind": <family>, "progs": [{"runner": "I"|"C", "style": "N"|"L"|"D", "fns": [fnspec…], "expr": tree}, …],
     "rel": None | "same", "share_env": bool}
                                      # "share_env": the programs are built from ONE Environment per runner class.  "bind": evaluate with a (unused) variable binding, which makes the runner clone
                                      # its activation.  "same": all programs must give the same outcome (call vs method syntax,
                                      #          list vs dict binding)
    fnspec = {"key": CEL name, "pyname": __name__ or None, "ckind": mod|main|nested|lambda|obj|bound|partial|ev,
              "beh": [tokens]}
    tree   = ["lit", val] | ["v", i] | ["call", f, [args]] | ["meth", f, recv, [args]] | ["or", a, b] | ["and", a, b]
           | ["not", a] | ["cond", c, x, y] | ["add", a, b] | ["lt", a, b] | ["all", src, body] | ["exists", src, body]
           | ["map", src, body]                       (macro variables are de Bruijn indices)
           | ["cv", name, val]                        (round 3: the context variable `name`, bound to `val` for the evaluation;
                                                       to the model and to the reference it IS the literal `val`)
    round 3, per program:  "mvars": [names]  the macro variable at nesting depth d is called mvars[d] (default x<d>),
                           "ctx": [[name, val]…]  further context variables that are bound but not mentioned;
                per case:  "share_ast": True  programs with the same source text are built from ONE AST object
                           (`Environment.compile()` once, `Environment.program()` many times)
    val    = ["i", n] | ["b", bool] | ["L", [val…]]

The implementation's outcome for one program is `<value> | name(arg,…);name(…)` — the canonical result and the
arguments every host function actually received, in call order.
"""
from __future__ import annotations

import atexit
import collections
import functools
import importlib
import itertools
import os
import random
import shutil
import sys
import tempfile
import types
from typing import Any, Dict, List, Optional, Tuple

from ..core import Prop

POOL_INT = ["f", "g", "h"]
POOL_BOOL = ["p", "q"]
POOL_LIST = ["mk"]
SHADOW = ["size", "contains"]
POOL = POOL_INT + POOL_BOOL + POOL_LIST + SHADOW + ["k"]
CKINDS = ["mod", "main", "nested", "lambda", "obj", "bound", "partial", "wraps", "ev"]
# round 2: callables that only LOOK like something `func_name` could name by dotted text (identity vs. equality / name):
#   wrapsev  functools.wraps(<function reachable from celpy.evaluation's globals>)(wrapper): copied __module__/__qualname__/__wrapped__
#   eqobj    callable object that compares equal to everything and carries the __module__/__qualname__ of a built-in
#   qualfn   nested def whose __module__/__qualname__ were set to those of a built-in
# (model: CKind.wrapsVisible / equalToAll / renamedDef — `Denotes.other`: the text denotes ANOTHER object, so no dotted text)
LOOKALIKE = {"wrapsev": "wraps", "eqobj": "obj", "qualfn": "nested"}
DICT_ONLY = ("partial", "wraps") + tuple(LOOKALIKE)
NAMED_KINDS = ["mod", "main", "nested", "lambda", "obj", "bound", "ev"]      # can carry a chosen __name__ for list style
WRAPS_NAME = "function_size"      # __name__ of a functools.wraps(celpy.evaluation.function_size) wrapper

# --------------------------------------------------------------------------------------------------
# real callables of every kind
# --------------------------------------------------------------------------------------------------

REC: List[Tuple[str, Tuple[str, ...]]] = []
_STATE: Dict[str, Any] = {}

MOD_SRC = '''"""scratch module of the C14 check: module-level defs that delegate to a table set by the harness"""
TABLE = {}
''' + "".join(f"def {n}(*a):\n    return TABLE[{n!r}](a)\n" for n in POOL)


def _setup_modules():
    if _STATE:
        return
    d = tempfile.mkdtemp(prefix="verif-c14-")
    atexit.register(shutil.rmtree, d, True)
    for tag in ("a", "b"):
        with open(os.path.join(d, f"c14_hostmod_{tag}.py"), "w") as fh:
            fh.write(MOD_SRC)
    sys.path.insert(0, d)
    _STATE["mods"] = [importlib.import_module("c14_hostmod_a"), importlib.import_module("c14_hostmod_b")]
    # functions defined at module level of __main__ (whatever module runs this process)
    main = sys.modules["__main__"]
    if not any(n in main.__dict__ or ("c14main_" + n) in main.__dict__ for n in POOL):
        main.__dict__["C14_TABLE"] = {}
        exec("".join(f"def {n}(*a):\n    return C14_TABLE[{n!r}](a)\n" for n in POOL), main.__dict__)
        _STATE["main"] = main
    else:                                                     # pragma: no cover
        _STATE["main"] = None
    # a module whose functions ARE visible from celpy.evaluation's globals (like celpy.c7nlib): dotted text
    import celpy
    m = types.ModuleType("celpy.c14_direct_probe")
    m.__dict__["TABLE"] = {}
    exec("".join(f"def {n}(*a):\n    return TABLE[{n!r}](a)\n" for n in POOL), m.__dict__)
    # functions that must NEVER be applied: the targets whose name a look-alike callable carries
    exec("".join(f"def target_{n}(*a):\n    return TARGET({n!r}, a)\n" for n in POOL), m.__dict__)
    m.__dict__["TARGET"] = _wrong_target
    sys.modules[m.__name__] = m
    celpy.c14_direct_probe = m
    _STATE["ev"] = m


def _wrong_target(name, args):
    """a function whose dotted name a look-alike callable carries was applied instead of the supplied callable"""
    from celpy import celtypes
    REC.append(("WRONG-OBJECT:" + name, tuple(_canon_arg(a) for a in args)))
    return celtypes.IntType(-999)


def _py_val(v):
    from celpy import celtypes
    if v[0] == "i":
        return celtypes.IntType(v[1])
    if v[0] == "b":
        return celtypes.BoolType(bool(v[1]))
    return celtypes.ListType([_py_val(x) for x in v[1]])


def _weight(a) -> int:
    from celpy import celtypes
    if type(a) is celtypes.BoolType or type(a) is bool:
        return 1 if a else 0
    if isinstance(a, int):
        return int(a)
    if isinstance(a, list):
        return len(a)
    return 0


def _canon_arg(a) -> str:
    from .. import celrun
    return celrun.canon(a)


def _behave(beh: List[Any], args: tuple):
    """the behaviour table shared (by specification) with Cel.Drv.C14.parseBeh"""
    from celpy import celtypes
    from celpy.evaluation import CELEvalError
    b = beh[0]
    first = _weight(args[0]) if args else 1
    if b == "const":
        return _py_val(beh[1])
    if b == "sum":
        return celtypes.IntType(beh[1] + sum(_weight(a) for a in args))
    if b == "pos":
        return celtypes.BoolType(first > 0)
    if b == "errv":
        return CELEvalError("host function error value")
    if b == "raise":
        raise {"UnicodeError": UnicodeError, "ValueError": ValueError, "TypeError": TypeError, "KeyError": KeyError, "AttributeError": AttributeError,
               "IndexError": IndexError, "ZeroDivisionError": ZeroDivisionError, "RuntimeError": RuntimeError}[beh[1]]("host")
    if b == "errneg":
        return CELEvalError("negative") if first < 0 else celtypes.IntType(beh[1] + first)
    if b == "raiseneg":
        if first < 0:
            raise ValueError("negative")
        return celtypes.IntType(beh[1] + first)
    if b == "nest":
        _nested_eval(beh[1])
        return celtypes.IntType(beh[2] + sum(_weight(a) for a in args))
    if b == "lst":
        return celtypes.ListType(list(args))
    if b == "size":
        if len(args) == 1 and type(args[0]) is celtypes.ListType:
            return celtypes.IntType(len(args[0]))
        raise TypeError("size")
    if b == "contains":
        if len(args) == 2 and type(args[0]) is celtypes.ListType:
            return celtypes.BoolType(any(_canon_arg(x) == _canon_arg(args[1]) for x in args[0]))
        raise TypeError("contains")
    raise RuntimeError(f"unknown behaviour {beh}")


def _nested_eval(runner: str):
    """RE-ENTRANCY: while a host function of the outer program runs, build and evaluate ANOTHER program (own Environment,
    own functions `f`, `g`, own override of `size`).  The inner program must see its functions, and — checked by the
    outer program's oracle — the outer evaluation must go on with ITS functions afterwards.  The inner functions do
    not log; a wrong inner result is logged as a call of `NESTED-WRONG`, which no reference permits."""
    import celpy
    from celpy import celtypes
    from .. import celrun
    inner = {"f": lambda *a: celtypes.IntType(1000 + sum(_weight(x) for x in a)),
             "g": lambda *a: celtypes.IntType(5000 + sum(_weight(x) for x in a)),
             "size": lambda *a: celtypes.IntType(50)}
    try:
        env = celpy.Environment(runner_class=celrun.RUNNERS[runner])
        prog = env.program(env.compile("g(1) + size([1, 2]) + (2).f() + [7].map(x, f(x))[0]"), functions=inner)
        got = celrun.canon(prog.evaluate({}))
    except Exception as ex:  # noqa
        got = "EXC " + type(ex).__name__
    if got != "int:7060":
        REC.append(("NESTED-WRONG", (got,)))


def _make_callable(spec: Dict[str, Any], slot: int):
    """a real Python callable of the requested kind that records its arguments and behaves as specified"""
    key, pyname, ckind, beh = spec["key"], spec.get("pyname"), spec["ckind"], spec["beh"]

    def body(args):
        REC.append((key, tuple(_canon_arg(a) for a in args)))
        return _behave(beh, args)

    if ckind in ("mod", "main", "ev"):
        name = pyname or key
        if ckind == "mod":
            m = _STATE["mods"][slot % 2]
            m.TABLE[name] = body
        elif ckind == "main" and _STATE["main"] is not None:
            m = _STATE["main"]
            m.__dict__["C14_TABLE"][name] = body
        elif ckind == "main":                                     # pragma: no cover  (__main__ already uses these names)
            m = _STATE["mods"][slot % 2]
            m.TABLE[name] = body
        else:
            m = _STATE["ev"]
            m.TABLE[name] = body
        return getattr(m, name)
    if ckind == "nested":
        def nested(*a):
            return body(a)
        if pyname:
            nested.__name__ = pyname
        return nested
    if ckind == "lambda":
        lam = lambda *a: body(a)  # noqa: E731
        if pyname and pyname != "<lambda>":
            lam.__name__ = pyname
        return lam
    if ckind == "obj":
        class HostObject:
            def __call__(self, *a):
                return body(a)
        o = HostObject()
        if pyname:
            o.__name__ = pyname
        return o
    if ckind == "bound":
        def meth(self, *a):
            return body(a)
        meth.__name__ = pyname or "meth"
        cls = type("HostClass", (), {meth.__name__: meth})
        return getattr(cls(), meth.__name__)
    if ckind == "partial":
        return functools.partial(lambda tag, *a: body(a), "tag")
    if ckind == "wraps":
        import celpy.evaluation

        @functools.wraps(celpy.evaluation.function_size)
        def wrapper(*a):
            return body(a)
        return wrapper
    if ckind == "wrapsev":
        @functools.wraps(getattr(_STATE["ev"], "target_" + key))
        def wrapper2(*a):
            return body(a)
        return wrapper2
    if ckind == "eqobj":
        class EqualToAll:
            __module__ = "celpy.evaluation"
            __qualname__ = "function_size"

            def __call__(self, *a):
                return body(a)

            def __eq__(self, other):
                return True

            def __ne__(self, other):
                return False

            def __hash__(self):
                return 0
        o = EqualToAll()
        o.__qualname__ = "function_size"
        o.__module__ = "celpy.evaluation"
        return o
    if ckind == "qualfn":
        def renamed(*a):
            return body(a)
        renamed.__module__ = "celpy.evaluation"
        renamed.__qualname__ = "function_contains"
        return renamed
    raise RuntimeError(ckind)


def spec_pyname(spec) -> Optional[str]:
    """the `__name__` the callable will have (None: no such attribute)"""
    ck, pn = spec["ckind"], spec.get("pyname")
    if ck in ("mod", "main", "ev"):
        return pn or spec["key"]
    if ck == "nested":
        return pn or "nested"
    if ck == "lambda":
        return pn or "<lambda>"
    if ck == "obj":
        return pn
    if ck == "bound":
        return pn or "meth"
    if ck == "wraps":
        return WRAPS_NAME
    if ck == "wrapsev":
        return "target_" + spec["key"]
    if ck == "qualfn":
        return "renamed"
    return None


# --------------------------------------------------------------------------------------------------
# rendering
# --------------------------------------------------------------------------------------------------

def cel_val(v) -> str:
    if v[0] == "i":
        return str(v[1]) if v[1] >= 0 else f"({v[1]})"
    if v[0] == "b":
        return "true" if v[1] else "false"
    return "[" + ", ".join(cel_val(x) for x in v[1]) + "]"


def mvar(depth: int, mv=None) -> str:
    """the name of the macro variable bound at nesting depth `depth`"""
    return mv[depth] if mv and depth < len(mv) else f"x{depth}"


def to_cel(t, depth: int = 0, mv=None) -> str:
    k = t[0]
    if k == "lit":
        return cel_val(t[1])
    if k == "cv":
        return t[1]
    if k == "v":
        return mvar(depth - 1 - t[1], mv)
    if k == "call":
        return f"{t[1]}(" + ", ".join(to_cel(a, depth, mv) for a in t[2]) + ")"
    if k == "meth":
        return f"({to_cel(t[2], depth, mv)}).{t[1]}(" + ", ".join(to_cel(a, depth, mv) for a in t[3]) + ")"
    if k in ("or", "and", "add", "lt"):
        op = {"or": "||", "and": "&&", "add": "+", "lt": "<"}[k]
        return f"({to_cel(t[1], depth, mv)} {op} {to_cel(t[2], depth, mv)})"
    if k == "not":
        return f"!({to_cel(t[1], depth, mv)})"
    if k == "cond":
        return f"({to_cel(t[1], depth, mv)} ? {to_cel(t[2], depth, mv)} : {to_cel(t[3], depth, mv)})"
    name = {"all": "all", "exists": "exists", "map": "map"}[k]
    return f"({to_cel(t[1], depth, mv)}).{name}({mvar(depth, mv)}, {to_cel(t[2], depth + 1, mv)})"


def prog_src(p) -> str:
    """the CEL text of a program"""
    return to_cel(p["expr"], 0, p.get("mvars"))


def prog_ctx(p) -> Dict[str, Any]:
    """name -> val: the context variables of a program (those its expression mentions and those that are only bound)"""
    ctx: Dict[str, Any] = {n: v for n, v in p.get("ctx", [])}

    def visit(n):
        if n[0] == "cv":
            ctx[n[1]] = n[2]
        return n
    map_tree(p["expr"], visit)
    return ctx


def lean_val(v) -> str:
    if v[0] == "i":
        return f"i{v[1]}"
    if v[0] == "b":
        return "bT" if v[1] else "bF"
    return f"L {len(v[1])}" + "".join(" " + lean_val(x) for x in v[1])


def to_lean(t) -> str:
    k = t[0]
    if k == "lit":
        return "lit " + lean_val(t[1])
    if k == "cv":                              # a context variable is its value: variables and functions are separate namespaces
        return "lit " + lean_val(t[2])
    if k == "v":
        return f"v{t[1]}"
    if k == "call":
        return f"call {t[1]} {len(t[2])}" + "".join(" " + to_lean(a) for a in t[2])
    if k == "meth":
        return f"meth {t[1]} {len(t[3])} {to_lean(t[2])}" + "".join(" " + to_lean(a) for a in t[3])
    if k == "not":
        return "not " + to_lean(t[1])
    if k == "cond":
        return f"cond {to_lean(t[1])} {to_lean(t[2])} {to_lean(t[3])}"
    return f"{k} {to_lean(t[1])} {to_lean(t[2])}"


def lean_beh(beh) -> str:
    if beh[0] == "const":
        return "const " + lean_val(beh[1])
    if beh[0] == "nest":                       # to the model (and to the outer program) it is a function returning k + Σ weights
        return f"sum {beh[2]}"
    return " ".join(str(x) for x in beh)


def lean_prog(p) -> str:
    out = [p["runner"], p["style"], str(len(p["fns"]))]
    for s in p["fns"]:
        out += [s["key"], spec_pyname(s) or "-", s["ckind"], lean_beh(s["beh"])]
    out.append(to_lean(p["expr"]))
    return " ".join(out)


# --------------------------------------------------------------------------------------------------
# the reference semantics of the PROPERTY (independent of the Lean model and of the implementation)
# --------------------------------------------------------------------------------------------------

class Unspecified(Exception):
    """the property says nothing about this program (a non-CEL situation inside the expression)"""


ERRV, ERRR = ("ERR", "v"), ("ERR", "r")     # an error; the tag says how the *transpiled* program carries it (value / raised)
UNSPEC = ("UNSPEC",)


def is_err(v):
    return v[0] == "ERR"


def s_canon(v) -> str:
    if v[0] == "i":
        return f"int:{v[1]}"
    if v[0] == "b":
        return "bool:" + ("true" if v[1] else "false")
    if v[0] == "L":
        return "list:[" + ",".join(s_canon(x) for x in v[1]) + "]"
    raise Unspecified("no canonical form")


def s_weight(v) -> int:
    if v[0] == "i":
        return v[1]
    if v[0] == "b":
        return 1 if v[1] else 0
    return len(v[1])


def s_behave(beh, args):
    b = beh[0]
    first = s_weight(args[0]) if args else 1
    if b == "const":
        return tuple_val(beh[1])
    if b == "sum":
        return ("i", beh[1] + sum(s_weight(a) for a in args))
    if b == "pos":
        return ("b", first > 0)
    if b == "errv":
        return ERRV
    if b == "raise":
        if beh[1] in ("ValueError", "TypeError", "UnicodeError"):
            return ERRR
        raise Unspecified("host function raises " + beh[1])     # outside C14's statement (D21 is C04's)
    if b == "errneg":
        return ERRV if first < 0 else ("i", beh[1] + first)
    if b == "raiseneg":
        return ERRR if first < 0 else ("i", beh[1] + first)
    if b == "nest":
        return ("i", beh[2] + sum(s_weight(a) for a in args))
    if b == "lst":
        return ("L", list(args))
    if b == "size":
        return ("i", len(args[0][1])) if len(args) == 1 and args[0][0] == "L" else ERRR
    if b == "contains":
        if len(args) == 2 and args[0][0] == "L":
            return ("b", any(s_canon(x) == s_canon(args[1]) for x in args[0][1]))
        return ERRR
    raise Unspecified(str(beh))


def tuple_val(v):
    if v[0] == "L":
        return ("L", [tuple_val(x) for x in v[1]])
    return (v[0], bool(v[1]) if v[0] == "b" else v[1])


BUILTIN = {"size": {"key": "size", "ckind": "ev", "beh": ["size"], "builtin": True},
           "contains": {"key": "contains", "ckind": "ev", "beh": ["contains"], "builtin": True}}


class Ref:
    """Reference evaluation of one program: the value the property prescribes and, for every host call, whether
    the property requires it, permits it, or forbids it.

    required  — the site is reached under left-to-right evaluation that stops at the first error
    optional  — evaluating it is harmless but not needed (after an erroneous sibling, the other operand of a decided
                `||`/`&&`, later elements of a decided all/exists, the arguments of an unbound function, the branches
                of `?:` whose condition is no boolean)
    forbidden — the branch of `?:` that a boolean condition did not select (`eager` collects what would be called there)
    """

    def __init__(self, prog):
        self.fns = {}
        for s in prog["fns"]:
            k = spec_pyname(s) if prog["style"] == "L" else s["key"]
            self.fns[k] = s                       # a later duplicate replaces the earlier one (dict semantics)
        if prog["style"] == "N":
            self.fns = {}
        self.compiled = prog["runner"] == "C"
        self.eager: List[Tuple[str, Tuple[str, ...]]] = []
        self.flags = set()

    def lookup(self, name):
        return self.fns.get(name) or BUILTIN.get(name)

    def ev(self, t, env) -> Tuple[Any, List[Tuple[Tuple[str, Tuple[str, ...]], bool]]]:
        k = t[0]
        if k == "lit":
            return tuple_val(t[1]), []
        if k == "cv":
            return tuple_val(t[2]), []
        if k == "v":
            return env[t[1]], []
        if k in ("call", "meth"):
            name = t[1]
            arg_trees = list(t[2]) if k == "call" else [t[2]] + list(t[3])
            vals, calls, seen_err = [], [], False
            for a in arg_trees:
                v, c = self.ev(a, env)
                calls += [(r, True) for r, _ in c] if seen_err else c
                vals.append(v)
                seen_err = seen_err or is_err(v)
            spec = self.lookup(name)
            raised = any(v == ERRR for v in vals)
            if spec is None:
                return (ERRR if raised else ERRV), [(r, True) for r, _ in calls]
            if any(is_err(v) for v in vals):
                if spec["ckind"] == "ev" and not spec.get("builtin") and self.compiled and not raised:
                    self.flags.add("direct_error_arg")
                return (ERRR if raised else ERRV), calls
            if any(v == UNSPEC for v in vals):
                raise Unspecified("argument without a specified value")
            res = s_behave(spec["beh"], vals)
            if not spec.get("builtin"):
                calls = calls + [((spec["key"], tuple(s_canon(v) for v in vals)), False)]
            return res, calls
        if k in ("or", "and"):
            dec = k == "or"
            va, ca = self.ev(t[1], env)
            vb, cb = self.ev(t[2], env)
            if va == ("b", dec):
                cb = [(r, True) for r, _ in cb]
            return self.kleene2(dec, va, vb), ca + cb
        if k == "not":
            v, c = self.ev(t[1], env)
            if v[0] == "b":
                return ("b", not v[1]), c
            if is_err(v):
                return v, c
            return UNSPEC, c
        if k == "cond":
            vc, cc = self.ev(t[1], env)
            if vc == UNSPEC:
                raise Unspecified("condition without a specified value")
            if vc[0] == "b":
                sel, other = (t[2], t[3]) if vc[1] else (t[3], t[2])
                vs, cs = self.ev(sel, env)
                # what an eager evaluation of the branch that was NOT selected would call
                saved = self.flags.copy()
                try:
                    _, co = self.ev(other, env)
                    self.eager += [r for r, _ in co]
                except Unspecified:
                    self.flags.add("unselected_unspecified")
                self.flags = saved | (self.flags & {"unselected_unspecified"})
                if is_err(vs):
                    vs = ERRV
                return vs, cc + cs
            vx, cx = self.ev(t[2], env)
            vy, cy = self.ev(t[3], env)
            return ERRV, cc + [(r, True) for r, _ in cx + cy]
        if k in ("add", "lt"):
            va, ca = self.ev(t[1], env)
            vb, cb = self.ev(t[2], env)
            if is_err(va):
                cb = [(r, True) for r, _ in cb]
                return va, ca + cb
            if is_err(vb):
                return (vb if (k == "lt") else ERRR), ca + cb
            if va[0] == "i" and vb[0] == "i":
                if k == "lt":
                    return ("b", va[1] < vb[1]), ca + cb
                s = va[1] + vb[1]
                return (("i", s) if -2 ** 63 <= s < 2 ** 63 else ERRR), ca + cb
            return UNSPEC, ca + cb
        # macros
        vsrc, calls = self.ev(t[1], env)
        if is_err(vsrc):
            return ERRR, calls          # the transpiled macro iterates the error object: TypeError
        if vsrc[0] != "L":
            return UNSPEC, calls
        outs, decided = [], False
        dec = {"all": ("b", False), "exists": ("b", True)}.get(k)
        for v in vsrc[1]:
            vb, cb = self.ev(t[2], [v] + env)
            calls += [(r, True) for r, _ in cb] if decided else cb
            outs.append(vb)
            if k == "map":
                if is_err(vb):
                    if vb == ERRV and not decided:
                        self.flags.add("map_body_error_value")
                    decided = True
            elif vb == dec:
                decided = True
        if k == "map":
            errs = [o for o in outs if is_err(o)]
            if errs:
                return ERRR if errs[0] == ERRR else ERRV, calls
            if any(o == UNSPEC for o in outs):
                return UNSPEC, calls
            return ("L", outs), calls
        if dec in outs:
            return dec, calls
        if any(o == UNSPEC or o[0] not in ("b", "ERR") for o in outs):
            return UNSPEC, calls
        if all(o[0] == "b" for o in outs):
            return ("b", not dec[1]), calls
        return ERRR, calls

    @staticmethod
    def kleene2(dec: bool, a, b):
        """`||` (dec=True) / `&&` (dec=False) of C02: decided by `dec`; two non-booleans are an error"""
        D, O = ("b", dec), ("b", not dec)
        if a == D or b == D:
            return D
        if a == UNSPEC or b == UNSPEC:
            return UNSPEC
        nb = lambda x: x[0] in ("i", "L")
        if nb(a) and nb(b):
            return ERRR
        if nb(a) or nb(b):
            return UNSPEC                # `false || 1` is 1 in cel-python: outside the property
        if a == O and b == O:
            return O
        return ERRV


def reference(prog):
    """-> dict(value=canonical|None, req=Counter, allowed=Counter, eager=Counter, flags=set) or None if unspecified"""
    # a list-style callable without __name__ cannot be bound at all
    if prog["style"] == "L" and any(spec_pyname(s) is None for s in prog["fns"]):
        return None
    r = Ref(prog)
    try:
        v, calls = r.ev(prog["expr"], [])
    except Unspecified:
        return None
    if v == UNSPEC:
        value = None
    elif is_err(v):
        value = "err"
    else:
        try:
            value = s_canon(v)
        except Unspecified:
            value = None
    req = collections.Counter(rec for rec, opt in calls if not opt)
    allowed = collections.Counter(rec for rec, _ in calls)
    return {"value": value, "req": req, "allowed": allowed, "eager": collections.Counter(r.eager), "flags": r.flags}


def parse_out(out: str):
    """`value | a(x);b()` -> (value, Counter of calls)"""
    val, _, log = out.partition(" | ")
    calls = collections.Counter()
    for item in [x for x in log.split(";") if x]:
        name, _, rest = item.partition("(")
        args = rest[:-1]
        calls[(name, tuple(split_args(args)))] += 1
    return val, calls


def split_args(s: str) -> List[str]:
    out, depth, cur = [], 0, ""
    for ch in s:
        if ch == "[":
            depth += 1
        elif ch == "]":
            depth -= 1
        if ch == "," and depth == 0:
            out.append(cur)
            cur = ""
        else:
            cur += ch
    if cur:
        out.append(cur)
    return out


def check_prog(prog, out: str, eager_ok: bool = False, lenient: Tuple[str, ...] = ()) -> Optional[str]:
    """the property's verdict on one program's outcome; None = holds / not specified"""
    ref = reference(prog)
    if ref is None:
        return None
    src = prog_src(prog)
    ctx = prog_ctx(prog)
    who = f"runner {prog['runner']} style {prog['style']} kinds {sorted({s['ckind'] for s in prog['fns']})}: {src!r}"
    if ctx:
        who += " with variables {" + ", ".join(f"{n}: {cel_val(v)}" for n, v in sorted(ctx.items())) + "}"
    if out.startswith("EXC "):
        return f"{who}: {out.split(' | ')[0]} escaped; the property requires " + (ref["value"] or "a value or an evaluation error")
    val, calls = parse_out(out)
    upper = ref["allowed"] + (ref["eager"] if eager_ok else collections.Counter())
    for rec, n in calls.items():
        if n > upper.get(rec, 0):
            why = ("a call site in the branch of ?: that the condition did not select" if calls[rec] <= (ref["allowed"] + ref["eager"]).get(rec, 0)
                   else "no reached call site with these evaluated arguments")
            return f"{who}: host function {rec[0]}({', '.join(rec[1])}) was applied {n}x, the property allows {upper.get(rec, 0)}x ({why})"
    for rec, n in ref["req"].items():
        if calls.get(rec, 0) < n:
            return f"{who}: host function {rec[0]}({', '.join(rec[1])}) must be applied {n}x (reached call site), was applied {calls.get(rec, 0)}x"
    if ref["value"] is not None and val != ref["value"] and "value" not in lenient:
        return f"{who}: gave {val}; the property requires {ref['value']}"
    return None


# --------------------------------------------------------------------------------------------------
# generator
# --------------------------------------------------------------------------------------------------

def I(n):
    return ["lit", ["i", n]]


def B(b):
    return ["lit", ["b", bool(b)]]


def L(*ns):
    return ["lit", ["L", [["i", n] for n in ns]]]


class Gen:
    """type-directed random expressions over a given function table"""

    def __init__(self, rng: random.Random, fns: Dict[str, List[Any]], clean: bool = False, unbound: bool = True):
        self.rng, self.fns, self.clean, self.unbound = rng, fns, clean, unbound
        # sub-expressions generated so far, by type: (depth of enclosing macros, tree).  Re-using one makes the SAME call
        # (same function, equal evaluated arguments) reached more than once in one evaluation.
        self.seen: Dict[str, List[Tuple[int, Any]]] = {"int": [], "bool": []}
        self.reuse = 0.12
        self.ints = [n for n in fns if n in POOL_INT or n in ("size", "k")]
        self.bools = [n for n in fns if n in POOL_BOOL or n == "contains"]
        self.lists = [n for n in fns if n in POOL_LIST]

    def args(self, d, depth, n=None):
        n = self.rng.choice([0, 1, 1, 2, 2, 3]) if n is None else n
        return [self.int_(d - 1, depth) if self.rng.random() < 0.8 else self.bool_(d - 1, depth) for _ in range(n)]

    def callform(self, name, args):
        if args and self.rng.random() < 0.5:
            return ["meth", name, args[0], args[1:]]
        return ["call", name, args]

    def again(self, ty, depth):
        """an earlier sub-expression of this type that is well-scoped here, or None"""
        pool = [t for (dp, t) in self.seen[ty] if dp <= depth]
        if pool and self.rng.random() < self.reuse:
            return self.rng.choice(pool)
        return None

    def int_(self, d, depth):
        t = self.again("int", depth)
        if t is None:
            t = self.int_new(d, depth)
            if t[0] in ("call", "meth"):
                self.seen["int"].append((depth, t))
        return t

    def bool_(self, d, depth):
        t = self.again("bool", depth)
        if t is None:
            t = self.bool_new(d, depth)
            if t[0] in ("call", "meth"):
                self.seen["bool"].append((depth, t))
        return t

    def int_new(self, d, depth):
        r = self.rng.random()
        if d <= 0 or r < 0.25:
            if depth and self.rng.random() < 0.5:
                return ["v", self.rng.randrange(depth)]
            return I(self.rng.choice([-3, -1, 0, 1, 2, 5, 40]))
        if r < 0.7 and self.ints:
            name = self.rng.choice(self.ints)
            if name == "size":
                return self.callform("size", [self.list_(d - 1, depth)])
            return self.callform(name, self.args(d, depth))
        if r < 0.78 and self.unbound and not self.clean:
            return self.callform("nosuch", self.args(d, depth, self.rng.choice([0, 1, 2])))
        if r < 0.9:
            return ["add", self.int_(d - 1, depth), self.int_(d - 1, depth)]
        return ["cond", self.bool_(d - 1, depth), self.int_(d - 1, depth), self.int_(d - 1, depth)]

    def bool_new(self, d, depth):
        r = self.rng.random()
        if d <= 0 or r < 0.15:
            return B(self.rng.random() < 0.5)
        if r < 0.45 and self.bools:
            name = self.rng.choice(self.bools)
            if name == "contains":
                return self.callform("contains", [self.list_(d - 1, depth), self.int_(d - 1, depth)])
            return self.callform(name, self.args(d, depth))
        if r < 0.6:
            return ["lt", self.int_(d - 1, depth), self.int_(d - 1, depth)]
        if r < 0.8:
            return [self.rng.choice(["or", "and"]), self.bool_(d - 1, depth), self.bool_(d - 1, depth)]
        if r < 0.85:
            return ["not", self.bool_(d - 1, depth)]
        if r < 0.92:
            return ["cond", self.bool_(d - 1, depth), self.bool_(d - 1, depth), self.bool_(d - 1, depth)]
        return [self.rng.choice(["all", "exists"]), self.list_(d - 1, depth), self.bool_(d - 1, depth + 1)]

    def list_(self, d, depth):
        r = self.rng.random()
        if d <= 0 or r < 0.6 or not (self.lists or self.clean):
            return L(*[self.rng.choice([-2, -1, 0, 1, 2, 3]) for _ in range(self.rng.randrange(0, 4))])
        if r < 0.8 and self.lists:
            return self.callform(self.rng.choice(self.lists), [self.int_(d - 1, depth) for _ in range(self.rng.choice([0, 1, 2, 3]))])
        # map bodies never err: the compiled macro keeps error *values* in its result (D42, C03's D7 family)
        sub = Gen(self.rng, {n: b for n, b in self.fns.items() if b[0] in ("sum", "const", "pos", "lst", "size", "contains")},
                  clean=True, unbound=False)
        return ["map", L(*[self.rng.choice([-1, 0, 1, 2]) for _ in range(self.rng.randrange(0, 4))]), sub.int_(min(d - 1, 2), depth + 1)]


INT_BEHS = [["sum", 100], ["sum", 7], ["const", ["i", 5]], ["errv"], ["raise", "ValueError"], ["raise", "TypeError"],
            ["errneg", 10], ["raiseneg", 20], ["sum", 0]]
BOOL_BEHS = [["pos"], ["const", ["b", True]], ["const", ["b", False]], ["errv"], ["raise", "ValueError"], ["raise", "TypeError"], ["pos"]]


def random_table(rng: random.Random) -> Dict[str, List[Any]]:
    t: Dict[str, List[Any]] = {}
    for n in rng.sample(POOL_INT, rng.randint(1, 3)):
        t[n] = rng.choice(INT_BEHS)
    for n in rng.sample(POOL_BOOL, rng.randint(0, 2)):
        t[n] = rng.choice(BOOL_BEHS)
    if rng.random() < 0.4:
        t["mk"] = ["lst"]
    if rng.random() < 0.35:
        t["size"] = rng.choice([["sum", 77], ["const", ["i", 9]], ["raise", "ValueError"], ["size"]])
    if rng.random() < 0.25:
        t["contains"] = rng.choice([["const", ["b", True]], ["pos"], ["errv"]])
    return t


def specs_for(rng: random.Random, table, style: str, kinds: List[str]) -> List[Dict[str, Any]]:
    out = []
    spare = [n for n in POOL if n not in table and n not in SHADOW]
    rng.shuffle(spare)
    for name, beh in table.items():
        ck = rng.choice(kinds)
        if style == "L" and ck in DICT_ONLY:
            ck = "nested"
        spec = {"key": name, "ckind": ck, "beh": beh}
        if style == "L" or rng.random() < 0.3:
            spec["pyname"] = name
        elif ck in ("nested", "lambda", "obj", "bound") and rng.random() < 0.5:
            spec["pyname"] = rng.choice(["other", "helper"])
        if ck in ("mod", "main", "ev") and style == "D" and rng.random() < 0.3 and spare:
            spec["pyname"] = spare.pop()                      # a module-level def bound under another key
        out.append(spec)
    return out


def both_runners(kind, style, fns, expr, rel=None, bind=False, extra=None):
    return [{"kind": kind, "progs": [dict({"runner": r, "style": style, "fns": fns, "expr": expr, "bind": bind}, **(extra or {}))], "rel": rel}
            for r in ("I", "C")]


NODE1 = {"or": 2, "and": 2, "not": 1, "cond": 3, "add": 2, "lt": 2, "all": 2, "exists": 2, "map": 2}


def map_tree(t, f):
    """rebuild the tree bottom-up, applying f to every node"""
    k = t[0]
    if k in ("lit", "v", "cv"):
        return f(t)
    if k == "call":
        return f(["call", t[1], [map_tree(a, f) for a in t[2]]])
    if k == "meth":
        return f(["meth", t[1], map_tree(t[2], f), [map_tree(a, f) for a in t[3]]])
    return f([k] + [map_tree(x, f) for x in t[1:]])


def to_method(t):
    """rewrite every `f(a, …)` with at least one argument as `a.f(…)`"""
    return map_tree(t, lambda n: ["meth", n[1], n[2][0], n[2][1:]] if n[0] == "call" and n[2] else n)


def to_function(t):
    """rewrite every `a.f(…)` as `f(a, …)`"""
    return map_tree(t, lambda n: ["call", n[1], [n[2]] + n[3]] if n[0] == "meth" else n)


def shape_cases() -> List[Dict[str, Any]]:
    """the systematic part of the product space: call shape x behaviour x callable kind x style x runner"""
    cases = []
    behs = {"ok": ["sum", 100], "errv": ["errv"], "ve": ["raise", "ValueError"], "te": ["raise", "TypeError"]}
    for bname, beh in behs.items():
        for ck in CKINDS + list(LOOKALIKE):
            for style in ("L", "D"):
                if style == "L" and ck in DICT_ONLY:
                    continue
                fns = [{"key": "f", "ckind": ck, "beh": beh, "pyname": "f"} if ck in NAMED_KINDS else {"key": "f", "ckind": ck, "beh": beh},
                       {"key": "g", "ckind": "nested", "beh": ["sum", 7], "pyname": "g"},
                       {"key": "p", "ckind": "lambda", "beh": ["pos"], "pyname": "p"}]
                shapes = [
                    ["call", "f", []], ["call", "f", [I(1)]], ["call", "f", [I(1), I(2)]], ["call", "f", [I(1), I(2), B(True)]],
                    ["meth", "f", I(1), []], ["meth", "f", I(1), [I(2)]], ["meth", "f", I(1), [I(2), I(3)]],
                    ["call", "g", [["call", "f", [I(1)]]]], ["meth", "g", ["call", "f", [I(1)]], [["call", "g", [I(2)]]]],
                    ["add", ["call", "f", [I(1)]], ["call", "g", [I(2)]]],
                    ["lt", ["call", "g", [I(2)]], ["call", "f", [I(1)]]],
                    ["or", ["lt", ["call", "f", [I(1)]], I(0)], B(True)], ["or", B(True), ["lt", ["call", "f", [I(1)]], I(0)]],
                    ["and", ["lt", ["call", "f", [I(1)]], I(0)], B(False)], ["and", B(False), ["lt", ["call", "f", [I(1)]], I(0)]],
                    ["or", ["lt", ["call", "f", [I(1)]], I(0)], B(False)], ["and", ["lt", ["call", "f", [I(1)]], I(0)], B(True)],
                    ["cond", ["call", "p", [I(1)]], ["call", "f", [I(1)]], I(0)], ["cond", ["call", "p", [I(-1)]], I(0), ["call", "f", [I(2)]]],
                    ["cond", ["lt", ["call", "f", [I(1)]], I(0)], I(1), I(2)],
                    ["all", L(1, 2, 3), ["lt", ["call", "f", [["v", 0]]], I(1000)]],
                    ["exists", L(1, 2), ["lt", ["call", "f", [["v", 0], I(5)]], I(0)]],
                    ["not", ["lt", ["call", "f", [I(1)]], I(0)]],
                ]
                if bname == "ok":
                    shapes += [["map", L(1, 2, 3), ["call", "f", [["v", 0]]]], ["map", L(4, 5), ["meth", "f", ["v", 0], [I(1)]]],
                               ["all", L(1, 2), ["exists", L(7), ["lt", ["call", "f", [["v", 0], ["v", 1]]], I(0)]]]]
                for i, e in enumerate(shapes):
                    cases += both_runners("shape", style, fns, e, bind=(i + len(ck)) % 2 == 0)
    return cases


def repeat_cases() -> List[Dict[str, Any]]:
    """"once per call site REACHED": the same function reached again with equal arguments — in one evaluation (two sites, a
    macro body), in a second evaluation of the same program, in another program that binds the name to another function.
    Every application must happen (a memo of results keyed by name / arguments / types would skip some) and must be
    the application of THIS program's function."""
    cases = []
    F1, F0 = ["call", "f", [I(1)]], ["call", "f", []]
    for bname, beh in {"ok": ["sum", 100], "errv": ["errv"], "ve": ["raise", "ValueError"], "neg": ["errneg", 10]}.items():
        for ck, style in (("nested", "D"), ("mod", "L"), ("obj", "D")):
            fns = [{"key": "f", "ckind": ck, "beh": beh, "pyname": "f"},
                   {"key": "g", "ckind": "lambda", "beh": ["sum", 7], "pyname": "g"},
                   {"key": "p", "ckind": "nested", "beh": ["pos"], "pyname": "p"}]
            shapes = [
                ["add", F1, F1], ["add", F0, F0], ["lt", F1, F1], ["add", ["add", F1, F1], F1],
                ["add", ["call", "f", [I(1), I(2)]], ["call", "f", [I(1), I(2)]]],
                ["add", ["meth", "f", I(1), [I(2)]], ["call", "f", [I(1), I(2)]]],            # the two syntaxes of one call
                ["add", ["meth", "f", I(1), []], ["meth", "f", I(1), []]],
                ["add", F1, ["call", "f", [B(True)]]],                                        # 1 == True in Python
                ["add", ["call", "f", [I(0)]], ["call", "f", [B(False)]]],
                ["add", F1, ["call", "g", [I(1)]]],                                           # equal arguments, another function
                ["add", ["call", "g", [I(1)]], ["call", "g", [I(1)]]],
                ["add", ["call", "f", [F1]], F1],
                ["add", ["call", "f", [L(1, 2)]], ["call", "f", [L(1, 2)]]],                  # unhashable arguments
                ["add", ["call", "f", [L(1, 2)]], ["call", "f", [L(3, 4)]]],
                ["or", ["call", "p", [I(1)]], ["call", "p", [I(1)]]], ["and", ["call", "p", [I(-1)]], ["call", "p", [I(-1)]]],
                ["or", ["lt", F1, I(0)], ["lt", F1, I(0)]],
                ["all", L(2, 2, 2), ["lt", ["call", "f", [["v", 0]]], I(1000)]],
                ["exists", L(3, 3), ["lt", ["meth", "f", ["v", 0], []], I(0)]],
                ["all", L(1, 2), ["lt", ["call", "f", [I(5)]], I(1000)]],                     # body does not depend on the variable
                ["lt", ["call", "f", [I(-1)]], ["call", "f", [I(-1)]]],
            ]
            if bname == "ok":
                shapes += [["map", L(5, 5, 5), ["call", "f", [["v", 0]]]], ["map", L(1, 2), ["call", "f", [I(7)]]],
                           ["map", L(4, 4), ["add", ["meth", "f", ["v", 0], []], ["call", "f", [["v", 0]]]]]]
            for i, e in enumerate(shapes):
                cases += both_runners("repeat", style, fns, e, bind=(i % 3 == 0))
            # the same program evaluated again: every application happens again
            for rn in ("I", "C"):
                for e in (["add", F1, ["call", "g", [I(2)]]], ["all", L(1, 2), ["lt", ["call", "f", [["v", 0]]], I(1000)]]):
                    p1 = {"runner": rn, "style": style, "fns": fns, "expr": e, "bind": ck == "obj"}
                    cases.append({"kind": "again", "rel": "same", "progs": [p1, dict(p1, again=True), dict(p1, again=True)]})
    # re-entrancy: the host function `n` evaluates another program (runner `inner`, its own f / g / size) while the outer
    # evaluation is under way; afterwards the outer program must still apply ITS functions
    for outer, inner, style in itertools.product("IC", "IC", "DL"):
        fns = [{"key": "n", "ckind": "nested", "beh": ["nest", inner, 30], "pyname": "n"},
               {"key": "f", "ckind": "mod" if style == "L" else "lambda", "beh": ["sum", 100], "pyname": "f"},
               {"key": "size", "ckind": "nested", "beh": ["sum", 77], "pyname": "size"},
               {"key": "p", "ckind": "obj", "beh": ["pos"], "pyname": "p"}]
        N1 = ["call", "n", [I(1)]]
        for e in (["add", N1, F1], ["add", N1, ["call", "size", [L(1, 2)]]], ["add", F1, ["add", N1, F1]],
                  ["call", "f", [N1]], ["meth", "f", N1, [["call", "g", [I(1)]]]],
                  ["or", ["lt", N1, F1], ["call", "p", [I(1)]]],
                  ["all", L(1, 2), ["lt", ["add", ["call", "n", [["v", 0]]], ["call", "f", [["v", 0]]]], I(1000)]],
                  ["add", N1, ["call", "nosuch", [I(1)]]]):
            cases.append({"kind": "reentrant", "rel": None, "progs": [{"runner": outer, "style": style, "fns": fns, "expr": e,
                                                                        "bind": outer == inner}]})
        fns2 = [fns[0], fns[1]]
        cases.append({"kind": "reentrant", "rel": None, "progs": [
            {"runner": outer, "style": style, "fns": fns2, "expr": ["add", N1, ["call", "size", [L(1, 2)]]]}]})     # the built-in size, after the inner override
    # the same name, the same arguments, ANOTHER function in the next program (one Environment or two)
    for share, first in itertools.product((True, False), (False, True)):
        for r1, r2 in itertools.product("IC", "IC"):
            for st1, st2 in (("D", "D"), ("L", "D"), ("D", "L")):
                fa = [{"key": "f", "ckind": "nested", "beh": ["sum", 100], "pyname": "f"}, {"key": "h", "ckind": "lambda", "beh": ["sum", 1], "pyname": "h"}]
                fb = [{"key": "f", "ckind": "obj", "beh": ["sum", 7], "pyname": "f"}]
                e = ["add", F1, ["call", "f", [I(1), I(2)]]]
                # build_first: all five programs are built before the first one is evaluated (closures only: the
                # module-level defs of the harness share one dispatch table per module)
                cases.append({"kind": "rebind", "rel": None, "share_env": share, "build_first": first, "share_ast": (r1 == r2) != (st1 == st2), "progs": [
                    {"runner": r1, "style": st1, "fns": fa, "expr": e}, {"runner": r2, "style": st2, "fns": fb, "expr": e},
                    {"runner": r2, "style": st2, "fns": fb, "expr": ["add", ["call", "h", [I(1)]], I(1)]},      # h is unbound now
                    {"runner": r1, "style": "N", "fns": [], "expr": F1},                                          # … and so is f
                    {"runner": r1, "style": st1, "fns": fa, "expr": e}]})
    return cases


def CV(name, val):
    return ["cv", name, val]


def name_cases() -> List[Dict[str, Any]]:
    """FUNCTIONS AND VARIABLES ARE SEPARATE NAMESPACES (round 3).  What a call `f(a)` / `a.f()` applies is the function the program
    was built with, whatever else carries the name `f` while the call is evaluated: a context variable (mentioned in the
    expression — even as the argument of that very call — or only bound), the bind variable of an enclosing macro, a variable
    named like an overridden or a plain built-in, a variable named like a function that is NOT bound (still an error).
    To the model and to the reference a variable is its value, so the prescribed outcome is that of the expression with
    the values written out."""
    cases = []
    LL = ["L", [["i", 1], ["i", 2]]]
    for bname, beh in {"ok": ["sum", 100], "errv": ["errv"], "ve": ["raise", "ValueError"]}.items():
        for ck, style in (("nested", "D"), ("mod", "L"), ("obj", "D"), ("lambda", "D"), ("ev", "D"), ("main", "L")):
            fns = [{"key": "f", "ckind": ck, "beh": beh, "pyname": "f"},
                   {"key": "g", "ckind": "lambda", "beh": ["sum", 7], "pyname": "g"},
                   {"key": "p", "ckind": "nested", "beh": ["pos"], "pyname": "p"}]
            over = fns + [{"key": "size", "ckind": "nested", "beh": ["sum", 77], "pyname": "size"}]
            f7, g2, pT, sz = CV("f", ["i", 7]), CV("g", ["i", 2]), CV("p", ["b", True]), CV("size", LL)
            F1 = ["call", "f", [I(1)]]
            shapes = [
                # (functions, expression, macro variable names, variables that are only bound)
                (fns, ["call", "f", [f7]], None, []), (fns, ["meth", "f", f7, []], None, []), (fns, ["meth", "f", f7, [g2]], None, []),
                (fns, ["call", "f", [g2, f7]], None, []), (fns, ["add", F1, f7], None, []), (fns, ["call", "g", [f7]], None, []),
                (fns, F1, None, [["f", ["i", 7]]]), (fns, ["meth", "f", I(1), [I(2)]], None, [["f", ["b", True]]]),
                (fns, ["meth", "g", F1, []], None, [["f", LL], ["g", ["i", 0]]]),
                (over, ["call", "size", [sz]], None, []), (over, ["meth", "size", sz, []], None, []),
                (fns, ["call", "size", [sz]], None, []), (fns, ["add", ["meth", "size", sz, []], F1], None, [["f", ["i", 1]]]),
                (over, ["add", ["call", "size", [L(1, 2, 3)]], F1], None, [["size", ["i", 5]]]),
                (fns, ["or", ["lt", I(1000), F1], ["lt", f7, I(50)]], None, []),            # the deciding operand hides an error of the call
                (fns, ["or", pT, ["lt", ["call", "f", [f7]], I(0)]], None, []),
                (fns, ["and", ["lt", ["call", "f", [f7]], I(1000)], ["call", "p", [pT]]], None, []),
                (fns, ["cond", ["call", "p", [pT]], ["call", "f", [f7]], I(0)], None, []),
                (fns, ["not", ["meth", "p", pT, []]], None, []),
                (fns, ["call", "nosuch", [CV("nosuch", ["i", 1])]], None, []),               # a variable is no function
                (fns, ["add", F1, ["call", "nosuch", [I(1)]]], None, [["nosuch", ["i", 1]]]),
                # the bind variable of a macro carries the name of the function its body calls
                (fns, ["all", L(1, 2), ["lt", ["call", "f", [["v", 0]]], I(1000)]], ["f"], []),
                (fns, ["exists", L(1, 2), ["lt", ["meth", "f", ["v", 0], [g2]], I(0)]], ["f"], []),
                (fns, ["all", L(1, 2), ["call", "p", [["v", 0]]]], ["p"], []),
                (fns, ["all", L(1, 2), ["exists", L(7), ["lt", ["call", "f", [["v", 0], ["v", 1]]], I(0)]]], ["g", "f"], []),
                (fns, ["all", L(1, 2), ["exists", L(7), ["lt", ["call", "g", [["v", 0], ["v", 1]]], I(0)]]], ["f", "g"], []),
                (fns, ["all", L(1, 2), ["lt", ["call", "f", [I(5)]], I(1000)]], ["f"], []),
                (over, ["all", L(1, 2), ["lt", ["add", ["call", "size", [L(1)]], ["v", 0]], I(1000)]], ["size"], []),
                (fns, ["all", L(1, 2), ["lt", ["add", ["meth", "size", L(1), []], ["v", 0]], I(1000)]], ["size"], []),
            ]
            if bname == "ok":
                shapes += [(fns, ["map", L(1, 2), ["call", "f", [["v", 0]]]], ["f"], []),
                           (fns, ["map", L(1, 2), ["meth", "f", ["v", 0], [["v", 0]]]], ["f"], []),
                           (fns, ["map", L(1, 2), ["call", "g", [["v", 0]]]], ["f"], [["g", ["i", 1]]]),
                           (fns, ["map", L(4, 5), ["add", ["call", "f", [["v", 0]]], f7]], ["g"], []),
                           (over, ["map", L(1, 2), ["call", "size", [L(1, 2, 3)]]], ["size"], [])]
            for i, (fs, e, mv, ctx) in enumerate(shapes):
                extra: Dict[str, Any] = {}
                if mv:
                    extra["mvars"] = mv
                if ctx:
                    extra["ctx"] = ctx
                cases += both_runners("names", style, fs, e, bind=(i % 4 == 0), extra=extra)
    return cases


def collide(rng: random.Random, e, table):
    """randomly turn literals of `e` into context variables and name its macro variables — after the program's FUNCTIONS
    (and after an unbound function) more often than not.  -> (expression, per-program extras)"""
    names = list(table) + ["nosuch", "size", "a"]
    mv = rng.sample(names, rng.choice([0, 1, 2, 3]))          # distinct: an inner macro variable must not hide an outer one
    free = [n for n in names if n not in mv]
    bound: Dict[str, Any] = {}

    def visit(n):
        if n[0] != "lit" or rng.random() < 0.5 or not free:
            return n
        name = rng.choice(free)
        if bound.setdefault(name, n[1]) != n[1]:
            return n
        return CV(name, n[1])
    e2 = map_tree(e, visit)
    extra: Dict[str, Any] = {}
    if mv:
        extra["mvars"] = mv
    spare = [n for n in free if n not in bound]
    if spare and rng.random() < 0.4:
        extra["ctx"] = [[rng.choice(spare), rng.choice([["i", 3], ["b", True], ["L", [["i", 1]]]])]]
    return e2, extra


def ast_cases() -> List[Dict[str, Any]]:
    """"FOR THIS PROGRAM ONLY", when ONE AST is packaged into several programs (round 3): `Environment.compile()` once,
    `Environment.program(ast, functions=…)` with another function set each time — nothing, an override of a built-in, a name
    that was unbound before, another function under the same name, nothing again — in every order, on one runner or
    alternating, built first or built when needed.  Every program must apply the functions IT was built with."""
    cases = []
    sz1 = [{"key": "size", "ckind": "nested", "beh": ["sum", 77], "pyname": "size"}]
    sz2 = [{"key": "size", "ckind": "obj", "beh": ["sum", 500], "pyname": "size"}]
    fa = [{"key": "f", "ckind": "nested", "beh": ["sum", 100], "pyname": "f"}, {"key": "p", "ckind": "lambda", "beh": ["pos"], "pyname": "p"}]
    fb = [{"key": "f", "ckind": "mod", "beh": ["sum", 7], "pyname": "f"}]
    fe = [{"key": "f", "ckind": "lambda", "beh": ["errv"], "pyname": "f"}]
    e_size = ["add", ["call", "size", [L(1, 2)]], ["meth", "size", L(1, 2, 3), []]]
    e_f = ["add", ["call", "f", [I(1)]], ["meth", "f", I(1), [I(2)]]]
    e_or = ["or", ["lt", ["call", "f", [I(1)]], I(0)], ["call", "p", [I(1)]]]
    e_mac = ["all", L(1, 2), ["lt", ["add", ["call", "f", [["v", 0]]], ["meth", "size", L(1), []]], I(1000)]]
    seqs = [
        (e_size, [("N", []), ("D", sz1), ("N", []), ("L", sz2), ("N", [])]),              # plain first, overrides later
        (e_size, [("D", sz1), ("N", []), ("D", sz2), ("L", sz1), ("N", [])]),              # override first
        (e_f, [("N", []), ("D", fa), ("D", fb), ("N", []), ("L", fa)]),                    # unbound first ("dry run"), bound later
        (e_f, [("L", fa), ("N", []), ("D", fb), ("D", fe), ("D", fa)]),
        (e_or, [("N", []), ("D", fa), ("D", fb), ("D", fe + fa[1:]), ("N", [])]),
        (e_mac, [("N", []), ("D", fa + sz1), ("D", fb), ("L", fa), ("L", sz1 + fb)]),
    ]
    i = 0
    for (e, seq), runners, first in itertools.product(seqs, ("IIIII", "CCCCC", "ICICI", "CICIC"), (False, True)):
        i += 1
        cases.append({"kind": "one_ast", "rel": None, "share_ast": True, "share_env": i % 3 != 0, "build_first": first,
                      "progs": [{"runner": r, "style": st, "fns": fns, "expr": e, "bind": (i + j) % 2 == 0}
                                for j, (r, (st, fns)) in enumerate(zip(runners, seq))]})
    return cases


class C14(Prop):
    pid = "C14"
    manifest = dict(
        technique="Lean 4 theorems over an executable model of Activation's function chain, function_eval/method_eval, func_name/host_function and both evaluators that return the value WITH the call log: call-syntax uniformity, call log = reached sites (induction over all expressions), list/dict binding, locality of overrides (base map never written, all histories), host errors absorbed via C02's laws, unbound names, compiled = eager-conditional interpreter; handler classes / chain order / base_functions keys regenerated from the source + bridge; differential correspondence over call shape x supplying style x callable kind x runner with recorded arguments",
        text="proof: for every expression of the fragment and every table of host functions the interpreter applies each host function exactly at the reached call sites with the evaluated arguments, identically for f(a,b) and a.f(b), for list and dict binding, without writing base_functions; errors returned or raised (ValueError/TypeError) are the site's error value and are absorbed like built-in errors; the compiled runner agrees up to the recorded findings",
        note="Lean kernel; standard axioms; extractor for Activation.__init__/function_eval/method_eval/func_name; evaluator control flow hand-modelled and tied by correspondence; lark; CPython call semantics",
        ref="DESIGN.md §5 C14")
    lean_targets = ["Cel.Props.C14", "Cel.Bridge.Funcs"]
    audit_namespaces = ["Cel.Props.C14", "Cel.Bridge.Funcs"]
    gen_names = ["Funcs", "Logic"]
    trusted = ["host callables of each kind built by the harness behave as their specification token says (py/verif/props/c14.py:_behave = Cel.Drv.C14.parseBeh)",
               "lark parsing of the rendered CEL text; CPython argument evaluation order and exception propagation",
               "strict operators other than int+int / int<int (bool and list operands) are not corresponded"]
    rule = ("systematic product: 23+ call shapes (global/method, 0-3 args, nested, in + < || && ?: ! all exists map) x behaviour (value, returned error, "
            "ValueError, TypeError) x 8 callable kinds x list/dict binding x both runners; random type-directed expressions (depth<=4) over random function tables "
            "incl. shadowed size/contains and unbound names; metamorphic pairs (function vs method syntax, list vs dict) and histories (override then no override; "
            "the first program's names are unbound later; same name rebound to another function; all programs built before the first is evaluated). "
            "round 2: the same call reached again (two/three sites, both syntaxes, 1 vs true, other function with equal arguments, unhashable arguments, macro bodies over equal "
            "elements) x behaviour x kind x runner; one program object evaluated three times; re-entrant evaluation (a host function evaluates another program); look-alike "
            "callables (functools.wraps of a built-in / of a visible function, object equal to everything, def with a built-in's module/qualname); random expressions re-use earlier call sub-trees. "
            "round 3: variables and macro bind variables that carry the NAME of a called function (context variable mentioned — also as the argument of that call — or only bound; "
            "bind variable of an enclosing macro; names of overridden / plain built-ins / unbound functions), systematically and in a third of the random programs; "
            "ONE AST packaged into several programs with different function sets (nothing / override / unbound-then-bound / other function, every order, one runner or alternating, built first or on demand). "
            "non-trivial = at least one host function was applied AND (an error occurred, or the call sits under an operator/macro, or the callable is not a plain module-level def)")

    def setup(self):
        _setup_modules()

    # ---- generation ------------------------------------------------------------------------------
    def generate(self, rng, tier):
        quick = tier == "quick"
        cases: List[Dict[str, Any]] = []
        sc = shape_cases()
        if quick:
            rng2 = random.Random(rng.random())
            sc = [c for c in sc if rng2.random() < 0.35]
        cases += sc
        cases += repeat_cases()
        nc = name_cases()
        if quick:
            rng3 = random.Random(rng.random())
            nc = [c for c in nc if rng3.random() < 0.4]
        cases += nc
        cases += ast_cases()
        n = 260 if quick else 5000
        self_ints = POOL_INT + ["size", "k"]
        for _ in range(n):
            table = random_table(rng)
            style = rng.choice(["L", "D", "D"])
            kinds = rng.choice([["mod"], ["main"], ["nested", "lambda"], ["obj", "bound"], CKINDS[:-1], ["mod", "main", "nested", "lambda", "obj", "bound"],
                                ["wraps"] + list(LOOKALIKE)])
            fns = specs_for(rng, table, style, kinds)
            g = Gen(rng, table)
            e = g.bool_(rng.randint(1, 4), 0) if rng.random() < 0.5 else g.int_(rng.randint(1, 4), 0)
            # round 3: in a third of the programs variables / macro variables carry the names of the functions
            e, nm = collide(rng, e, table) if rng.random() < 0.34 else (e, {})
            r = rng.random()
            if r < 0.5:
                cases += both_runners("random", style, fns, e, bind=rng.random() < 0.5, extra=nm)
            elif r < 0.68:      # function syntax vs method syntax
                for rn in ("I", "C"):
                    cases.append({"kind": "syntax", "rel": "same", "progs": [
                        dict({"runner": rn, "style": style, "fns": fns, "expr": to_function(e)}, **nm),
                        dict({"runner": rn, "style": style, "fns": fns, "expr": to_method(e)}, **nm)]})
            elif r < 0.8:       # list vs dict
                fl = [dict(s, pyname=s["key"], ckind=(s["ckind"] if s["ckind"] not in DICT_ONLY else "lambda")) for s in fns]
                sa = rng.random() < 0.5
                for rn in ("I", "C"):
                    cases.append({"kind": "binding", "rel": "same", "share_ast": sa, "progs": [
                        dict({"runner": rn, "style": "L", "fns": fl, "expr": e}, **nm), dict({"runner": rn, "style": "D", "fns": fl, "expr": e}, **nm)]})
            elif r < 0.88 and "contains" not in table:
                # round 3: ONE AST of a random expression packaged with nothing / the functions / some of them / others.
                # (not with an overridden `contains`: in the programs WITHOUT the override the BUILT-IN contains would get the error
                #  values of unbound calls, and the transpiled `contains([], <error value>)` is false — strictness of built-ins in
                #  error values is not C14's, cf. D43)
                bf = rng.random() < 0.4       # built first: closures only (the module-level defs of the harness share one dispatch table)
                fl = [dict(s, pyname=s["key"], ckind=(s["ckind"] if s["ckind"] not in DICT_ONLY + (("mod", "main", "ev") if bf else ()) else "nested"))
                      for s in fns]
                rng.shuffle(fl)
                part = fl[:max(1, len(fl) // 2)]
                other = [dict(s, beh=rng.choice(INT_BEHS[:3] if s["key"] in self_ints else BOOL_BEHS[:3]))
                         for s in fl if s["key"] in self_ints or s["key"] in POOL_BOOL]
                seq = [("N", []), (style, fl), ("D", part), ("D", other), ("N", []), ("L", fl)]
                seq = [seq[0]] + rng.sample(seq[1:], len(seq) - 1) if rng.random() < 0.7 else rng.sample(seq, len(seq))
                for rs in ("I" * 6, "C" * 6, "".join(rng.choice("IC") for _ in range(6))):
                    cases.append({"kind": "repack", "rel": None, "share_ast": True, "share_env": rng.random() < 0.6, "build_first": bf,
                                  "progs": [dict({"runner": rn, "style": st, "fns": fs, "expr": e}, **nm) for rn, (st, fs) in zip(rs, seq)]})
            else:               # an override in one program must not leak into the next ones
                st1 = rng.choice("LD")
                shadow = [{"key": "size", "ckind": rng.choice(NAMED_KINDS[:-1] if st1 == "L" else CKINDS[:-1]), "beh": ["sum", 77], "pyname": "size"},
                          {"key": "contains", "ckind": rng.choice(["nested", "lambda", "mod"]), "beh": ["const", ["b", False]], "pyname": "contains"}]
                probe = ["add", ["call", "size", [L(1, 2)]], ["cond", ["meth", "contains", L(1, 2), [I(2)]], I(10), I(20)]]
                for r1, r2 in itertools.product("IC", "IC"):
                    cases.append({"kind": "history", "rel": None, "share_env": rng.random() < 0.6, "share_ast": rng.random() < 0.5, "progs": [
                        {"runner": r1, "style": st1, "fns": shadow + fns, "expr": probe},
                        {"runner": r2, "style": "N", "fns": [], "expr": probe},
                        {"runner": r2, "style": style, "fns": fns, "expr": e},
                        {"runner": r1, "style": "D", "fns": shadow[:1], "expr": probe},
                        {"runner": r2, "style": "N", "fns": [], "expr": ["call", fns[0]["key"], [I(1)]]}]})
        # known findings, sampled on purpose (so that a *change* in them is noticed): D42 map keeps error values, D43 direct functions
        gv = {"key": "g", "ckind": "nested", "beh": ["errv"], "pyname": "g"}
        gn = {"key": "g", "ckind": "lambda", "beh": ["errneg", 10], "pyname": "g"}
        fo = {"key": "f", "ckind": "mod", "beh": ["sum", 100], "pyname": "f"}
        pv = {"key": "p", "ckind": "obj", "beh": ["errv"], "pyname": "p"}
        for fns, e in [([gv, fo], ["map", L(1, 2), ["call", "g", [["v", 0]]]]),
                       ([gn, fo], ["map", L(1, -1, 2), ["meth", "g", ["v", 0], []]]),
                       ([pv, fo], ["map", L(1, 2), ["or", ["call", "p", [["v", 0]]], B(False)]]),
                       ([gn, fo], ["map", L(3, 4), ["call", "g", [["v", 0]]]])]:
            for style in ("L", "D"):
                cases += both_runners("d42", style, fns, e)
        fd = {"key": "f", "ckind": "ev", "beh": ["sum", 100], "pyname": "f"}
        for fns, e in [([fd, gv], ["call", "f", [["call", "g", [I(1)]]]]), ([fd, gv], ["meth", "f", ["call", "g", [I(1)]], [I(2)]]),
                       ([fd, gn], ["call", "f", [I(1), ["call", "g", [I(-1)]]]]), ([fd, gn], ["call", "f", [I(1), ["call", "g", [I(1)]]]]),
                       ([fd, pv], ["call", "f", [["or", ["call", "p", []], B(False)]]]),
                       ([fd, gv], ["or", ["lt", ["call", "f", [["call", "g", [I(1)]]]], I(0)], B(True)])]:
            for style in ("L", "D"):
                cases += both_runners("d43", style, fns, e)
        # a ValueError subclass raised by the host function
        us = {"key": "f", "ckind": "nested", "beh": ["raise", "UnicodeError"], "pyname": "f"}
        for e in [["call", "f", [I(1)]], ["or", ["lt", ["call", "f", [I(1)]], I(0)], B(True)], ["call", "g", [["call", "f", []]]],
                  ["cond", B(False), ["call", "f", [I(1)]], I(3)], ["all", L(1, 2), ["lt", ["meth", "f", ["v", 0], []], I(0)]]]:
            cases += both_runners("subclass", "D", [us, {"key": "g", "ckind": "mod", "beh": ["sum", 7]}], e)
        # callables that cannot be bound by name in a list (no __name__): the model predicts the constructor error
        for ck in ("obj", "partial"):
            cases += both_runners("noname", "L", [{"key": "f", "ckind": ck, "beh": ["sum", 1]}], ["call", "f", [I(1)]])
        # a lambda supplied in a list is bound as '<lambda>' and cannot be called
        cases += both_runners("noname", "L", [{"key": "f", "ckind": "lambda", "beh": ["sum", 1]}], ["call", "f", [I(1)]])
        return cases

    # ---- implementation ----------------------------------------------------------------------------
    @staticmethod
    def _exc(ex) -> str:
        return "EXC RecursionError" if isinstance(ex, RecursionError) else f"EXC {type(ex).__name__}"

    def build_prog(self, p, envs: Optional[Dict[str, Any]] = None):
        """-> (program object, None) or (None, 'EXC <Class>')"""
        import celpy
        from .. import celrun
        try:
            fobjs = [(s, _make_callable(s, i)) for i, s in enumerate(p["fns"])]
            if p["style"] == "N":
                functions = None
            elif p["style"] == "L":
                functions = [o for _, o in fobjs]
            else:
                functions = {s["key"]: o for s, o in fobjs}
            if envs is not None:          # one Environment per runner class, shared by the programs of the history
                env = envs.get(p["runner"]) or envs.setdefault(p["runner"], celpy.Environment(runner_class=celrun.RUNNERS[p["runner"]]))
            else:
                env = celpy.Environment(runner_class=celrun.RUNNERS[p["runner"]])
            src = prog_src(p)
            if self._asts is not None:
                # "compile once, package the Expression into several programs": ONE AST object per source text of the history
                # (parsed by a CompiledRunner Environment when a transpiled program takes part: its tree class serves both runners)
                if src not in self._asts:
                    self._asts[src] = (self._ast_env or env).compile(src)
                ast = self._asts[src]
            else:
                ast = env.compile(src)
            return env.program(ast, functions=functions), None
        except Exception as ex:  # noqa
            return None, self._exc(ex)

    def eval_prog(self, prog, p) -> str:
        import celpy
        from celpy.evaluation import CELEvalError
        from .. import celrun
        REC.clear()
        try:
            try:
                # with bindings the runners work on a *clone* of the activation (Activation.clone copies the function chain)
                ctx = {n: _py_val(v) for n, v in prog_ctx(p).items()}
                if p.get("bind"):
                    ctx["zz"] = celpy.celtypes.IntType(1)
                v = prog.evaluate(ctx)
                val = celrun.canon(v)
            except CELEvalError:
                val = "err"
        except Exception as ex:  # noqa
            val = self._exc(ex)
        # (a list-bound function is known to CEL under its __name__; the recorder logs the spec key)
        return f"{val} | " + ";".join(f"{n}({','.join(a)})" for n, a in REC)

    def run_prog(self, p, envs: Optional[Dict[str, Any]] = None) -> str:
        REC.clear()
        if p.get("again") and self._last is not None:
            # evaluate the program object of the previous step once more (same runner object, same activation)
            return self.eval_prog(self._last, p)
        self._last, err = self.build_prog(p, envs)
        if err:
            return f"{err} | "
        return self.eval_prog(self._last, p)

    _last = None
    _asts: Optional[Dict[str, Any]] = None
    _ast_env = None

    def impl(self, c):
        import celpy
        from .. import celrun
        envs = {} if c.get("share_env") else None
        self._last = None
        self._asts = {} if c.get("share_ast") else None
        self._ast_env = (celpy.Environment(runner_class=celrun.RUNNERS["C"])
                         if c.get("share_ast") and any(p["runner"] == "C" for p in c["progs"]) else None)
        if c.get("build_first"):
            # an application that builds all its programs at start-up and evaluates them later: every program keeps ITS functions
            REC.clear()
            built = [self.build_prog(p, envs) for p in c["progs"]]
            return " ## ".join((f"{err} | " if err else self.eval_prog(prog, p)) for (prog, err), p in zip(built, c["progs"]))
        return " ## ".join(self.run_prog(p, envs) for p in c["progs"])

    # ---- model -------------------------------------------------------------------------------------
    def model_line(self, c):
        for p in c["progs"]:
            if p["style"] == "L":
                for s in p["fns"]:
                    pn = spec_pyname(s)
                    if pn is not None and pn != s["key"] and pn.isidentifier():
                        return None        # the recorder would log another name than the one CEL uses
        return f"H {len(c['progs'])} " + " ".join(lean_prog(p) for p in c["progs"])

    def model_expect(self, c, m):
        outs = []
        for o in m.split(" ## "):
            if o.startswith("CTOR "):
                o = "EXC " + o[5:] + " | "
            outs.append(o)
        return " ## ".join(outs)

    # ---- oracle ------------------------------------------------------------------------------------
    def oracle(self, c, out):
        outs = out.split(" ## ")
        if len(outs) != len(c["progs"]):
            return f"harness: {len(outs)} outcomes for {len(c['progs'])} programs"
        for i, (p, o) in enumerate(zip(c["progs"], outs)):
            msg = check_prog(p, o)
            if msg:
                if len(outs) > 1:
                    msg = f"program {i + 1} of {len(outs)}" + (" (the programs of one source text are built from ONE AST object)" if c.get("share_ast") else "") + ": " + msg
                return msg
        if c.get("rel") == "same" and all(reference(p) is not None for p in c["progs"]):
            if len(set(outs)) != 1:
                what = {"syntax": "function-call and method-call syntax", "binding": "list and dict binding"}.get(c["kind"], "the variants")
                return (f"{what} disagree on runner {c['progs'][0]['runner']}: {prog_src(c['progs'][0])!r} -> {outs[0]!r} but "
                        f"{prog_src(c['progs'][1])!r} -> {outs[1]!r}")
        return None

    def nontrivial(self, c, out):
        for p, o in zip(c["progs"], out.split(" ## ")):
            val, calls = parse_out(o)
            if not calls:
                continue
            if val == "err" or "errvalue" in o:
                return True
            if p["expr"][0] not in ("call", "meth"):
                return True
            if any(s["ckind"] != "mod" for s in p["fns"]):
                return True
        return False

    # ---- known findings ------------------------------------------------------------------------------
    def _only(self, c, flag: str, eager_ok=False, lenient=()) -> bool:
        """the case exhibits the finding `flag`, and NOTHING ELSE is wrong with it"""
        hit = False
        outs = self.impl(c).split(" ## ")
        for p, o in zip(c["progs"], outs):
            ref = reference(p)
            if ref is None:
                continue
            strict = check_prog(p, o)
            if strict is None:
                continue
            if p["runner"] != "C":
                return False
            if flag == "cond" and not ref["eager"]:
                return False
            if flag != "cond" and flag not in ref["flags"]:
                return False
            if check_prog(p, o, eager_ok=eager_ok, lenient=lenient) is not None:
                return False
            hit = True
        if c.get("rel") == "same" and len(set(outs)) != 1 and not hit:
            return False
        return hit

    def known_preds(self):
        return {
            # D41: the transpiled `?:` evaluates both branches: host functions in the branch that was not selected are applied
            "compiled_cond_eager": lambda c: self._only(c, "cond", eager_ok=True),
            # D42: macro_map keeps an error *value* produced by its body (host function returning CELEvalError, || && ?:)
            "compiled_map_body_error_value": lambda c: self._only(c, "map_body_error_value", eager_ok=False, lenient=("value",)),
            # D43: a supplied function that func_name can name by dotted text (visible from celpy.evaluation, e.g. celpy.c7nlib.*)
            #      is applied to error values
            "compiled_direct_function_error_argument": lambda c: self._only_direct(c),
        }

    def _only_direct(self, c) -> bool:
        hit = False
        for p, o in zip(c["progs"], self.impl(c).split(" ## ")):
            ref = reference(p)
            if ref is None or check_prog(p, o) is None:
                continue
            if p["runner"] != "C" or "direct_error_arg" not in ref["flags"]:
                return False
            # everything that is wrong must involve an `errvalue` argument handed to a direct function, or follow from it
            direct = {(spec_pyname(s) if p["style"] == "L" else s["key"]) for s in p["fns"] if s["ckind"] == "ev"}
            _, calls = parse_out(o)
            if not any(n in direct and "errvalue" in a for (n, a) in calls):
                return False
            hit = True
        return hit


PROP = C14()
