"""Pristine-process execution for C16.

`python -m verif.props.c16_worker --jobs N` is the c05_worker server (every job runs in a child forked from a process
in which nothing but `import celpy` has happened) with one more job kind:

    {"id": …, "hold": {"threads": [...], "release": [...], "prebuild": bool}}

A *hold scenario*: every logical thread is a real OS thread that creates its own Environment, compiles and builds its own
program and evaluates it once (the documented threading contract).  A thread whose expression contains `gate(…)` blocks
inside that host function — in the middle of its `evaluate` — until it is released.  The threads are started one after the
other: thread i+1 starts when thread i is held in its gate (or has finished).  When all are started, the held threads are
released in the order `release`, each one running to its end before the next is released; so
`release` = reversed start order gives properly nested evaluations (A … B … B done … A done), `release` = start order gives
overlapping ones (A enters, B enters, A leaves while B is still inside, B continues).
The interpreter state is that of an application that has only imported celpy (default recursion limit, …).

Answer: {"id": …, "hold": ["bool:true", "err", "EXC RecursionError", …], "blocked": [thread numbers that neither reached
their gate nor finished within the step timeout while an earlier thread was held — serialised by the library, not a failure]}.
"""
from __future__ import annotations

import sys
import threading
import time

from . import c05_worker as w

HOLD_TIMEOUT = 20.0
BLOCK_TIMEOUT = 10.0


def run_hold(spec):
    from .c16 import bindings, build, canon_out
    threads = spec["threads"]
    release = list(spec.get("release") or [])
    prebuild = bool(spec.get("prebuild"))
    n = len(threads)
    reached = [threading.Event() for _ in range(n)]     # in the gate, or finished
    go = [threading.Event() for _ in range(n)]
    done = [threading.Event() for _ in range(n)]
    res = [None] * n
    progs = [None] * n

    def mk_gate(i):
        first = [True]

        def gate(x):
            if first[0]:
                first[0] = False
                reached[i].set()
                go[i].wait(HOLD_TIMEOUT * 3)
            return x
        return gate

    def make(i):
        return build(threads[i], mk_gate(i))

    def worker(i):
        try:
            def job():
                p = progs[i] if prebuild else make(i)
                return p.evaluate(bindings(threads[i]))
            res[i] = canon_out(job)
        except BaseException as ex:  # noqa
            res[i] = "EXC " + type(ex).__name__
        finally:
            done[i].set()
            reached[i].set()

    if prebuild:
        for i in range(n):
            try:
                progs[i] = make(i)
            except BaseException as ex:  # noqa
                return {"hold": ["BUILD-EXC " + type(ex).__name__] * n, "blocked": []}
    ths = [threading.Thread(target=worker, args=(i,), daemon=True) for i in range(n)]
    blocked = []
    for i in range(n):
        ths[i].start()
        if not reached[i].wait(BLOCK_TIMEOUT if i else HOLD_TIMEOUT):
            blocked.append(i)       # waits for something an earlier, held thread owns: go on, it will finish after the releases
    order = [i for i in release if 0 <= i < n] + [i for i in range(n) if i not in release]
    for i in order:
        go[i].set()
        if not done[i].wait(HOLD_TIMEOUT) and i not in blocked:
            for g in go:
                g.set()
            break
    deadline = time.time() + HOLD_TIMEOUT
    for i in range(n):
        go[i].set()
    for i in range(n):
        done[i].wait(max(0.1, deadline - time.time()))
    return {"hold": [r if r is not None else "HARNESS-TIMEOUT" for r in res], "blocked": blocked}


_c05_run_job = w.run_job


def run_job(job):
    if "hold" in job:
        out = run_hold(job["hold"])
        out["id"] = job["id"]
        return out
    return _c05_run_job(job)


w.run_job = run_job      # `_child` and `--one` of c05_worker look the function up in their module at call time


if __name__ == "__main__":
    sys.exit(w.main(sys.argv[1:]))
