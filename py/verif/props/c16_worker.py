"""Pristine-process execution for C16.

`python -m verif.props.c16_worker --jobs N` is the c05_worker server (every job runs in a child forked from a process
in which nothing but `import celpy` has happened) with one more job kind:

    {"id": …, "hold": {"threads": [...], "release": [...], "prebuild": bool}}

A *hold scenario*: every logical thread is a real OS thread that creates its own Environment, compiles and builds its own
program and evaluates it once (the documented threading contract).  A thread whose expression contains `gate(…)` blocks
inside that host function — in the middle of its `evaluate` — until it is released.  The threads are started one after the
other: thread i+1 starts when thread i is held in its gate (or has finished).  When all are started, the held threads are
released in the order `release`, each one running to its end before the next is released; so
`release` = reversed start order gives properly nested evaluations (A … B … B done … A done), `release` = start order gives
overlapping ones (A enters, B enters, A leaves while B is still inside, B continues).
The interpreter state is that of an application that has only imported celpy (default recursion limit, …).

Answer: {"id": …, "hold": ["bool:true", "err", "EXC RecursionError", …], "blocked": [thread numbers that neither reached
their gate nor finished within the step timeout while an earlier thread was held — serialised by the library, not a failure]}.

Round 3 — *hang diagnosis*.  The step-ordered scenarios ({"threads": …, "order": …}) are run by `run_threads` of this module
(c05_worker's, plus): a step that does not come back is examined instead of merely timed out.  In a step-ordered scenario
every other thread is idle *outside* the library between its steps, so a thread that WAITS there (its CPU clock stands still
and its Python stack does not change over a window of seconds) waits for something no thread will ever give back: the step never
returns.  That is an outcome of the implementation (`HANG <where>`), not a harness timeout; a thread that is merely slow
(its CPU clock advances) still ends in `TimeoutError` = tool timeout.  The same diagnosis is applied to a hold scenario's threads
that are still not done after every thread has been released.
"""
from __future__ import annotations

import sys
import threading
import time

from . import c05_worker as w

HOLD_TIMEOUT = 20.0
BLOCK_TIMEOUT = 10.0
HANG_GRACE = 3.0          # seconds a step may take before its thread is examined
HANG_WINDOW = 3.0         # the examined thread must not use the CPU nor move for this long (twice in a row)
STEP_LIMIT = 60.0


def _stack_sig(ident):
    """(signature, description) of a thread's Python stack: the code objects and instruction offsets of all its frames"""
    import os
    f = sys._current_frames().get(ident)
    sig, where = [], []
    while f is not None:
        sig.append((id(f.f_code), f.f_lasti))
        fn = f.f_code.co_filename
        if os.sep + "celpy" + os.sep in fn and len(where) < 4:
            where.append(f"{os.path.basename(fn)}:{f.f_code.co_name}")
        f = f.f_back
    return tuple(sig), " <- ".join(where) or "outside celpy"


def diagnose_wait(thread, finished, limit):
    """wait until `finished()` (a callable polling with a timeout: finished(seconds) -> bool) says the thread's work is done.
    Returns None when it is done; "HANG <where>" when the thread provably waits (no CPU time used, stack unchanged, in two
    consecutive windows); raises TimeoutError when `limit` seconds pass with the thread still working."""
    t0 = time.time()
    if finished(HANG_GRACE):
        return None
    try:
        clk = time.pthread_getcpuclockid(thread.ident)
    except Exception:  # noqa
        clk = None
    still = 0
    while time.time() - t0 < limit:
        c0 = time.clock_gettime(clk) if clk is not None else None
        s0, _ = _stack_sig(thread.ident)
        if finished(HANG_WINDOW):
            return None
        c1 = time.clock_gettime(clk) if clk is not None else None
        s1, where = _stack_sig(thread.ident)
        if clk is not None and c1 - c0 < 0.001 and s0 == s1 and s0:
            still += 1
            if still >= 2:
                return "HANG " + where
        else:
            still = 0
    raise TimeoutError("step did not finish (the thread was still working)")


def run_hold(spec):
    from .c16 import bindings, build, canon_out
    threads = spec["threads"]
    release = list(spec.get("release") or [])
    prebuild = bool(spec.get("prebuild"))
    n = len(threads)
    reached = [threading.Event() for _ in range(n)]     # in the gate, or finished
    go = [threading.Event() for _ in range(n)]
    done = [threading.Event() for _ in range(n)]
    res = [None] * n
    progs = [None] * n

    def mk_gate(i):
        first = [True]

        def gate(x):
            if first[0]:
                first[0] = False
                reached[i].set()
                go[i].wait(HOLD_TIMEOUT * 3)
            return x
        return gate

    def make(i):
        return build(threads[i], mk_gate(i))

    def worker(i):
        try:
            def job():
                p = progs[i] if prebuild else make(i)
                return p.evaluate(bindings(threads[i]))
            res[i] = canon_out(job)
        except BaseException as ex:  # noqa
            res[i] = "EXC " + type(ex).__name__
        finally:
            done[i].set()
            reached[i].set()

    if prebuild:
        for i in range(n):
            try:
                progs[i] = make(i)
            except BaseException as ex:  # noqa
                return {"hold": ["BUILD-EXC " + type(ex).__name__] * n, "blocked": []}
    ths = [threading.Thread(target=worker, args=(i,), daemon=True) for i in range(n)]
    blocked = []
    for i in range(n):
        ths[i].start()
        if not reached[i].wait(BLOCK_TIMEOUT if i else HOLD_TIMEOUT):
            blocked.append(i)       # waits for something an earlier, held thread owns: go on, it will finish after the releases
    order = [i for i in release if 0 <= i < n] + [i for i in range(n) if i not in release]
    for i in order:
        go[i].set()
        if not done[i].wait(HOLD_TIMEOUT) and i not in blocked:
            for g in go:
                g.set()
            break
    deadline = time.time() + HOLD_TIMEOUT
    for i in range(n):
        go[i].set()
    for i in range(n):
        done[i].wait(max(0.1, deadline - time.time()))
    for i in range(n):           # every thread has been released: one that still waits (no CPU, no movement) will never return
        if res[i] is None and not done[i].is_set():
            try:
                h = diagnose_wait(ths[i], done[i].wait, 2 * HANG_WINDOW + HANG_GRACE + 1)
            except TimeoutError:
                h = None
            if h and res[i] is None:
                res[i] = h
    return {"hold": [r if r is not None else "HARNESS-TIMEOUT" for r in res], "blocked": blocked}


def run_threads(threads, order):
    """c05_worker.run_threads with the hang diagnosis: per thread [[model, rich], ...]; a step that hangs is recorded as
    ["HANG", "HANG <where> …"] and ends the scenario (the steps after it are not run)"""
    import queue
    n = len(threads)
    inq = [queue.Queue() for _ in range(n)]
    outq = queue.Queue()

    def worker(t):
        h = w.History()
        while True:
            op = inq[t].get()
            if op is None:
                return
            outq.put((t, h.step(op)))
    ths = [threading.Thread(target=worker, args=(t,), daemon=True) for t in range(n)]
    for t in ths:
        t.start()
    res = [[] for _ in range(n)]
    pos = [0] * n
    todo = [t for t in order] + [t for t in range(n) for _ in range(len(threads[t]))]     # + whatever the order left over
    for t in todo:
        if pos[t] >= len(threads[t]):
            continue
        inq[t].put(threads[t][pos[t]])
        pos[t] += 1
        got = []

        def finished(seconds):
            try:
                got.append(outq.get(timeout=seconds))
                return True
            except queue.Empty:
                return False
        try:
            hang = diagnose_wait(ths[t], finished, STEP_LIMIT)
        except TimeoutError:
            raise TimeoutError(f"step of thread {t} did not finish")
        if hang:
            res[t].append(["HANG", hang + " — the step never returns: the thread waits (no CPU time used, stack unchanged) while "
                           "every other thread is idle outside the library"])
            return res
        tt, r = got[0]
        res[tt].append(r)
    for t in range(n):
        inq[t].put(None)
    return res


_c05_run_job = w.run_job


def run_job(job):
    if "hold" in job:
        out = run_hold(job["hold"])
        out["id"] = job["id"]
        return out
    if "threads" in job:
        return {"id": job["id"], "tobs": run_threads(job["threads"], job["order"])}
    return _c05_run_job(job)


w.run_job = run_job      # `_child` and `--one` of c05_worker look the function up in their module at call time


if __name__ == "__main__":
    sys.exit(w.main(sys.argv[1:]))
