"""Execution of API histories for C05 in pristine interpreter processes.

`python -m verif.props.c05_worker` is a *server*: it imports celpy (nothing else happens in
the process: no Environment, no parser, no evaluation), then answers jobs read from stdin (one JSON
object per line).  Every job is executed in a child forked from that pristine state, so a job sees
exactly what a fresh interpreter sees after `import celpy`; up to `--jobs` children run at once.
`python -m verif.props.c05_worker --one` executes a single job read from stdin in this very
(really fresh) interpreter — used to cross-check the fork shortcut.

A job is {"id": …, "ops": [...]}: the ops of a history (see c05.py); the answer is
{"id": …, "obs": [[model_format, rich_format], …]} — one pair per op.
"""
from __future__ import annotations

import json
import os
import re
import sys


def _setup():
    import logging
    logging.disable(logging.CRITICAL)
    import celpy  # noqa
    return celpy


ANN = None


def ann_table():
    global ANN
    if ANN is None:
        from celpy import celtypes as ct
        ANN = {"IntType": ct.IntType, "StringType": ct.StringType, "MapType": ct.MapType, "BoolType": ct.BoolType,
               "UintType": ct.UintType, "DoubleType": ct.DoubleType, "ListType": ct.ListType}
    return ANN


def mk_val(v):
    from celpy import celtypes as ct
    t, x = v
    if t == "i":
        return ct.IntType(x)
    if t == "s":
        return ct.StringType(x)
    if t == "b":
        return ct.BoolType(x)
    if t == "m":
        return ct.MapType({ct.StringType(k): ct.IntType(n) for k, n in x})
    if t == "l":
        return ct.ListType([ct.IntType(n) for n in x])
    raise ValueError(v)


DEEP_SHAPES = {
    # heavy: every level costs many Python frames in the evaluator / the transpiler's visitors
    "paren": lambda d, leaf: "(" * d + leaf + ")" * d,
    "list": lambda d, leaf: "[" * d + leaf + "]" * d,
    "tern": lambda d, leaf: "x > 0 ? (" * d + leaf + ") : 0" * d,
    "call": lambda d, leaf: "size([" * d + leaf + "])" * d,
    "index": lambda d, leaf: "[" * d + leaf + "]" * d + "[0]" * d,
    "map": lambda d, leaf: "{'k': " * d + leaf + "}" * d + ".k" * d,
    "macro": lambda d, leaf: "[1].map(v, " * d + leaf + ")" * d,
    # light: a few frames per level (left-deep chains, prefix operators)
    "neg": lambda d, leaf: "-" * d + "x",
    "not": lambda d, leaf: "!" * d + "(x > 0)",
    "chain": lambda d, leaf: " + ".join(["x"] * max(d, 1)),
    "and": lambda d, leaf: " && ".join(["x == 2"] * max(d, 1)),
    "or": lambda d, leaf: " || ".join(["x == 1"] * max(d, 1)),
    "dots": lambda d, leaf: "x" + ".k" * d,
}


def deep_text(shape: str, depth: int, leaf: str = "x") -> str:
    """CEL text of a `depth` times nested expression of the given shape (the variable is `x`)"""
    return DEEP_SHAPES[shape](int(depth), leaf)


def expr_text(e) -> str:
    """CEL text of an expression tree of the model's fragment, or the raw text of {"src": …}"""
    if isinstance(e, dict):
        if "deep" in e:
            return deep_text(*e["deep"])
        return e["src"]
    k = e[0]
    if k == "lit":
        return str(e[1]) if e[1] >= 0 else f"({e[1]})"
    if k == "id":
        return e[1]
    if k == "did":
        return "." + e[1]
    if k == "dot":
        # `5.b` lexes as the float `5.` followed by `b` (no parse): a literal receiver is parenthesised (same tree shape
        # for the model: a selection on an int, which is an evaluation error)
        if e[1][0] == "lit" and e[1][1] >= 0:
            return f"({expr_text(e[1])}).{e[2]}"
        return f"{expr_text(e[1])}.{e[2]}"
    if k == "add":
        return f"({expr_text(e[1])} + {expr_text(e[2])})"
    raise ValueError(e)


def rich(v, depth=0) -> str:
    """content-complete canonical text of a result (a returned NameContainer is rendered recursively)"""
    from celpy import celtypes as ct
    from celpy.evaluation import NameContainer, Referent
    from .. import celrun
    if isinstance(v, NameContainer):
        if depth > 20:
            return "nc:<deep>"
        items = []
        for k, r in v.items():
            items.append(f"{k}:(ann={rich(r.annotation, depth + 1) if r.annotation is not None else '-'},"
                         f"set={int(r._value_set)},val={rich(r._value, depth + 1) if r._value_set else '-'},"
                         f"cont={rich(r.container, depth + 1) if r.container is not None else '-'})")
        return "nc:{" + ",".join(items) + "}"
    if isinstance(v, type):
        return "type:" + v.__name__
    if callable(v) and not isinstance(v, (ct.MapType, ct.ListType)):
        return "callable:" + getattr(v, "__name__", type(v).__name__)
    return celrun.canon(v)


def modelfmt(v) -> str:
    from celpy import celtypes as ct
    from celpy.evaluation import NameContainer
    t = type(v)
    if v is None:
        return "value null"
    if isinstance(v, NameContainer):
        return "value nc:[" + ",".join(v.keys()) + "]"
    if isinstance(v, type):
        return "value type:" + v.__name__
    if t is ct.IntType:
        return f"value int:{int(v)}"
    if t is ct.StringType:
        return "value string:" + str(v)
    if t is ct.BoolType:
        return "value bool:" + ("true" if v else "false")
    if t is ct.MapType:
        try:
            return "value map:{" + ",".join(f"{str(k)}={int(x)}" for k, x in v.items()) + "}"
        except Exception:
            return "value other:MapType"
    return "value other:" + t.__name__


HEX = re.compile(r"0x[0-9a-fA-F]+")


def exc_rich(ex) -> str:
    from celpy.evaluation import CELEvalError
    if isinstance(ex, CELEvalError):
        a = ex.args
        msg = str(a[0]) if a else ""
        msg = msg.split("(in activation")[0]
        cause = a[1].__name__ if len(a) > 1 and isinstance(a[1], type) else "-"
        inner = ""
        if len(a) > 2 and isinstance(a[2], tuple) and a[2]:
            inner = str(a[2][0]).split("(in activation")[0]
        return "err[" + cause + "]:" + HEX.sub("0x", msg)[:120] + "/" + HEX.sub("0x", inner)[:120]
    return "EXC " + type(ex).__name__ + ":" + HEX.sub("0x", str(ex.args[0]) if ex.args else "")[:120]


def mk_functions(spec, hist=None, prog_index=None):
    """host functions of a program: {"form": "dict"|"list", "fns": [[name, behaviour, param(, extra)], ...]} -> the `functions=` argument.
    Fresh function objects every time; `__name__` is the CEL name (that is what the list form is keyed by).
    Behaviour `reenter` (extra = {"mode": "nested"|"thread", "ops": sub-history, "pre": n}): a function that returns the
    constant `param` like `const`, and while it is being called performs API operations of its own (see History.make_reenter)."""
    if not spec:
        return None
    from celpy import celtypes as ct
    fs = []
    for item in spec["fns"]:
        name, beh, param = item[:3]
        if beh == "reenter":
            f = hist.make_reenter(param, item[3], prog_index)
        elif beh == "const":
            def f(*a, _p=param):
                return ct.IntType(_p)
        elif beh == "bytes":
            def f(x, _p=param):
                return ct.IntType(len(str(x).encode("utf-8")) + _p)
        elif beh == "ident":
            def f(x, _p=param):
                return x
        elif beh == "plus":
            def f(x, _p=param):
                return ct.IntType(int(x) + _p)
        else:
            raise ValueError(beh)
        f.__name__ = name
        f.__qualname__ = name
        fs.append(f)
    if spec["form"] == "list":
        return fs
    return {f.__name__: f for f in fs}


class History:
    """executes API operations one at a time; `step(op)` returns [model_format, rich_format]"""

    def __init__(self):
        self.envs, self.asts, self.progs = [], [], []
        self.decl_objs, self.bind_objs = {}, {}
        self.nested = []        # observations of operations performed by `reenter` functions during the current step

    def step(self, op):
        """[model_format, rich_format] — plus, as a third element, the observations [[sub-op index, model, rich], ...] of the
        operations that `reenter` host functions performed while this operation was under way (only when there are any)"""
        self.nested = []
        try:
            res = self._step(op)
        except RecursionError:
            res = ["EXC RecursionError", "EXC RecursionError"]
        except Exception as ex:  # noqa
            res = ["EXC " + type(ex).__name__, exc_rich(ex)]
        if self.nested:
            res = [res[0], res[1], self.nested]
            self.nested = []
        return res

    def make_reenter(self, param, extra, prog_index):
        """A host function for the program that is about to become `self.progs[prog_index]`.  It returns IntType(param).
        `extra["ops"]` is a self-contained sub-history (own History object: E, P, G, V — indices local to it), optionally
        ending in ["VS", bindings] = evaluate the OUTER program itself (the one this function belongs to).  The first
        `extra["pre"]` operations are performed right now (while the outer program is being built); the others when the
        function is first called — i.e. in the middle of an evaluation of the outer program —, in this thread
        (mode `nested`) or in another thread while this one waits (mode `thread`).  On later calls the last operation is
        repeated if it is an evaluation.  While its own operations run, the function behaves like the plain constant."""
        import threading
        from celpy import celtypes as ct
        sub = History()
        ops = extra.get("ops") or []
        pre = min(int(extra.get("pre", 0)), len(ops))
        mode = extra.get("mode", "nested")
        state = {"done": 0, "busy": False}
        outer = self

        def do(j, sink):
            op = ops[j]
            if op[0] == "VS":
                try:
                    o = outer._evaluate(prog_index, op[1])
                except RecursionError:
                    o = ["EXC RecursionError", "EXC RecursionError"]
                except Exception as ex:  # noqa
                    o = ["EXC " + type(ex).__name__, exc_rich(ex)]
            else:
                o = sub.step(op)
            sink.append([j, o[0], o[1]])
            state["done"] = max(state["done"], j + 1)

        for j in range(pre):
            if ops[j][0] != "VS":
                do(j, self.nested)

        def work(sink):
            if state["done"] < len(ops):
                todo = list(range(state["done"], len(ops)))
            elif ops and ops[-1][0] in ("V", "VS"):
                todo = [len(ops) - 1]
            else:
                todo = []
            for j in todo:
                do(j, sink)

        def f(*a):
            if state["busy"]:
                return ct.IntType(param)
            state["busy"] = True
            sink = []
            try:
                if mode == "thread":
                    t = threading.Thread(target=work, args=(sink,), daemon=True)
                    t.start()
                    t.join(60)
                else:
                    work(sink)
            finally:
                state["busy"] = False
                outer.nested.extend(sink)
            return ct.IntType(param)
        return f

    def _evaluate(self, pi, bspec):
        """evaluate program `pi` with the bindings `bspec`; identical bindings = the same dict object, re-used, and checked
        to be unmodified afterwards"""
        from celpy.evaluation import CELEvalError
        key = json.dumps(bspec)
        if key not in self.bind_objs:
            self.bind_objs[key] = {n: mk_val(v) for n, v in bspec}
        b = self.bind_objs[key]
        snap_keys = list(b.keys())
        snap = [rich(x) for x in b.values()]
        snap_ids = [id(x) for x in b.values()]
        tail = ""
        try:
            v = self.progs[pi].evaluate(b)
            res = [modelfmt(v), rich(v)]
        except CELEvalError as ex:
            res = ["err", exc_rich(ex)]
        if list(b.keys()) != snap_keys or [rich(x) for x in b.values()] != snap or [id(x) for x in b.values()] != snap_ids:
            tail = " !BINDINGS-MODIFIED"
        return [res[0] + tail, res[1] + tail]

    def _step(self, op):
        import celpy
        from celpy.evaluation import CELEvalError
        envs, asts, progs = self.envs, self.asts, self.progs
        k = op[0]
        if k == "E":
            _, kind, pkg, decls = op[:4]
            reuse = op[4] if len(op) > 4 else None
            if reuse is not None and reuse in self.decl_objs:
                d = self.decl_objs[reuse]           # the very same dict object handed to an earlier Environment
            else:
                d = {n: ann_table()[a] for n, a in decls}
            self.decl_objs[len(envs)] = d
            rc = celpy.CompiledRunner if kind == "C" else celpy.InterpretedRunner
            env = celpy.Environment(package=pkg, annotations=d, runner_class=rc)
            envs.append(env)
            return ["done", "done"]
        if k == "R":
            celpy.CELParser.CEL_PARSER = None
            return ["done", "done"]
        if k == "P":
            if op[1] >= len(envs):
                return ["nosuch", "nosuch"]
            text = "1 +" if op[2] is None else expr_text(op[2])
            try:
                ast = envs[op[1]].compile(text)
            except celpy.CELParseError:
                return ["parse-error", "parse-error"]
            asts.append(ast)
            return ["done", "done"]
        if k == "G":
            if op[1] >= len(envs) or op[2] >= len(asts):
                return ["nosuch", "nosuch"]
            fns = mk_functions(op[3], self, len(progs)) if len(op) > 3 else None
            p = envs[op[1]].program(asts[op[2]], functions=fns) if fns is not None else envs[op[1]].program(asts[op[2]])
            progs.append(p)
            return ["done", "done"]
        if k == "V":
            if op[1] >= len(progs):
                return ["nosuch", "nosuch"]
            return self._evaluate(op[1], op[2])
        return ["bad-op", "bad-op"]


def run_history(ops, lims=None):
    """execute the ops in this process; returns [[model_format, rich_format], ...]; `lims` (a list) receives the
    process-wide recursion limit after every op"""
    h = History()
    out = []
    for op in ops:
        out.append(h.step(op))
        if lims is not None:
            lims.append(sys.getrecursionlimit())
    return out


def run_threads(threads, order, timeout=60.0):
    """`threads[t]` is the op list of logical thread t (its own environments, trees, programs: indices are local to it);
    `order` is the global order of steps as a list of thread numbers.  Every logical thread is a real OS thread; the steps
    are gated so that they happen one at a time in the given order.  Returns per thread [[model, rich], ...]."""
    import queue
    import threading
    n = len(threads)
    inq = [queue.Queue() for _ in range(n)]
    outq = queue.Queue()

    def worker(t):
        h = History()
        while True:
            op = inq[t].get()
            if op is None:
                return
            outq.put((t, h.step(op)))
    ths = [threading.Thread(target=worker, args=(t,), daemon=True) for t in range(n)]
    for t in ths:
        t.start()
    res = [[] for _ in range(n)]
    pos = [0] * n
    for t in order:
        if pos[t] >= len(threads[t]):
            continue
        inq[t].put(threads[t][pos[t]])
        pos[t] += 1
        try:
            tt, r = outq.get(timeout=timeout)
        except queue.Empty:
            raise TimeoutError(f"step of thread {t} did not finish")
        res[tt].append(r)
    for t in range(n):                 # whatever the order left over
        while pos[t] < len(threads[t]):
            inq[t].put(threads[t][pos[t]])
            pos[t] += 1
            tt, r = outq.get(timeout=timeout)
            res[tt].append(r)
        inq[t].put(None)
    return res


def run_job(job):
    if "threads" in job:
        return {"id": job["id"], "tobs": run_threads(job["threads"], job["order"])}
    lims = [sys.getrecursionlimit()]      # [before the history, after op 0, after op 1, ...]
    return {"id": job["id"], "obs": run_history(job["ops"], lims), "lim": lims}


def _child(job, wfd):
    try:
        res = run_job(job)
    except BaseException as ex:  # noqa
        res = {"id": job["id"], "crash": f"{type(ex).__name__}: {ex}"}
    data = (json.dumps(res) + "\n").encode()
    with os.fdopen(wfd, "wb") as f:
        f.write(data)
    os._exit(0)


def serve(jobs: int):
    _setup()
    import select
    running = {}   # rfd -> (pid, buffer)
    pending = []
    eof = False
    out = sys.stdout
    inp = sys.stdin.buffer
    infd = inp.fileno()
    buf = b""
    while True:
        # start children
        while pending and len(running) < jobs:
            job = pending.pop(0)
            r, w = os.pipe()
            pid = os.fork()
            if pid == 0:
                os.close(r)
                for fd in list(running):
                    try:
                        os.close(fd)
                    except OSError:
                        pass
                _child(job, w)
            os.close(w)
            running[r] = [pid, b""]
        if eof and not pending and not running:
            break
        rl = list(running)
        if not eof and len(pending) < 4 * jobs:
            rl.append(infd)
        ready, _, _ = select.select(rl, [], [], 5.0)
        for fd in ready:
            if fd == infd:
                chunk = os.read(infd, 1 << 16)
                if not chunk:
                    eof = True
                    continue
                buf += chunk
                while b"\n" in buf:
                    line, buf = buf.split(b"\n", 1)
                    if line.strip():
                        pending.append(json.loads(line))
            else:
                chunk = os.read(fd, 1 << 16)
                if chunk:
                    running[fd][1] += chunk
                else:
                    pid, data = running.pop(fd)
                    os.close(fd)
                    os.waitpid(pid, 0)
                    out.write(data.decode() if data else json.dumps({"id": None, "crash": "no output"}) + "\n")
                    out.flush()


def _one(job):
    # same number of Python frames between `main` and `run_job` as in the forking server (main -> serve -> _child -> run_job):
    # whether a deeply nested expression hits the recursion limit must not depend on which of the two ran it
    return _one_inner(job)


def _one_inner(job):
    return run_job(job)


def main(argv):
    if "--one" in argv:
        _setup()
        job = json.loads(sys.stdin.read())
        print(json.dumps(_one(job)))
        return 0
    jobs = 8
    if "--jobs" in argv:
        jobs = int(argv[argv.index("--jobs") + 1])
    serve(jobs)
    return 0


if __name__ == "__main__":
    sys.exit(main(sys.argv[1:]))
