"""C03 — compiled and interpreted runners produce the same outcome."""
from __future__ import annotations
import glob
import itertools
import json
import os
import random
import re
from typing import Any, Dict, Iterable, List, Optional

from ..core import Prop, REPO
from .. import celrun
from . import c03_ast as A
from .c03_lits import literal_spellings

# ------------------------------------------------------------------------------------------
# running both runners
# ------------------------------------------------------------------------------------------

_BIND_CACHE: Dict[str, Any] = {}


def _eval_ctor(text: str) -> Any:
    import celpy
    if text not in _BIND_CACHE:
        _BIND_CACHE[text] = eval(text, {"celpy": celpy})
    return _BIND_CACHE[text]


def std_bindings() -> Dict[str, Any]:
    return {n: _eval_ctor(c) for n, (_t, c) in A.VARS.items()}


class _Timeout(BaseException):
    """raised by the SIGALRM handler; a BaseException so that no `except Exception` in celpy swallows it"""


def _on_alarm(signum, frame):
    raise _Timeout()


EVAL_TIMEOUT_S = 4.0


def run_one(src: str, runner: str, bindings: Dict[str, Any], package: Optional[str],
            annots: Optional[Dict[str, Any]] = None) -> str:
    """value canon | `err` (CELEvalError from evaluate) | `parse-error` | `CONSTRUCT <cls>` (program() failed)
    | `EXC <cls>` (anything else escaping evaluate) | `TIMEOUT` (no verdict: error messages of nested
    `||` folds grow exponentially in the unchanged code, some inputs take minutes)"""
    import signal
    old = signal.signal(signal.SIGALRM, _on_alarm)
    signal.setitimer(signal.ITIMER_REAL, EVAL_TIMEOUT_S)
    try:
        return _run_one(src, runner, bindings, package, annots)
    except _Timeout:
        return "TIMEOUT"
    finally:
        signal.setitimer(signal.ITIMER_REAL, 0)
        signal.signal(signal.SIGALRM, old)


def _run_one(src: str, runner: str, bindings: Dict[str, Any], package: Optional[str],
             annots: Optional[Dict[str, Any]] = None) -> str:
    import celpy
    from celpy.evaluation import CELEvalError
    try:
        # (Environment adds its own entries to the annotations mapping it is given: always a fresh dict)
        env = celpy.Environment(package=package, annotations=dict(annots) if annots else None,
                                runner_class=celrun.RUNNERS[runner])
        try:
            ast = env.compile(src)
        except celpy.CELParseError:
            return "parse-error"
    except RecursionError:
        return "EXC RecursionError"
    except Exception as ex:  # noqa
        return f"EXC {type(ex).__name__}"
    try:
        prog = env.program(ast)
    except RecursionError:
        return "CONSTRUCT RecursionError"
    except Exception as ex:  # noqa
        return f"CONSTRUCT {type(ex).__name__}"
    try:
        return celrun.canon(prog.evaluate(dict(bindings)))
    except CELEvalError:
        return "err"
    except RecursionError:
        return "EXC RecursionError"
    except Exception as ex:  # noqa
        return f"EXC {type(ex).__name__}"


class mem_cap:
    """cap the address space while the implementation runs: `bytes(9223372036854775807)`-style inputs (sequence
    repetition, huge allocations) then end in MemoryError in both runners instead of exhausting the machine"""
    CAP = 3 * 2**30

    def __enter__(self):
        import resource
        self.old = resource.getrlimit(resource.RLIMIT_AS)
        soft, hard = self.old
        try:
            resource.setrlimit(resource.RLIMIT_AS, (self.CAP if hard == resource.RLIM_INFINITY else min(self.CAP, hard), hard))
        except (ValueError, OSError):
            pass
        return self

    def __exit__(self, *a):
        import resource
        try:
            resource.setrlimit(resource.RLIMIT_AS, self.old)
        except (ValueError, OSError):
            pass
        return False


def is_value(o: str) -> bool:
    return not (o == "err" or o == "parse-error" or o.startswith("EXC ") or o.startswith("CONSTRUCT "))


def split_io(out: str):
    m = re.match(r"I=(.*) \|\| C=(.*)$", out, re.S)
    return (m.group(1), m.group(2)) if m else (out, out)


# ------------------------------------------------------------------------------------------
# syntactic zones (mirrored by Lean predicates in Cel/Model/Syntax.lean)
# ------------------------------------------------------------------------------------------

ERRVAL_SOURCES = ("or", "and", "cond")


def base_function_names() -> set:
    from celpy.evaluation import base_functions
    return set(base_functions)


def may_err_val(e: Any) -> bool:
    """mirror of Lean `!Expr.noErrVal`: can the COMPILED runner produce a CELEvalError *object as a value* for this
    expression (instead of raising)?  Syntactic over-approximation: a `||`/`&&`/`?:`, an `in` relation, `matches`, a
    call of an unbound function or has() occurs anywhere inside (error values propagate through operators as values)."""
    fns = base_function_names()
    for n in A.walk(e):
        k = n[0]
        if k in ERRVAL_SOURCES or k == "has":
            return True
        if k == "bin" and n[1] == "in":
            return True
        if k == "call" and (n[1] == "matches" or n[1] not in fns):
            return True
        if k == "mcall" and (n[2] == "matches" or n[2] not in fns):
            return True
        if k == "raw":
            return True
    return False


# functions whose transpiled call applies the function to an error-value argument without looking at it
# and that do not raise on it (measured on the live functions by the `law` cases)
NONSTRICT_FUNS = {"type", "string", "contains"}


def strict_fn(f: str) -> bool:
    """mirror of `PrimD.strictFn`"""
    return f not in NONSTRICT_FUNS


def unsafe_sites(e: Any) -> List[str]:
    """sites where an error value may flow into an error-unaware consumer of the transpiled program (D7);
    mirror of the D7 clauses of Lean `Expr.safe`"""
    out = []
    for n in A.walk(e):
        k = n[0]
        if k == "list" and any(may_err_val(x) for x in n[1]):
            out.append("list-element")
        if k == "map" and any(may_err_val(x) for kv in n[1] for x in kv):
            out.append("map-entry")
        if k == "call" and not strict_fn(n[1]) and any(may_err_val(x) for x in n[2]):
            out.append("call-arg:" + n[1])
        if k == "mcall" and not strict_fn(n[2]) and (any(may_err_val(x) for x in n[3]) or may_err_val(n[1])):
            out.append("mcall-arg:" + n[2])
        if k == "macro" and n[1] in ("map", "filter", "exists_one") and may_err_val(n[4]):
            out.append("macro-body:" + n[1])
    return out


def safe(e: Any) -> bool:
    """mirror of Lean `Expr.safe` (checked against the Lean driver on every generated expression)"""
    return not unsafe_sites(e) and "has" not in A.kinds(e) and not nonbool_macro_body(e)


def idents_used(e: Any) -> set:
    s = set()
    for n in A.walk(e):
        if n[0] == "id":
            s.add(n[1])
        if n[0] == "macro":
            s.add(n[3])
        if n[0] == "call":
            s.add(n[1])
        if n[0] == "mcall":
            s.add(n[2])
    return s


def python_hostile_names(e: Any) -> set:
    """identifiers the transpiled `activation.<name>` reads as an attribute of the Activation object instead of the
    binding (Python keywords were the other half of D61: fixed by c260d90, they are pasted as activation.get('kw'))"""
    return idents_used(e) & A.ACTIVATION_ATTRS


def boolish(b: Any) -> bool:
    """mirror of Lean `Expr.boolish`: syntactically boolean-valued (BoolType or error)"""
    k = b[0]
    if k == "lit":
        return b[1] == "bool"
    if k == "un":
        return b[1] == "!"
    if k == "bin":
        return b[1] in A.REL
    if k in ("or", "and"):
        return boolish(b[1]) and boolish(b[2])
    if k == "cond":
        return boolish(b[2]) and boolish(b[3])
    if k == "macro":
        return b[1] == "exists_one" or (b[1] in ("all", "exists") and boolish(b[4]))
    if k == "dyn":
        return boolish(b[1])
    return False


def nonbool_macro_body(e: Any) -> bool:
    """an all()/exists() whose body is not syntactically boolean-valued"""
    return any(n[0] == "macro" and n[1] in ("all", "exists") and not boolish(n[4]) for n in A.walk(e))


def function_object_used(e: Any, bound: set) -> bool:
    """a function/type object is used as a value by an operator: an identifier that is not a variable but names a
    base function, or the result of type(), is indexed or otherwise operated on (e.g. `list[1/0]` builds a
    typing.GenericAlias in the interpreter)"""
    fns = base_function_names()

    def typeobj(n, sc):
        k = n[0]
        if k == "id":
            return n[1] not in sc and n[1] in fns
        if k == "call":
            return n[1] == "type"
        if k == "dyn":
            return typeobj(n[1], sc)
        if k == "cond":
            return typeobj(n[2], sc) or typeobj(n[3], sc)
        return False

    def go(n, sc):
        k = n[0]
        if k == "idx" and typeobj(n[1], sc):
            return True
        if k == "macro":
            return go(n[2], sc) or go(n[4], sc | {n[3]})
        return any(go(c, sc) for c in A.children(n))
    return go(e, set(bound))


# ------------------------------------------------------------------------------------------
# model protocol
# ------------------------------------------------------------------------------------------

MODEL_VARS = {"vi": "i 7", "vj": "i -3", "vz": "i 0", "vmax": "i 9223372036854775807", "vb": "b 1", "vf": "b 0",
              "vs": "s hello", "ve": "s _", "vn": "n", "vl": "l 3 i 1 i 2 i 0", "vls": "l 2 s a s b", "vle": "l 0",
              "vlm": "l 3 i 1 s x b 1"}
BINOPS = {"+": "add", "-": "sub", "*": "mul", "/": "div", "%": "mod", "<": "lt", "<=": "le", ">": "gt", ">=": "ge",
          "==": "eq", "!=": "ne", "in": "in"}
_SIMPLE_STR = re.compile(r"""^(['"])([A-Za-z0-9]*)\1$""")


class NotModelled(Exception):
    pass


def model_expr(e: Any, scope: set) -> str:
    k = e[0]
    if k == "lit":
        kind, text = e[1], e[2]
        if kind == "int":
            t = text.lower()
            v = int(t, 16) if "0x" in t else int(t)
            if -2**63 <= v < 2**63:
                return f"lit i {v}"
            return "badlit"
        if kind == "bool":
            return "lit b " + ("1" if text == "true" else "0")
        if kind == "null":
            return "lit n"
        if kind == "string":
            m = _SIMPLE_STR.match(text)
            if m:
                return "lit s " + (m.group(2) or "_")
        raise NotModelled(kind)
    if k == "id":
        if e[1] in scope or e[1] in MODEL_VARS:
            return "id " + e[1]
        raise NotModelled("ident " + e[1])
    if k == "un":
        return f"un {'not' if e[1] == '!' else 'neg'} {model_expr(e[2], scope)}"
    if k == "bin":
        return f"bin {BINOPS[e[1]]} {model_expr(e[2], scope)} {model_expr(e[3], scope)}"
    if k in ("or", "and"):
        return f"{k} {model_expr(e[1], scope)} {model_expr(e[2], scope)}"
    if k == "cond":
        return f"cond {model_expr(e[1], scope)} {model_expr(e[2], scope)} {model_expr(e[3], scope)}"
    if k == "list":
        return f"list {len(e[1])} " + " ".join(model_expr(x, scope) for x in e[1])
    if k == "idx":
        return f"idx {model_expr(e[1], scope)} {model_expr(e[2], scope)}"
    if k == "sel":
        # `selectI` (member_dot: `e["f"]`) vs. `selectC` (`e.get('f')`)
        if not re.fullmatch(r"[A-Za-z_][A-Za-z0-9_]*", e[2]):
            raise NotModelled("field")
        return f"sel {model_expr(e[1], scope)} {e[2]}"
    if k == "call":
        if e[1] != "size":
            raise NotModelled("call " + e[1])
        return f"call {e[1]} {len(e[2])} " + " ".join(model_expr(x, scope) for x in e[2])
    if k == "mcall":
        if e[2] != "size":
            raise NotModelled("mcall " + e[2])
        return f"mcall {model_expr(e[1], scope)} {e[2]} {len(e[3])} " + " ".join(model_expr(x, scope) for x in e[3])
    if k == "macro":
        if not re.fullmatch(r"[A-Za-z_][A-Za-z0-9_]*", e[3]) or e[3] in A.ACTIVATION_ATTRS:
            raise NotModelled("macro var")
        return f"macro {e[1]} {model_expr(e[2], scope)} {e[3]} {model_expr(e[4], scope | {e[3]})}"
    if k == "dyn":
        return f"dyn {model_expr(e[1], scope)}"
    raise NotModelled(k)


def syntax_expr(e: Any) -> str:
    """serialisation for the driver's `S` command (Expr.safe): values do not matter, only the shape"""
    k = e[0]
    if k == "lit":
        return "lit b 1" if e[1] == "bool" else "lit n"
    if k == "id":
        return "id " + e[1]
    if k == "un":
        return f"un {'not' if e[1] == '!' else 'neg'} {syntax_expr(e[2])}"
    if k == "bin":
        return f"bin {BINOPS[e[1]]} {syntax_expr(e[2])} {syntax_expr(e[3])}"
    if k in ("or", "and"):
        return f"{k} {syntax_expr(e[1])} {syntax_expr(e[2])}"
    if k == "cond":
        return f"cond {syntax_expr(e[1])} {syntax_expr(e[2])} {syntax_expr(e[3])}"
    if k == "list":
        return f"list {len(e[1])} " + " ".join(syntax_expr(x) for x in e[1])
    if k == "map":
        flat = [x for kv in e[1] for x in kv]
        return f"map {len(flat)} " + " ".join(syntax_expr(x) for x in flat)
    if k == "idx":
        return f"idx {syntax_expr(e[1])} {syntax_expr(e[2])}"
    if k == "sel":
        return f"sel {syntax_expr(e[1])} {e[2]}"
    if k == "call":
        return f"call {e[1]} {len(e[2])} " + " ".join(syntax_expr(x) for x in e[2])
    if k == "mcall":
        return f"mcall {syntax_expr(e[1])} {e[2]} {len(e[3])} " + " ".join(syntax_expr(x) for x in e[3])
    if k == "macro":
        return f"macro {e[1]} {syntax_expr(e[2])} {e[3]} {syntax_expr(e[4])}"
    if k in ("has", "dyn"):
        return f"{k} {syntax_expr(e[1])}"
    raise NotModelled(k)


def model_env(extra: Optional[Dict[str, str]] = None) -> str:
    vs = dict(MODEL_VARS)
    vs.update(extra or {})
    return f"{len(vs)} " + " ".join(f"{n} {v}" for n, v in vs.items())


# prim pool (model values): token, python constructor
PRIM_POOL = [("i 0", "celpy.celtypes.IntType(0)"), ("i 1", "celpy.celtypes.IntType(1)"), ("i -1", "celpy.celtypes.IntType(-1)"),
             ("i 2", "celpy.celtypes.IntType(2)"), ("i 7", "celpy.celtypes.IntType(7)"), ("i -3", "celpy.celtypes.IntType(-3)"),
             ("i 9223372036854775807", "celpy.celtypes.IntType(9223372036854775807)"),
             ("i -9223372036854775808", "celpy.celtypes.IntType(-9223372036854775808)"),
             ("b 1", "celpy.celtypes.BoolType(True)"), ("b 0", "celpy.celtypes.BoolType(False)"),
             ("s a", "celpy.celtypes.StringType('a')"), ("s _", "celpy.celtypes.StringType('')"), ("s ab", "celpy.celtypes.StringType('ab')"),
             ("n", "None"), ("e", "celpy.evaluation.CELEvalError('boom')"),
             ("l 0", "celpy.celtypes.ListType([])"),
             ("l 2 i 1 i 2", "celpy.celtypes.ListType([celpy.celtypes.IntType(1), celpy.celtypes.IntType(2)])"),
             ("l 1 i 7", "celpy.celtypes.ListType([celpy.celtypes.IntType(7)])"),
             ("l 2 s a i 1", "celpy.celtypes.ListType([celpy.celtypes.StringType('a'), celpy.celtypes.IntType(1)])"),
             ("l 1 l 1 i 1", "celpy.celtypes.ListType([celpy.celtypes.ListType([celpy.celtypes.IntType(1)])])"),
             ("l 2 b 1 n", "celpy.celtypes.ListType([celpy.celtypes.BoolType(True), None])")]
PRIM_OPS = {"neg": ("-_", 1), "not": ("!_", 1), "add": ("_+_", 2), "sub": ("_-_", 2), "mul": ("_*_", 2), "div": ("_/_", 2),
            "mod": ("_%_", 2), "lt": ("_<_", 2), "le": ("_<=_", 2), "gt": ("_>_", 2), "ge": ("_>=_", 2), "eq": ("_==_", 2),
            "ne": ("_!=_", 2), "in": ("_in_", 2), "index": ("_[_]", 2), "size": ("size", 1), "lor": ("_||_", 2), "land": ("_&&_", 2)}

# value pool for the primitive laws (python side only): every CEL kind, boundaries, an error object, type objects
LAW_POOL = [c for (_t, c) in A.VARS.values()] + [
    "celpy.evaluation.CELEvalError('boom')", "celpy.celtypes.IntType(-9223372036854775808)", "celpy.celtypes.IntType(1)",
    "celpy.celtypes.UintType(0)", "celpy.celtypes.DoubleType(float('nan'))", "celpy.celtypes.DoubleType(1e300)",
    "celpy.celtypes.StringType('UTC')", "celpy.celtypes.StringType('10s')", "celpy.celtypes.StringType('(')",
    "celpy.celtypes.StringType('2009-02-13T23:31:30Z')", "celpy.celtypes.StringType('12')", "celpy.celtypes.BytesType(b'\\xff')",
    "celpy.celtypes.IntType", "celpy.celtypes.ListType", "celpy.celtypes.TypeType(celpy.celtypes.IntType(1))",
    "celpy.celtypes.ListType([celpy.celtypes.ListType([celpy.celtypes.IntType(1)]), None])",
    "celpy.celtypes.MapType({celpy.celtypes.BoolType(True): celpy.celtypes.DoubleType(1.5)})",
    "celpy.celtypes.TimestampType('0001-01-01T00:00:00Z')", "celpy.celtypes.DurationType('-1s')"]
LAW_ERR = LAW_POOL.index("celpy.evaluation.CELEvalError('boom')")
# operators whose transpiled application is a plain call of the base function (strict by the laws)
LAW_OPERATORS = ["!_", "-_", "_+_", "_-_", "_*_", "_/_", "_%_", "_<_", "_<=_", "_>_", "_>=_", "_==_", "_!=_", "_in_", "_[_]"]
LAW_ARITY = {"!_": [1], "-_": [1], "size": [1], "type": [1], "bool": [1], "bytes": [1], "double": [1], "duration": [1], "int": [1],
             "list": [1], "map": [1], "null_type": [1], "string": [1], "timestamp": [1], "uint": [1],
             "getDate": [1, 2], "getDayOfMonth": [1, 2], "getDayOfWeek": [1, 2], "getDayOfYear": [1, 2], "getFullYear": [1, 2],
             "getMonth": [1, 2], "getHours": [1, 2], "getMilliseconds": [1, 2], "getMinutes": [1, 2], "getSeconds": [1, 2]}
LAW_SKIP = {"_||_", "_&&_", "_?_:_"}      # modelled concretely (vor/vand/vcond), compared as `prim` cases
ERR_SOURCES = {"_in_", "matches"}


def law_cases() -> List[Dict[str, Any]]:
    out = []
    n = len(LAW_POOL)
    for f in sorted(base_function_names()):
        if f in LAW_SKIP:
            continue
        for ar in LAW_ARITY.get(f, [2]):
            for args in itertools.product(range(n), repeat=ar):
                out.append({"kind": "law", "fn": f, "args": list(args)})
    return out


# ------------------------------------------------------------------------------------------
# conformance corpus
# ------------------------------------------------------------------------------------------


def feature_cases() -> List[Dict[str, Any]]:
    out = []
    seen = set()
    for f in sorted(glob.glob(str(REPO / "features" / "*.feature"))):
        cur: Dict[str, Any] = {"bind": {}, "container": None}
        for line in open(f, encoding="utf-8"):
            s = line.strip()
            if s.startswith("Scenario"):
                cur = {"bind": {}, "container": None}
            m = re.match(r"(?:Given|and|And) bindings parameter (.*?) is (.*)$", s)
            if m:
                cur["bind"][m.group(1)] = m.group(2)
            m = re.match(r"(?:Given|and|And) container is (.*)$", s)
            if m:
                cur["container"] = m.group(1)
            m = re.match(r"When CEL expression (.*) is evaluated$", s)
            if m:
                try:
                    expr = eval(m.group(1), {})
                    binds = {eval(k, {}): v for k, v in cur["bind"].items()}
                    for v in binds.values():
                        _eval_ctor(v)
                    cont = eval(cur["container"], {}) if cur["container"] else None
                except Exception:
                    try:
                        expr = eval(m.group(1), {})
                    except Exception:
                        continue
                    binds, cont = {}, None
                if not isinstance(expr, str):
                    continue
                c = {"kind": "text", "src": expr, "binds": binds, "package": cont, "origin": os.path.basename(f)}
                key = json.dumps([expr, binds, cont], sort_keys=True)
                if key not in seen:
                    seen.add(key)
                    out.append(c)
    return out


# ------------------------------------------------------------------------------------------
# the property
# ------------------------------------------------------------------------------------------

class C03(Prop):
    pid = "C03"
    manifest = dict(
        technique='Lean 4: structural induction over ALL CEL expressions (Cel.Model.Syntax.Expr) showing the denotation of the transpiled program (EvalC: exceptions raised, result() where the templates put it, macro_* helpers) observes the same outcome as the interpreter (EvalI: one clause per Evaluator rule with its except-handler set), for every primitive semantics satisfying named laws and under decidable syntactic side conditions naming the zones where the unchanged code diverges; handler sets, result() classes, macro names, base_functions regenerated from evaluation.py + bridge; differential correspondence of both real runners and both Lean evaluators on a type-directed generator and the whole conformance corpus',
        text='proof: evalC_eq_evalI — for every expression tree, environment and primitive semantics obeying PrimLaws, the compiled denotation and the interpreter agree on the observable outcome (same value, or error in both) under Safe/NoHas/BoolBodies (each excluded zone has a divergence witness and a known finding); the control skeleton of both runners is tied to evaluation.py by regenerated handler/caught-class tables and by a 4-way differential (real I, real C, Lean evalI, Lean evalC)',
        note='Lean kernel; standard axioms; py2lean/extractors; PrimLaws measured on a finite value pool (trusted pool-to-all step); evaluator control flow hand-modelled and tied by correspondence; lark; CPython exec/lambda semantics',
        ref='DESIGN.md §5 C03')
    lean_targets = ["Cel.Props.C03", "Cel.Bridge.Eval"]
    audit_namespaces = ["Cel.Props.C03", "Cel.Bridge.Eval"]
    gen_names = ["Eval"]
    trusted = ["PrimLaws (error-strictness, raised classes ⊆ handler ∩ result() classes) are measured on a finite pool of values per primitive, not proved for all values",
               "the concrete primitive semantics of the Lean driver (int/bool/string/list/null fragment) is compared exhaustively on the pool with operator.*/celtypes, other kinds are outside the model (skip)",
               "lark parsing; CPython's evaluation order for call arguments and lambdas",
               "name resolution beyond simple identifiers (dotted names, packages) is C12's model; here: simple names only"]
    rule = ("type-directed random expressions (depth<=6, 70% well-typed / 30% ill-typed injections) over every operator, relation, "
            "`in`, ?:, ||, &&, list/map literals, index, field selection, every base function and conversion in both call syntaxes, "
            "the five macros, has(), dyn(), with bindings of every CEL kind; plus every expression of features/*.feature with its "
            "evaluable bindings/container; plus absorbing contexts (true || e, false && e, c ? e : e, has(e.f), [..].all/exists) wrapped "
            "around error-raising leaves; plus the primitive pool (op x pool^arity) for PrimLaws and driver fidelity. Each expression is "
            "run on both real runners and (inside the model's fragment) both Lean evaluators. Round 2: every macro over every "
            "sequence of element outcomes true/false/raises up to length 3 (4 in thorough; five ways of raising) plus random longer "
            "ones; identifier spellings (Python keywords, soft keywords, CEL reserved words, builtins, dunder names) as variable and "
            "macro variable; activations with dotted names (namespaces) and missing members in absorbing contexts; histories: one "
            "Environment, programs built once, evaluated over sequences of activations binding different variable sets. "
            "Round 3: field selection on every kind of container (map variable, literal, nested, list element, JSON-converted, "
            "dyn, ?:, message, namespace of dotted names) x every kind of member value (null, false, 0, 0u, 0.0, NaN, '', b'', [], "
            "{}, zero duration, epoch, ordinary ones, missing) x 22 contexts. "
            "Round 4: activations whose names overlap (a bound name that is a proper dotted prefix of another bound name: value + "
            "namespace on one identifier, both insertion orders, one level down, under a package; map values holding the competing "
            "member), with annotations for the name / a longer name / a sibling and a container, every name referenced at every length. "
            "non-trivial = distinct expression "
            "containing a short-circuit operator, macro or has(), or with an error outcome on either runner")

    def setup(self):
        import sys
        sys.setrecursionlimit(10000)

    # -- generation -----------------------------------------------------------------------
    def generate(self, rng: random.Random, tier: str) -> Iterable[Dict[str, Any]]:
        quick = tier == "quick"
        cases: List[Dict[str, Any]] = []
        # (a) conformance corpus
        feats = feature_cases()
        if quick:
            feats = rng.sample(feats, min(len(feats), 700))
        cases += feats
        # (b) type-directed random expressions
        n = 1100 if quick else 40000
        g = A.Gen(rng)
        for _ in range(n):
            d = rng.choice([1, 2, 2, 3, 3, 4, 4, 5, 6])
            cases.append({"kind": "expr", "ast": g.expr(d)})
        # (c) the model's fragment, denser (ints, bools, strings, lists, null; macros; absorbing contexts)
        gm = FragGen(rng)
        for _ in range(900 if quick else 20000):
            cases.append({"kind": "expr", "ast": gm.expr(rng.choice([1, 2, 3, 3, 4, 5]))})
        # (d) absorbing contexts around each error leaf
        for leaf in ERR_LEAVES:
            for ctx in CONTEXTS:
                cases.append({"kind": "text", "src": ctx.replace("@", "(" + leaf + ")"), "binds": "std", "package": None})
        # (d') literal spellings, alone and as an operand
        for t in literal_spellings(rng, 120 if quick else 1500):
            cases.append({"kind": "text", "src": t, "binds": {}, "package": None})
            cases.append({"kind": "text", "src": f"[{t}, {t}].exists(x, x == {t}) || {t} == {t}", "binds": {}, "package": None})
        # (d'') macro traversal: every macro over every sequence of element outcomes true/false/raises
        cases += macro_seq_cases(rng, quick)
        # (d3) identifier spellings and dotted (namespace) activations; (d4) histories on one program
        cases += name_cases(rng, quick)
        cases += dotted_cases(rng, quick)
        cases += hist_cases(rng, quick)
        # (d5) member access: every container kind x every kind of member value (null / false / zero / empty / missing)
        cases += select_cases(rng, quick)
        # (d6) overlapping names: every shape of the Referent an identifier resolves to (annotation / value / namespace)
        cases += overlap_cases(rng, quick)
        # (e) primitives on the model's pool (driver fidelity + laws)
        prims = []
        for op, (_fn, ar) in PRIM_OPS.items():
            for args in itertools.product(range(len(PRIM_POOL)), repeat=ar):
                prims.append({"kind": "prim", "op": op, "args": list(args)})
        cases += rng.sample(prims, 2500) if quick else prims
        # (f) primitive laws on the broad pool: every base function / operator
        laws = law_cases()
        cases += rng.sample(laws, 3000) if quick else laws
        return cases

    def search_cases(self, rng):
        g = A.Gen(rng)
        gm = FragGen(rng)
        for i in range(200000):
            yield {"kind": "expr", "ast": (g if i % 2 else gm).expr(rng.choice([1, 2, 3, 4, 5, 6]))}

    # -- implementation -------------------------------------------------------------------
    def _src_binds(self, c):
        if c["kind"] == "expr":
            return A.render(c["ast"]), std_bindings(), None
        b = c.get("binds")
        if b == "std":
            bd = std_bindings()
        else:
            # `bind_order`: the insertion order of the activation (replays are written with sorted keys)
            order = c.get("bind_order") or list(b or {})
            bd = {k: _eval_ctor((b or {})[k]) for k in order}
        return c["src"], bd, c.get("package")

    def _ast(self, c):
        if "_ast" in c:
            return c["_ast"]
        if c["kind"] == "expr":
            a = c["ast"]
        else:
            try:
                a = A.parse_text(c["src"])
            except A.Unsupported as ex:
                a = ["raw", c["src"], str(ex)]
            except Exception:
                a = ["raw", c["src"], "parse"]
        c["_ast"] = a
        return a

    def impl(self, c):
        if c["kind"] == "prim":
            return self._impl_prim(c)
        if c["kind"] == "law":
            return self._impl_law(c)
        if c["kind"] == "hist":
            with mem_cap():
                out = f"I={run_hist(c['srcs'], c['steps'], 'I')} || C={run_hist(c['srcs'], c['steps'], 'C')}"
            c["_impl"] = out
            return out
        src, bd, pkg = self._src_binds(c)
        an = {n: _eval_ctor(t) for n, t in (c.get("annots") or {}).items()} if c["kind"] == "text" else None
        with mem_cap():
            i = run_one(src, "I", bd, pkg, an)
            k = run_one(src, "C", bd, pkg, an)
        out = f"I={i} || C={k}"
        c["_impl"] = out
        return out

    def _impl_law(self, c):
        from celpy.evaluation import base_functions
        fn = base_functions[c["fn"]]
        args = [_eval_ctor(LAW_POOL[i]) for i in c["args"]]
        try:
            with mem_cap():
                v = fn(*args)
        except RecursionError:
            out = "raise RecursionError"
        except Exception as ex:  # noqa
            out = "raise " + "/".join(k.__name__ for k in type(ex).__mro__[:-2])
        else:
            out = "ok " + celrun.canon(v)
        c["_impl"] = out
        return out

    def _impl_prim(self, c):
        from celpy.evaluation import base_functions, CELEvalError
        fn = base_functions[PRIM_OPS[c["op"]][0]]
        args = [_eval_ctor(PRIM_POOL[i][1]) if PRIM_POOL[i][0] != "e" else CELEvalError("boom") for i in c["args"]]
        try:
            v = fn(*args)
        except Exception as ex:  # noqa
            out = "raise " + type(ex).__name__
        else:
            out = "ok " + celrun.canon(v)
        c["_impl"] = out
        return out

    # -- model -----------------------------------------------------------------------------
    def model_line(self, c):
        if c["kind"] in ("law", "hist"):
            return None
        if c["kind"] == "prim":
            return f"P {c['op']} {len(c['args'])} " + " ".join(PRIM_POOL[i][0] for i in c["args"])
        extra: Dict[str, str] = {}
        if c["kind"] == "text" and str(c.get("stream", "")).startswith("select:"):
            extra = SEL_MODEL_VARS          # the member-access stream binds maps the driver can represent
        elif c["kind"] == "text" and c.get("binds") != "std" and c.get("binds"):
            return None
        if c.get("package"):
            return None
        a = self._ast(c)
        # zone D62 (all()/exists() with a non-boolean body — ill-typed; the raw fold value leaks, a recorded finding): the Lean
        # primitives do not promise fidelity on what such a fold hands to an enclosing operator (thorough seed 2:
        # `(vz / vj in []) <= [-1].exists(x, x)` — both real runners agree, the model differed); the two real runners are
        # still compared by the oracle, only the model line is withheld
        try:
            if a[0] != "raw" and nonbool_macro_body(a):
                return None
        except Exception:
            pass
        try:
            return f"X {model_env(extra)} {model_expr(a, set(extra))}"
        except NotModelled:
            return None

    def model_expect(self, c, m):
        impl = c.get("_impl", "")
        if c["kind"] == "prim":
            return impl if m == "skip" else m
        mm = re.match(r"I=(\S+) C=(\S+)$", m)
        if not mm:
            return m
        i, k = split_io(impl)
        if i == "TIMEOUT" or k == "TIMEOUT":
            return impl
        mi, mk = mm.group(1), mm.group(2)
        # the model has no say where a primitive outside its concrete fragment was reached, nor on a result that
        # holds a map / a value of a kind the driver does not render (`map:?`, `?other`)
        ei = i if (mi == "skip" or "?" in mi) else mi
        ek = k if (mk == "skip" or "?" in mk) else mk
        # the model collapses every error to `err`; the implementation's escaping classes are C04's subject
        if ei == "err" and not is_value(i):
            ei = i
        if ek == "err" and not is_value(k):
            ek = k
        return f"I={ei} || C={ek}"

    # -- oracle ----------------------------------------------------------------------------
    def oracle(self, c, out):
        if c["kind"] == "prim":
            return self._oracle_prim(c, out)
        if c["kind"] == "law":
            return self._oracle_law(c, out)
        if c["kind"] == "hist":
            return self._oracle_hist(c, out)
        i, k = split_io(out)
        src = self._src_binds(c)[0]
        if i == "TIMEOUT" or k == "TIMEOUT":
            return None
        if i == "parse-error" or k == "parse-error":
            if i != k:
                return f"{src!r}: parse outcome differs between runner kinds: interpreter {i}, compiled {k}"
            return None
        if k.startswith("CONSTRUCT "):
            if is_value(i) or i == "err":
                return (f"{src!r}: the compiled runner fails at program-construction time ({k[10:]}) although the "
                        f"interpreter evaluates the expression (to {i})")
            return None
        oi = i if is_value(i) else "error"
        ok_ = k if is_value(k) else "error"
        if oi != ok_:
            return f"{src!r}: interpreter gives {i}, compiled runner gives {k}"
        return None

    def _oracle_hist(self, c, out):
        i, k = split_io(out)
        if k.startswith("CONSTRUCT ") or i.startswith("CONSTRUCT "):
            return None if i == k else f"{c['srcs']}: program construction differs: interpreter {i}, compiled {k}"
        for n, (oi, ok_) in enumerate(zip(i.split(";"), k.split(";"))):
            vi = oi if is_value(oi) else "error"
            vk = ok_ if is_value(ok_) else "error"
            if vi != vk:
                j, b = c["steps"][n]
                return (f"evaluation #{n + 1} of one program for {c['srcs'][j]!r} with activation {b} (after "
                        f"{[st[1] for st in c['steps'][:n]]}): interpreter gives {oi}, compiled runner gives {ok_}")
        return None

    def _oracle_law(self, c, out):
        """PrimLaws (hypotheses of Cel.Props.C03.evalC_eq_evalI) on the live base functions over LAW_POOL:
        caught / strict / noErrOut / cleanOut"""
        f = c["fn"]
        args = [LAW_POOL[i] for i in c["args"]]
        has_err = LAW_ERR in c["args"]
        tabs = handler_tables()
        if out.startswith("raise "):
            classes = out[6:].split("/")
            if not any(k in tabs["result"] for k in classes):
                return (f"base function {f!r} applied to {args} raises {classes[0]}, which result() does not convert: the compiled "
                        f"runner cannot absorb it in ||, &&, ?: although the interpreter (function_eval/operator rule) may")
            return None
        val = out[3:]
        if has_err:
            if f not in NONSTRICT_FUNS and val != "errvalue":
                return (f"base function {f!r} applied to {args} (an error object among the operands) returns the plain value {val}: "
                        f"not error-strict, so an error value produced by ||/&&/?: is silently consumed by the compiled runner")
            return None
        if val == "errvalue":
            if f not in ERR_SOURCES:
                return f"base function {f!r} applied to error-free operands {args} returns a CELEvalError object as a value"
            return None
        if "errvalue" in val:
            return f"base function {f!r} applied to error-free operands {args} returns a value containing an error object: {val}"
        return None

    def _oracle_prim(self, c, out):
        """PrimLaws on the pool (the hypotheses of evalC_eq_evalI), checked on the live primitives:
        (1) a raised class is caught by the interpreter rule that applies the primitive and by result();
        (2) with an error-object operand, a strict primitive yields an error (value or raised), never a plain value."""
        op = c["op"]
        toks = [PRIM_POOL[i][0] for i in c["args"]]
        tabs = handler_tables()
        if out.startswith("raise "):
            cls = out[6:]
            rule = PRIM_RULE[op]
            if not _caught(cls, tabs["handlers"].get(rule, [])):
                return f"primitive {op}{toks} raises {cls}, which Evaluator.{rule} does not catch (escapes the interpreter)"
            if not _caught(cls, tabs["result"]):
                return f"primitive {op}{toks} raises {cls}, which result() does not convert (compiled `||` cannot absorb it)"
            return None
        if "e" in toks and op in STRICT_OPS and out != "ok errvalue":
            return f"primitive {op}{toks} with an error operand returns the plain value {out[3:]} (not error-strict)"
        return None

    def nontrivial(self, c, out):
        if c["kind"] == "law":
            return LAW_ERR in c["args"] or out.startswith("raise")
        if c["kind"] == "prim":
            return "e" in [PRIM_POOL[i][0] for i in c["args"]] or out.startswith("raise")
        if c["kind"] == "hist":
            return len(set(json.dumps(st[1], sort_keys=True) for st in c["steps"])) > 1
        a = self._ast(c)
        if a[0] == "raw":
            return "err" in out or "EXC" in out
        ks = A.kinds(a)
        return bool(ks & {"or", "and", "cond", "macro", "has"}) or " err" in out or "=err" in out or "EXC" in out

    # -- the syntactic zone predicate exists twice (Python, Lean): keep them equal -----------------------------
    def extra_checks(self, tier, rng):
        from ..core import run_driver, driver_available
        if not driver_available(self.pid):
            return []
        g, gm = A.Gen(rng), FragGen(rng)
        asts = [(g if i % 3 else gm).expr(rng.choice([1, 2, 3, 4, 5])) for i in range(1500 if tier == "quick" else 20000)]
        for c in corpus_asts():
            asts.append(c)
        lines, keep = [], []
        for a in asts:
            try:
                lines.append("S " + syntax_expr(a))
                keep.append(a)
            except NotModelled:
                pass
        outs = run_driver(self.pid, lines)
        bad = [(A.render(a), o, safe(a)) for a, o in zip(keep, outs) if o != ("safe" if safe(a) else "unsafe")]
        res = [{"name": "safe-predicate-python-equals-lean", "ok": not bad,
                "detail": f"{len(keep)} expressions classified by Expr.safe (Lean) and safe() (Python); "
                          + (f"{len(bad)} differ, first: {bad[0]}" if bad else "all equal"),
                "case": {"kind": "text", "src": bad[0][0], "binds": "std", "package": None} if bad else {}}]
        return res

    # -- known findings --------------------------------------------------------------------
    def known_preds(self):
        def io(c):
            return split_io(c.get("_impl") or self.impl(c))

        def ast(c):
            return self._ast(c)

        def has_pybool(c):
            if c["kind"] in ("prim", "law", "hist"):
                return False
            return "has" in A.kinds(ast(c)) or (c["kind"] == "text" and "has(" in c["src"])

        def error_value_consumer(c):
            if c["kind"] in ("prim", "law", "hist"):
                return False
            i, k = io(c)
            return bool(unsafe_sites(ast(c))) and not is_value(i) and is_value(k)

        def interp_escape(c):
            if c["kind"] in ("prim", "law", "hist"):
                return False
            i, _k = io(c)
            return i.startswith("EXC ") and i != "EXC RecursionError"

        def outside_builtin_syntax(c):
            return c["kind"] not in ("prim", "law", "hist") and ast(c)[0] == "raw" and ast(c)[2] != "parse"

        def python_name_clash(c):
            if c["kind"] in ("prim", "law", "hist"):
                return False
            a = ast(c)
            if a[0] == "raw":
                return bool(set(re.findall(r"[A-Za-z_][A-Za-z0-9_]*", a[1])) & A.ACTIVATION_ATTRS)
            return bool(python_hostile_names(a))

        def macro_nonbool_body(c):
            return c["kind"] not in ("prim", "law", "hist") and ast(c)[0] != "raw" and nonbool_macro_body(ast(c))

        def function_object_value(c):
            if c["kind"] == "law":
                # operator.getitem applied to a type object and an error object: typing.GenericAlias
                return c["fn"] == "_[_]" and LAW_POOL[c["args"][0]] in ("celpy.celtypes.IntType", "celpy.celtypes.ListType")
            if c["kind"] in ("prim", "hist"):
                return False
            a = ast(c)
            if a[0] == "raw":
                return False
            b = c.get("binds")
            bound = set(A.VARS) if (c["kind"] == "expr" or b == "std") else set((b or {}).keys())
            return function_object_used(a, bound)

        def dotted_binding_shadowed(c):
            if c["kind"] != "text" or not isinstance(c.get("binds"), dict):
                return False
            a = ast(c)
            if a[0] == "raw":
                return False
            heads = {k.split(".")[0] for k in c["binds"] if "." in k}
            return any(n[0] == "macro" and n[3] in heads for n in A.walk(a))

        return {"has_pybool": has_pybool, "error_value_consumer": error_value_consumer, "interp_escape": interp_escape,
                "outside_builtin_syntax": outside_builtin_syntax, "python_name_clash": python_name_clash,
                "macro_nonbool_body": macro_nonbool_body, "function_object_value": function_object_value,
                "dotted_binding_shadowed": dotted_binding_shadowed}


def corpus_asts() -> List[Any]:
    out = []
    from ..core import corpus_cases
    for c in corpus_cases("C03"):
        if c.get("kind") == "text":
            try:
                out.append(A.parse_text(c["src"]))
            except Exception:
                pass
    return out


# ------------------------------------------------------------------------------------------
# prim-law tables extracted from the source
# ------------------------------------------------------------------------------------------

PRIM_RULE = {"neg": "unary", "not": "unary", "add": "addition", "sub": "addition", "mul": "multiplication", "div": "multiplication",
             "mod": "multiplication", "lt": "relation", "le": "relation", "gt": "relation", "ge": "relation", "eq": "relation",
             "ne": "relation", "in": "relation", "index": "member_index", "size": "function_eval", "lor": "conditionalor",
             "land": "conditionaland"}
STRICT_OPS = {"neg", "not", "add", "sub", "mul", "div", "mod", "lt", "le", "gt", "ge", "eq", "ne", "in", "index", "size"}
_SUBCLASS = {"UnicodeDecodeError": "ValueError", "ParserError": "ValueError", "ZeroDivisionError": "ArithmeticError",
             "OverflowError": "ArithmeticError", "KeyError": "LookupError", "IndexError": "LookupError"}
_TABLES: Dict[str, Any] = {}


def handler_tables() -> Dict[str, Any]:
    if _TABLES:
        return _TABLES
    from ..translate.gen_c03 import extract_tables
    _TABLES.update(extract_tables())
    return _TABLES


def _caught(cls: str, handlers: List[str]) -> bool:
    c = cls
    while c:
        if c in handlers or "Exception" in handlers:
            return True
        c = _SUBCLASS.get(c)
    return False


# ------------------------------------------------------------------------------------------
# fragment generator (what the Lean driver can evaluate) and absorbing contexts
# ------------------------------------------------------------------------------------------

ERR_LEAVES = ["1/0", "1 % 0", "[1][5]", "[1][-1]", "{}.a", "{'a': 1}['b']", "nosuch", "'a' < 1", "int('x')", "9223372036854775807 + 1",
              "-(-9223372036854775807 - 1)", "1 .foo", "timestamp('x')", "duration('x')", "[1].map(x, x/0)", "[1].filter(x, x/0 > 0)",
              "[1, 2].exists_one(x, x/0 > 0)", "size(1)", "'abc'.matches('(')", "bytes('a') + 1", "[1, 2][1.5]", "{1: 2}[true]",
              "vl[vi]", "vm.zz", "vs.size().a", "uint(-1)", "double('x')", "bool('x')", "string(b'\\xff')", "9223372036854775808",
              "18446744073709551616u", "{1: 1, 1: 2}", "{[1]: 1}", "1 in 1", "vn.a", "vt + vt", "[1] < [2]", "-vb", "!vi",
              "(1/0 > 0 || false)", "[vs].all(s, s / 1 > 0)", "getDate(1)", "vt.getHours('nowhere')", "x_undefined.f", "f_undefined(1)",
              "1.f_undefined()", "[[1].map(x, x/0)].all(z, true)", "[1, 'a'].exists(x, x > 0 && false)"]
CONTEXTS = ["@", "true || @ == 1", "@ == 1 || true", "false && @ == 1", "@ == 1 && false", "false || @ == 1", "true && @ == 1",
            "true ? 1 : @", "false ? @ : 2", "(@ == 1) ? 1 : 2", "[1, 2].exists(i, i == 2 || @ == 1)", "[1, 2].all(i, i == 1 && @ == 1)",
            "[@ == 1 || true]", "type(@)", "!(@ == 1) || true", "[0].map(i, true || @ == 1)", "[0].filter(i, true || @ == 1)",
            "{'k': true || @ == 1}", "size([@]) > 0 || true", "dyn(@) == dyn(@) || true", "[1].exists_one(i, true || @ == 1)"]


# ------------------------------------------------------------------------------------------
# macro traversal stream (round 2): WHERE in the source an element decides / fails.
# The two runners implement the five macros twice (Evaluator.member_dot_arg vs. the `macro_*` helpers the
# transpiled text calls).  Whether they agree depends on the ORDER of element outcomes, not on the elements: a helper
# that stops early (a second match of exists_one, the first true of exists, …), skips, re-orders or evaluates lazily
# behaves the same on sources without a failing element.  So every macro is run over every sequence of element
# outcomes T (predicate true) / F (false) / E (predicate raises) up to a length, for several ways of raising.
# ------------------------------------------------------------------------------------------

def _i(n: int) -> Any:
    return ["lit", "int", str(n)]


def _s(t: str) -> Any:
    return ["lit", "string", "'" + t + "'"]


_X = ["id", "x"]
# style -> (predicate body over x, value body over x (map), {T: elems, F: elems, E: elems})
SEQ_STYLES: Dict[str, Any] = {
    # ZeroDivisionError
    "div": (["bin", ">", ["bin", "/", _i(7), _X], _i(0)], ["bin", "/", _i(7), _X],
            {"T": [_i(1), _i(2), _i(7)], "F": [_i(-1), _i(-3), _i(8)], "E": [_i(0)]}),
    # TypeError ("no such overload") on a heterogeneous source
    "mod": (["bin", "==", ["bin", "%", _X, _i(2)], _i(0)], ["bin", "%", _X, _i(2)],
            {"T": [_i(2), _i(4), _i(0)], "F": [_i(1), _i(3), _i(-1)], "E": [_s("six"), ["lit", "null", "null"], ["list", [_i(1)]]]}),
    # IndexError
    "idx": (["bin", ">", ["idx", ["id", "vl"], _X], _i(0)], ["idx", ["id", "vl"], _X],
            {"T": [_i(0), _i(1)], "F": [_i(2)], "E": [_i(3), _i(-1), _i(99)]}),
    # overflow (ValueError)
    "ovf": (["bin", ">", ["bin", "*", _X, _i(2)], _i(0)], ["bin", "*", _X, _i(2)],
            {"T": [_i(1), _i(3)], "F": [_i(-1), _i(0)], "E": [["id", "vmax"], _i(9223372036854775807), _i(-9223372036854775807)]}),
    # TypeError of an ordering relation
    "cmp": (["bin", "<", _X, _i(2)], ["bin", "-", _X, _i(2)],
            {"T": [_i(1), _i(0), _i(-3)], "F": [_i(2), _i(7)], "E": [_s("a"), _s(""), ["list", []]]}),
}
SEQ_CONTEXTS_BOOL = ["@", "@", "@", "cond", "not", "eq", "listed", "nested"]
SEQ_CONTEXTS_LIST = ["@", "@", "@", "size", "idx0", "nested"]


def seq_case(rng: random.Random, macro: str, style: str, seq: str, ctx: Optional[str] = None, var: str = "x") -> Dict[str, Any]:
    pred, val, elems = SEQ_STYLES[style]
    src = ["list", [rng.choice(elems[k]) for k in seq]]
    body = val if macro == "map" else pred
    if var != "x":
        body = json.loads(json.dumps(body).replace('["id", "x"]', json.dumps(["id", var])))
    m: Any = ["macro", macro, src, var, body]
    boolm = macro in ("all", "exists", "exists_one")
    if ctx is None:
        ctx = rng.choice(SEQ_CONTEXTS_BOOL if boolm else SEQ_CONTEXTS_LIST)
    if ctx == "cond":
        m = ["cond", m, _s("one"), _s("not one")]
    elif ctx == "not":
        m = ["un", "!", m]
    elif ctx == "eq":
        m = ["bin", "==", m, ["lit", "bool", "true"]]
    elif ctx == "listed":
        m = ["list", [m, ["lit", "bool", "false"]]]
    elif ctx == "size":
        m = ["call", "size", [m]]
    elif ctx == "idx0":
        m = ["idx", m, _i(0)]
    elif ctx == "nested":
        # the macro as the body of an outer macro whose source has two elements: the inner traversal runs twice
        m = ["macro", "map" if not boolm else rng.choice(["all", "exists", "filter", "map"]), ["list", [_i(1), _i(2)]], "y", m]
    return {"kind": "expr", "ast": m, "stream": f"seq:{macro}:{style}:{seq or '-'}"}


def macro_seq_cases(rng: random.Random, quick: bool) -> List[Dict[str, Any]]:
    out = []
    styles = sorted(SEQ_STYLES)
    full = 3 if quick else 4
    seqs = [""] + ["".join(p) for n in range(1, full + 1) for p in itertools.product("TFE", repeat=n)]
    for macro in A.MACROS:
        for seq in seqs:
            for st in (rng.sample(styles, 2) if quick else styles):
                out.append(seq_case(rng, macro, st, seq, ctx="@" if rng.random() < 0.6 else None))
    # longer sources: random outcome sequences, matches before / after / between failing elements
    for _ in range(250 if quick else 3000):
        n = rng.randint(full + 1, full + 3)
        seq = "".join(rng.choice("TTFFE") for _ in range(n))
        out.append(seq_case(rng, rng.choice(A.MACROS), rng.choice(styles), seq, var=rng.choice(["x", "x", "e", "it"])))
    return out


# ------------------------------------------------------------------------------------------
# histories (round 2): ONE Environment, its programs built once, evaluated over a SEQUENCE of activations.
# The property quantifies over every activation; a compiled program that keeps state between evaluations (a reused
# working activation, a memo of resolved names, …) differs from the interpreter only on the 2nd, 3rd … evaluation.
# ------------------------------------------------------------------------------------------

HIST_VALUES = {"a": ["celpy.celtypes.IntType(1)", "celpy.celtypes.IntType(5)", "celpy.celtypes.StringType('s')"],
               "b": ["celpy.celtypes.IntType(2)", "celpy.celtypes.IntType(0)", "celpy.celtypes.BoolType(True)"],
               "m.k": ["celpy.celtypes.IntType(3)", "celpy.celtypes.IntType(4)"],
               "m.j": ["celpy.celtypes.IntType(9)"]}
HIST_SRCS = ["a", "b", "a + b", "a > 0 || b > 0", "b > 0 && a > 0", "[a].exists(x, x == b)", "[1, 2].map(x, x + a)", "a == b ? a : b",
             "m.k", "m.j", "m.k + a", "[a, b]", "true || a > 0", "[1, 2].filter(x, x > b)", "size([a]) + b", "m.k > 0 ? m.j : a"]


def hist_cases(rng: random.Random, quick: bool) -> List[Dict[str, Any]]:
    out = []
    names = sorted(HIST_VALUES)
    for _ in range(60 if quick else 1500):
        srcs = rng.sample(HIST_SRCS, rng.choice([1, 1, 2]))
        steps = []
        for _k in range(rng.randint(2, 5)):
            if rng.random() < 0.12:
                chosen = []
            else:
                chosen = [n for n in names if rng.random() < 0.55]
            steps.append([rng.randrange(len(srcs)), {n: rng.choice(HIST_VALUES[n]) for n in chosen}])
        out.append({"kind": "hist", "srcs": srcs, "steps": steps})
    return out


def run_hist(srcs: List[str], steps: List[Any], runner: str) -> str:
    """outcomes of the steps, `;`-joined, on programs that are built once per source in one Environment"""
    import celpy
    from celpy.evaluation import CELEvalError
    try:
        env = celpy.Environment(runner_class=celrun.RUNNERS[runner])
        progs = [env.program(env.compile(s)) for s in srcs]
    except Exception as ex:  # noqa
        return f"CONSTRUCT {type(ex).__name__}"
    outs = []
    for i, b in steps:
        try:
            outs.append(celrun.canon(progs[i].evaluate({k: _eval_ctor(v) for k, v in b.items()})))
        except CELEvalError:
            outs.append("err")
        except RecursionError:
            outs.append("EXC RecursionError")
        except Exception as ex:  # noqa
            outs.append(f"EXC {type(ex).__name__}")
    return ";".join(outs)


# ------------------------------------------------------------------------------------------
# names (round 2): how an identifier is pasted into / looked up by the transpiled text depends on its SPELLING
# (Python keywords, soft keywords, builtins, names the transpiled module itself uses) and on the SHAPE of the
# activation (dotted names make the head a namespace whose members are looked up by NameContainer methods).
# ------------------------------------------------------------------------------------------

def name_pool() -> List[str]:
    import keyword
    soft = list(getattr(keyword, "softkwlist", []))
    cel_reserved = ["as", "break", "const", "continue", "else", "for", "function", "if", "import", "in", "let", "loop", "package",
                    "namespace", "return", "var", "void", "while"]
    pythonish = ["print", "len", "self", "activation", "celpy", "CEL", "base_activation", "result", "ex_0", "ex_0_l", "__class__",
                 "__dict__", "_", "__", "int_", "None_", "vars", "value", "items", "keys", "parent", "name", "x1", "Activation"]
    seen, out = set(), []
    for n in list(keyword.kwlist) + soft + cel_reserved + pythonish:
        if n not in seen:
            seen.add(n)
            out.append(n)
    return out


NAME_TEMPLATES = [("@ + 1", True), ("[1, 2, 3].filter(@, @ > 1)", False), ("@ > 1 || true", False), ("[@, 1]", True),
                  ("[1, 2].map(@, @ * 2)", False), ("[3].exists_one(@, @ == 3) ? @ : 0", True), ("{'k': @}.k", True)]


def name_cases(rng: random.Random, quick: bool) -> List[Dict[str, Any]]:
    out = []
    for n in name_pool():
        tmpls = rng.sample(NAME_TEMPLATES, 3) if quick else NAME_TEMPLATES
        for t, bound in tmpls:
            out.append({"kind": "text", "src": t.replace("@", n), "binds": {n: "celpy.celtypes.IntType(7)"} if bound else {},
                        "package": None, "stream": "name"})
    return out


DOTTED_BINDS = {"cfg.limit": "celpy.celtypes.IntType(10)", "cfg.name": "celpy.celtypes.StringType('n')",
                "cfg.sub.deep": "celpy.celtypes.IntType(1)", "top": "celpy.celtypes.IntType(3)",
                "cfg.tags": "celpy.celtypes.ListType([celpy.celtypes.IntType(1)])"}
DOTTED_REFS = ["cfg.limit", "cfg.name", "cfg.sub.deep", "cfg.tags", "top", "cfg.burst", "cfg.sub.nope", "cfg.limit.x", "cfg.nope.deeper",
               "top.x", "other.limit", "cfg.sub", "cfg"]
DOTTED_CONTEXTS = ["@", "@ == null", "[cfg.limit, @]", "@ == 1 || true", "true || @ == 1", "@ == 1 || false", "[1].map(x, @)",
                   "cfg.sub.deep == 1 ? @ : 0", "size([@])", "{'k': @}", "[1, 2].all(x, @ == x || true)", "@ + top", "dyn(@)", "type(@)"]


def dotted_cases(rng: random.Random, quick: bool) -> List[Dict[str, Any]]:
    out = []
    for ref in DOTTED_REFS:
        for ctx in (rng.sample(DOTTED_CONTEXTS, 4) + ["@"] if quick else DOTTED_CONTEXTS):
            out.append({"kind": "text", "src": ctx.replace("@", ref), "binds": dict(DOTTED_BINDS), "package": None, "stream": "dotted"})
    return out


# ------------------------------------------------------------------------------------------
# member access (round 3): field selection `e.f` is implemented twice with DIFFERENT container primitives — the
# interpreter's member_dot uses `e["f"]` / `name in container`, the transpiled text calls `e.get('f')` (MapType.get,
# NameContainer.get).  Whether the two primitives agree depends on the member's VALUE, not on the expression: a lookup
# written with a sentinel (`if value is None`, `value or default`, `if not value`) is right for every ordinary entry and
# every missing one and wrong for a present entry that is null / false / 0 / empty.  So every kind of container is
# selected from for every kind of member value — each CEL type's empty / zero inhabitant and an ordinary one, and a
# missing member — in every kind of context.
# ------------------------------------------------------------------------------------------

_CT = "celpy.celtypes."
# field name -> (python constructor, CEL literal spelling or None, JSON text or None)
SEL_VALUES: Dict[str, Any] = {
    "nul": ("None", "null", "null"),
    "bf": (_CT + "BoolType(False)", "false", "false"),
    "bt": (_CT + "BoolType(True)", "true", "true"),
    "iz": (_CT + "IntType(0)", "0", "0"),
    "ip": (_CT + "IntType(7)", "7", "7"),
    "uz": (_CT + "UintType(0)", "0u", None),
    "dz": (_CT + "DoubleType(0.0)", "0.0", "0.0"),
    "dn": (_CT + "DoubleType(float('nan'))", None, None),
    "se": (_CT + "StringType('')", "''", '""'),
    "sx": (_CT + "StringType('x')", "'x'", '"x"'),
    "be": (_CT + "BytesType(b'')", "b''", None),
    "le": (_CT + "ListType([])", "[]", "[]"),
    "ln": (_CT + "ListType([None])", "[null]", "[null]"),
    "me": (_CT + "MapType({})", "{}", "{}"),
    "mn": (_CT + "MapType({" + _CT + "StringType('k'): None})", "{'k': null}", '{"k": null}'),
    "d0": (_CT + "DurationType('0s')", "duration('0s')", None),
    "t0": (_CT + "TimestampType('1970-01-01T00:00:00Z')", "timestamp('1970-01-01T00:00:00Z')", None),
}
SEL_MISSING = "nope"          # a member no container has
# the same values for the Lean driver (`o <n>` = a value of a kind outside its concrete fragment)
SEL_MODEL_TOKENS = {"nul": "n", "bf": "b 0", "bt": "b 1", "iz": "i 0", "ip": "i 7", "uz": "o 1", "dz": "o 2", "dn": "o 3", "se": "s _",
                    "sx": "s x", "be": "o 4", "le": "l 0", "ln": "l 1 n", "me": "m 0", "mn": "m 1 s k n", "d0": "o 5", "t0": "o 6"}


def _sel_map_ctor(names: List[str]) -> str:
    return _CT + "MapType({" + ", ".join(f"{_CT}StringType('{n}'): {SEL_VALUES[n][0]}" for n in names) + "})"


def sel_binds() -> Dict[str, str]:
    names = list(SEL_VALUES)
    jnames = [n for n in names if SEL_VALUES[n][2] is not None]
    b = {"sm": _sel_map_ctor(names),
         "sn": _CT + "MapType({" + _CT + "StringType('inner'): " + _sel_map_ctor(names) + "})",
         "sl": _CT + "ListType([" + _sel_map_ctor(names) + "])",
         "smsg": _CT + "MessageType(" + _sel_map_ctor(names) + ")",
         "sj": "celpy.json_to_cel(__import__('json').loads('{" + ", ".join(f'"{n}": {SEL_VALUES[n][2]}' for n in jnames) + "}'))"}
    for n in names:
        b["sns." + n] = SEL_VALUES[n][0]          # a namespace of dotted activation names
    return b


def _sel_model_map(names: List[str]) -> str:
    return f"m {len(names)} " + " ".join(f"s {n} {SEL_MODEL_TOKENS[n]}" for n in names)


# bindings of the stream the driver can represent (not: the message object, the namespace — `selectI`/`selectC` model maps)
SEL_MODEL_VARS = {"sm": _sel_model_map(list(SEL_VALUES)),
                  "sn": "m 1 s inner " + _sel_model_map(list(SEL_VALUES)),
                  "sl": "l 1 " + _sel_model_map(list(SEL_VALUES)),
                  "sj": _sel_model_map([n for n in SEL_VALUES if SEL_VALUES[n][2] is not None]),
                  "bt_": "b 1"}

# how the container is reached (@F = the selected field: literal maps hold that one entry and an ordinary one)
SEL_CONTAINERS = {"var": "sm", "nested": "sn.inner", "elem": "sl[0]", "json": "sj", "dyn": "dyn(sm)", "cond": "(bt_ ? sm : sn)",
                  "msg": "smsg", "lit": "{'@F': @V, 'other': 1}", "ns": "sns"}
SEL_TEMPLATES = ["@M.@F", "@M.@F == null", "@M.@F == @M.@F", "[@M.@F]", "{'k': @M.@F}", "@M.@F == null ? 'null' : 'other'",
                 "true || @M.@F == 1", "@M.@F == 1 || true", "@M.@F == null && true", "false || @M.@F == null",
                 "[@M].exists(e, e.@F == null)", "[@M, @M].map(e, e.@F)", "[@M].filter(e, e.@F == e.@F)", "[1, 2].all(i, @M.@F == null || i > 0)",
                 "type(@M.@F)", "dyn(@M.@F)", "size([@M.@F])", "@M.@F.k"]
# the same member by index (maps only: the interpreter reaches `e.f` and `e['f']` by the same primitive)
SEL_TEMPLATES_IDX = ["@M['@F']", "@M.@F == @M['@F']", "'@F' in @M"]
# what a namespace of dotted names supports (it is not a CEL value: no index, no macro over it)
SEL_TEMPLATES_NS = [t for t in SEL_TEMPLATES if "[@M" not in t]


def select_cases(rng: random.Random, quick: bool) -> List[Dict[str, Any]]:
    out = []
    binds = sel_binds()
    binds["bt_"] = _CT + "BoolType(True)"
    for cname, cexpr in SEL_CONTAINERS.items():
        for f in list(SEL_VALUES) + [SEL_MISSING]:
            lit = SEL_VALUES[f][1] if f in SEL_VALUES else None
            if cname == "lit":
                if f == SEL_MISSING:
                    m = "{'other': 1}"
                elif lit is None:
                    continue
                else:
                    m = cexpr.replace("@V", lit)
            elif cname == "json" and f in SEL_VALUES and SEL_VALUES[f][2] is None:
                continue
            else:
                m = cexpr
            pool = SEL_TEMPLATES_NS if cname == "ns" else SEL_TEMPLATES + SEL_TEMPLATES_IDX
            tmpls = (["@M.@F"] + rng.sample(pool[1:], 2)) if quick else pool
            for t in tmpls:
                src = t.replace("@M", m).replace("@F", f)
                out.append({"kind": "text", "src": src, "binds": dict(binds), "package": None, "stream": f"select:{cname}:{f}"})
    return out

# ------------------------------------------------------------------------------------------
# overlapping names (round 4): an identifier is resolved twice — the interpreter calls Activation.resolve_variable, the
# transpiled text `activation.<x>` / `activation.get('<x>')` calls Activation.__getattr__; members of a namespace go
# through member_dot vs. NameContainer.get.  Both end in a `Referent` with three independent slots: an annotation, a
# value, and a nested namespace (the dotted names below it); the longest-name rule prefers the namespace.  With
# activations that bind unrelated names every Referent is "value only", where any reading of the slots agrees.  So
# the SHAPE of the Referent is generated: names that are proper dotted prefixes of other bound names (value +
# namespace, either insertion order, at the head and one level down, under a package), a map value that has the
# competing member itself, annotations for the name / a longer name / a sibling, the container (package) of the
# Environment — and every name is referenced at every length, in plain and absorbing contexts.
# ------------------------------------------------------------------------------------------

def _ov_map(**kw: str) -> str:
    return _CT + "MapType({" + ", ".join(f"{_CT}StringType('{k}'): {v}" for k, v in kw.items()) + "})"


def _ov_int(n: int) -> str:
    return f"{_CT}IntType({n})"


OVERLAP_VALUES: Dict[str, List[str]] = {
    "a": [_ov_int(7), _ov_map(b=_ov_int(20), d=_ov_int(21)), _ov_map(b=_ov_map(c=_ov_int(22))), "None"],
    "a.b": [_ov_int(1), _ov_map(c=_ov_int(30), d=_ov_int(31))],
    "a.b.c": [_ov_int(4)],
    "a.d": [_ov_int(5)],
    "p.a": [_ov_int(8), _ov_map(b=_ov_int(40))],
    "p.a.b": [_ov_int(9)],
}
# pairs (shorter, longer) of names where the shorter is a proper dotted prefix of the longer
OVERLAP_PAIRS = [(s, l) for s in OVERLAP_VALUES for l in OVERLAP_VALUES if l.startswith(s + ".")]
OVERLAP_REFS = ["a", "a.b", "a.b.c", "a.d", "a.b.d", "a.z", "p.a", "p.a.b", ".a.b"]
OVERLAP_CONTEXTS = ["@", "@", "[1].map(x, @)", "[@, 0]", "@ == 1 || true", "true || @ == 1", "@ == 1 || false", "{'k': @}",
                    "@ == 4 ? 'y' : 'n'", "size([@])", "dyn(@)", "[1, 2].exists(x, @ == x)", "@ + 1", "type(@)"]
OVERLAP_ANNOTS: List[Dict[str, str]] = [{}, {}, {"a": _CT + "IntType"}, {"a.b": _CT + "IntType"}, {"a.q": _CT + "IntType"},
                                        {"a": _CT + "MapType", "a.b.c": _CT + "IntType"}]
OVERLAP_PACKAGES = [None, None, None, "p", "a", "p.a"]


def _overlap_case(src: str, items: List[Any], annots: Dict[str, str], package: Optional[str], tag: str) -> Dict[str, Any]:
    c: Dict[str, Any] = {"kind": "text", "src": src, "binds": dict(items), "bind_order": [n for n, _v in items],
                         "package": package, "stream": "overlap:" + tag}
    if annots:
        c["annots"] = dict(annots)
    return c


def overlap_cases(rng: random.Random, quick: bool) -> List[Dict[str, Any]]:
    out = []
    # (1) every prefix pair x every choice of values x both insertion orders (optionally with a third name):
    #     the longer name, the shorter name, and sampled other references / contexts
    for short, long_ in OVERLAP_PAIRS:
        for vs, vl in itertools.product(OVERLAP_VALUES[short], OVERLAP_VALUES[long_]):
            for rev in (False, True):
                items = [(short, vs), (long_, vl)]
                if rev:
                    items.reverse()
                refs = [long_, short] + (rng.sample(OVERLAP_REFS, 2) if quick else OVERLAP_REFS)
                for n, ref in enumerate(refs):
                    ctxs = ["@"] if (quick and n < 2) else ([rng.choice(OVERLAP_CONTEXTS)] if quick else OVERLAP_CONTEXTS[1:])
                    for ctx in ctxs:
                        out.append(_overlap_case(ctx.replace("@", ref), items, {}, None, f"{short}+{long_}"))
    # (2) random shapes: 1-4 bound names, any order, annotations, package
    names = list(OVERLAP_VALUES)
    for _ in range(220 if quick else 12000):
        sub = rng.sample(names, rng.choice([1, 2, 2, 3, 3, 4]))
        items = [(n, rng.choice(OVERLAP_VALUES[n])) for n in sub]
        out.append(_overlap_case(rng.choice(OVERLAP_CONTEXTS).replace("@", rng.choice(OVERLAP_REFS)), items,
                                 rng.choice(OVERLAP_ANNOTS), rng.choice(OVERLAP_PACKAGES), "random"))
    return out


class FragGen:
    """expressions inside the Lean driver's fragment: int/bool/string/list/null values, all operators, ?: || &&,
    list literals, index, size, the five macros, dyn — well-typed and ill-typed"""

    def __init__(self, rng: random.Random):
        self.rng = rng
        self.scope: List[str] = []

    def expr(self, d: int) -> Any:
        return self.g(self.rng.choice(["int", "bool", "bool", "list", "any"]), d)

    def leaf(self, t: str) -> Any:
        r = self.rng
        if self.scope and r.random() < 0.45:
            return ["id", r.choice(self.scope)]
        if t == "any":
            t = r.choice(["int", "bool", "list", "str", "null"])
        if t == "int":
            return r.choice([["lit", "int", r.choice(["0", "1", "2", "3", "7", "-1", "9223372036854775807", "-9223372036854775808", "0x10", "9223372036854775808"])],
                             ["id", r.choice(["vi", "vj", "vz", "vmax"])]])
        if t == "bool":
            return r.choice([["lit", "bool", "true"], ["lit", "bool", "false"], ["id", "vb"], ["id", "vf"]])
        if t == "str":
            return r.choice([["lit", "string", "'a'"], ["lit", "string", "''"], ["lit", "string", '"ab"'], ["id", "vs"], ["id", "ve"]])
        if t == "null":
            return r.choice([["lit", "null", "null"], ["id", "vn"]])
        return r.choice([["id", "vl"], ["id", "vle"], ["id", "vls"], ["id", "vlm"], ["list", [self.leaf("int") for _ in range(r.randint(0, 3))]]])

    def g(self, t: str, d: int) -> Any:
        r = self.rng
        if r.random() < 0.12:      # ill-typed injection
            t = r.choice(["int", "bool", "list", "str", "null", "any"])
        if d <= 0 or r.random() < 0.1:
            return self.leaf(t)
        d -= 1
        if t == "any":
            t = r.choice(["int", "bool", "list"])
        if t == "int":
            k = r.choice(["arith", "arith", "arith", "neg", "idx", "size", "cond", "dyn"])
            if k == "arith":
                return ["bin", r.choice(A.ARITH), self.g("int", d), self.g("int", d)]
            if k == "neg":
                return ["un", "-", self.g("int", d)]
            if k == "idx":
                return ["idx", self.g("list", d), self.g("int", min(d, 1))]
            if k == "size":
                a = self.g(r.choice(["list", "str", "list", "null", "int"]), d)
                return ["call", "size", [a]] if r.random() < 0.5 else ["mcall", a, "size", []]
        elif t == "bool":
            k = r.choice(["rel", "rel", "rel", "or", "or", "and", "and", "not", "macro", "macro", "macro", "in", "cond", "dyn"])
            if k == "rel":
                ot = r.choice(["int", "int", "int", "bool", "str", "list", "null"])
                return ["bin", r.choice(["<", "<=", ">", ">=", "==", "!="]), self.g(ot, d), self.g(ot, d)]
            if k == "in":
                return ["bin", "in", self.g("int", d), self.g("list", d)]
            if k in ("or", "and"):
                return [k, self.g("bool", d), self.g("bool", d)]
            if k == "not":
                return ["un", "!", self.g("bool", d)]
            if k == "macro":
                return self.macro(r.choice(["all", "exists", "exists_one"]), "bool", d)
        elif t == "list":
            k = r.choice(["lit", "lit", "map", "map", "filter", "filter", "cond", "dyn"])
            if k == "lit":
                return ["list", [self.g(r.choice(["int", "int", "bool"]), d) for _ in range(r.randint(0, 3))]]
            if k == "map":
                return self.macro("map", r.choice(["int", "int", "bool", "list"]), d)
            if k == "filter":
                return self.macro("filter", "bool", d)
        else:
            return self.leaf(t)
        if k == "cond":
            return ["cond", self.g("bool", d), self.g(t, d), self.g(t, d)]
        return ["dyn", self.g(t, d)]

    def macro(self, kind, body_t, d):
        recv = self.g("list", d)
        var = self.rng.choice(["x", "y", "x", "e"])
        self.scope.append(var)
        try:
            body = self.g(body_t, d)
        finally:
            self.scope.pop()
        return ["macro", kind, recv, var, body]


PROP = C03()
