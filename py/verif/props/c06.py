"""C06 — parser implements CEL precedence and associativity; AST dump round-trips.

Cases are CEL expressions as explicit syntax trees *with parenthesis nodes* (JSON lists, the same
constructors as `Cel.Grammar.PExpr`).  The harness renders them to text itself (random blanks,
newlines and `//` comments between tokens), runs the real parser and `tree_dump`, and compares with
the Lean model (`toTree`, `strip`, `dump`, checked `parse`).  The oracle is independent of both: its
own CEL level table decides where parentheses are needed, its own fully parenthesised text and its
own abstract tree are what the real parser's answers are measured against.
"""
from __future__ import annotations
import itertools
import random
from typing import Any, Dict, Iterable, List, Optional, Tuple

from ..core import Prop

# ------------------------------------------------------------------------------------------------
# syntax trees (JSON lists)
#   ["lit", kind, text] ["ident", s] ["dotident", s] ["identarg", s, [e…]] ["dotidentarg", s, [e…]]
#   ["paren", e] ["list", [e…]] ["map", [[k, v]…]] ["dot", e, name] ["dotarg", e, name, [e…]]
#   ["index", e, i] ["obj", e, [[name, v]…]] ["not", e] ["neg", e] ["mul", op, a, b] ["add", op, a, b]
#   ["rel", op, a, b] ["and", a, b] ["or", a, b] ["cond", c, a, b]
# ------------------------------------------------------------------------------------------------

REL = {"lt": "<", "le": "<=", "gt": ">", "ge": ">=", "eq": "==", "ne": "!=", "in": "in"}
ADD = {"add": "+", "sub": "-"}
MUL = {"mul": "*", "div": "/", "mod": "%"}
LITKIND = {"uint": "UINT_LIT", "float": "FLOAT_LIT", "int": "INT_LIT", "mlstring": "MLSTRING_LIT",
           "string": "STRING_LIT", "bytes": "BYTES_LIT", "bool": "BOOL_LIT", "null": "NULL_LIT"}
ANON = {"?": "QMARK", ":": "COLON", "||": "OROR", "&&": "ANDAND", "<": "LT", "<=": "LE", ">": "GT", ">=": "GE",
        "==": "EQ", "!=": "NE", "in": "IN", "+": "PLUS", "-": "MINUS", "*": "STAR", "/": "SLASH", "%": "PERCENT",
        "!": "BANG", ".": "DOT", "(": "LPAR", ")": "RPAR", "[": "LSQB", "]": "RSQB", "{": "LBRACE", "}": "RBRACE",
        ",": "COMMA"}

LITS = [("int", "0"), ("int", "1"), ("int", "42"), ("int", "-7"), ("int", "0x1F"), ("int", "-0xa"),
        ("uint", "1u"), ("uint", "0U"), ("uint", "0xFFu"),
        ("float", "1.5"), ("float", "-2.5e3"), ("float", "1e10"), ("float", ".5"), ("float", "2."), ("float", "1.e1"),
        ("string", '"a"'), ("string", "'b c'"), ("string", 'r"\\d"'), ("string", '"\\n"'), ("string", '"x\\"y"'),
        ("string", '"// no comment"'), ("string", "'&& || ? :'"), ("string", '""'),
        ("mlstring", "'''x\ny'''"), ("mlstring", '"""a"b"""'),
        ("bytes", "b'x'"), ("bytes", 'B"y"'), ("bytes", 'br"z"'),
        ("bool", "true"), ("bool", "false"), ("null", "null")]
IDENTS = ["a", "b", "c", "x1", "_y", "trueish", "nulls", "inn", "as", "if", "falsey", "true_", "in"]
NAMES = ["f", "g", "size", "null", "in", "as", "a"]


def level(e) -> int:
    """CEL's level table (the oracle's own copy): 0 ?: | 1 || | 2 && | 3 relations | 4 + - | 5 * / % |
    6 unary | 7 member | 8 primary"""
    k = e[0]
    return {"cond": 0, "or": 1, "and": 2, "rel": 3, "add": 4, "mul": 5, "not": 6, "neg": 6,
            "dot": 7, "dotarg": 7, "index": 7, "obj": 7}.get(k, 8)


def operand_levels(k: str) -> List[int]:
    """minimal level admitted at each expression operand position of constructor k"""
    return {"cond": [1, 1, 0], "or": [1, 2], "and": [2, 3], "rel": [3, 4], "add": [4, 5], "mul": [5, 6],
            "not": [6], "neg": [6], "dot": [7], "dotarg": [7], "index": [7, 0], "obj": [7], "paren": [0]}[k]


def children(e) -> List[Tuple[Any, int]]:
    """(sub-expression, minimal level of its position) for every sub-expression"""
    k = e[0]
    if k in ("lit", "ident", "dotident"):
        return []
    if k in ("identarg", "dotidentarg"):
        return [(x, 0) for x in e[2]]
    if k == "list":
        return [(x, 0) for x in e[1]]
    if k == "map":
        return [(x, 0) for kv in e[1] for x in kv]
    if k == "dot":
        return [(e[1], 7)]
    if k == "dotarg":
        return [(e[1], 7)] + [(x, 0) for x in e[3]]
    if k == "index":
        return [(e[1], 7), (e[2], 0)]
    if k == "obj":
        return [(e[1], 7)] + [(v, 0) for _, v in e[2]]
    if k in ("not", "neg"):
        return [(e[1], 6)]
    if k in ("mul", "add", "rel"):
        ls = operand_levels(k)
        return [(e[2], ls[0]), (e[3], ls[1])]
    if k in ("and", "or"):
        ls = operand_levels(k)
        return [(e[1], ls[0]), (e[2], ls[1])]
    if k == "cond":
        return [(e[1], 1), (e[2], 1), (e[3], 0)]
    if k == "paren":
        return [(e[1], 0)]
    raise ValueError(k)


def is_wf(e) -> bool:
    return all(level(x) >= m and is_wf(x) for x, m in children(e))


def rebuild(e, f):
    """apply f(sub-expression, position level) to every operand, keeping the constructor"""
    k = e[0]
    if k in ("lit", "ident", "dotident"):
        return list(e)
    if k in ("identarg", "dotidentarg"):
        return [k, e[1], [f(x, 0) for x in e[2]]]
    if k == "list":
        return [k, [f(x, 0) for x in e[1]]]
    if k == "map":
        return [k, [[f(a, 0), f(b, 0)] for a, b in e[1]]]
    if k == "dot":
        return [k, f(e[1], 7), e[2]]
    if k == "dotarg":
        return [k, f(e[1], 7), e[2], [f(x, 0) for x in e[3]]]
    if k == "index":
        return [k, f(e[1], 7), f(e[2], 0)]
    if k == "obj":
        return [k, f(e[1], 7), [[n, f(v, 0)] for n, v in e[2]]]
    if k in ("not", "neg"):
        return [k, f(e[1], 6)]
    if k in ("mul", "add", "rel"):
        ls = operand_levels(k)
        return [k, e[1], f(e[2], ls[0]), f(e[3], ls[1])]
    if k in ("and", "or"):
        ls = operand_levels(k)
        return [k, f(e[1], ls[0]), f(e[2], ls[1])]
    if k == "cond":
        return [k, f(e[1], 1), f(e[2], 1), f(e[3], 0)]
    if k == "paren":
        return [k, f(e[1], 0)]
    raise ValueError(k)


def unparen(e):
    """drop every parenthesis node (the abstract expression)"""
    if e[0] == "paren":
        return unparen(e[1])
    return rebuild(e, lambda x, m: unparen(x))


def parenthesize(a, rng: Optional[random.Random] = None, extra: float = 0.0):
    """insert the parentheses the level table requires (and, with probability `extra`, redundant ones)"""
    def f(x, m):
        y = parenthesize(x, rng, extra)
        if level(y) < m:
            y = ["paren", y]
        if rng is not None and extra and rng.random() < extra:
            y = ["paren", y]
        return y
    return rebuild(a, f)


def full_paren(a):
    """the oracle's fully parenthesised form of an abstract expression"""
    y = rebuild(a, lambda x, m: full_paren(x))
    return ["paren", y] if level(y) < 8 else y


# ---- tokens and text -----------------------------------------------------------------------------

def toks(e) -> List[Tuple[str, str]]:
    """(terminal, text)"""
    k = e[0]
    A = lambda s: (ANON[s], s)
    ID = lambda s: ("IDENT", s)

    def commas(xs):
        out = []
        for i, x in enumerate(xs):
            if i:
                out.append(A(","))
            out += toks(x)
        return out
    if k == "lit":
        return [(LITKIND[e[1]], e[2])]
    if k == "ident":
        return [ID(e[1])]
    if k == "dotident":
        return [A("."), ID(e[1])]
    if k == "identarg":
        return [ID(e[1]), A("(")] + commas(e[2]) + [A(")")]
    if k == "dotidentarg":
        return [A("."), ID(e[1]), A("(")] + commas(e[2]) + [A(")")]
    if k == "paren":
        return [A("(")] + toks(e[1]) + [A(")")]
    if k == "list":
        return [A("[")] + commas(e[1]) + [A("]")]
    if k == "map":
        out = [A("{")]
        for i, (a, b) in enumerate(e[1]):
            if i:
                out.append(A(","))
            out += toks(a) + [A(":")] + toks(b)
        return out + [A("}")]
    if k == "dot":
        return toks(e[1]) + [A("."), ID(e[2])]
    if k == "dotarg":
        return toks(e[1]) + [A("."), ID(e[2]), A("(")] + commas(e[3]) + [A(")")]
    if k == "index":
        return toks(e[1]) + [A("[")] + toks(e[2]) + [A("]")]
    if k == "obj":
        out = toks(e[1]) + [A("{")]
        for i, (n, v) in enumerate(e[2]):
            if i:
                out.append(A(","))
            out += [ID(n), A(":")] + toks(v)
        return out + [A("}")]
    if k == "not":
        return [A("!")] + toks(e[1])
    if k == "neg":
        return [A("-")] + toks(e[1])
    if k == "mul":
        return toks(e[2]) + [A(MUL[e[1]])] + toks(e[3])
    if k == "add":
        return toks(e[2]) + [A(ADD[e[1]])] + toks(e[3])
    if k == "rel":
        return toks(e[2]) + [A(REL[e[1]])] + toks(e[3])
    if k == "and":
        return toks(e[1]) + [A("&&")] + toks(e[2])
    if k == "or":
        return toks(e[1]) + [A("||")] + toks(e[2])
    if k == "cond":
        return toks(e[1]) + [A("?")] + toks(e[2]) + [A(":")] + toks(e[3])
    raise ValueError(k)


NUMERIC = ("INT_LIT", "UINT_LIT", "FLOAT_LIT")


def _wordish_end(s: str) -> bool:
    return s[-1].isalnum() or s[-1] == "_"


def _wordish_start(s: str) -> bool:
    return s[0].isalnum() or s[0] == "_"


def need_space(l: Tuple[str, str], r: Tuple[str, str]) -> bool:
    """would gluing the two token texts change the token sequence?"""
    if _wordish_end(l[1]) and (_wordish_start(r[1]) or r[1][0] in "'\""):
        return True
    if l[0] in NUMERIC and r[0] == "DOT":          # `1 .f` is not `1.f`
        return True
    if l[0] == "MINUS" and (r[0] in NUMERIC or r[0] == "MINUS"):   # `- 1` is not `-1`
        return True
    if l[0] == "DOT" and r[1][0].isdigit():
        return True
    if l[0] == "SLASH" and r[0] == "SLASH":
        return True
    return False


def to_text(ts: List[Tuple[str, str]], rng: Optional[random.Random], seps: Optional[List[str]] = None) -> str:
    """canonical (single blanks where needed) when rng is None; otherwise random blanks, newlines, comments.
    `seps` (one text per gap, "" = canonical) places explicit separators instead"""
    out = []
    for i, t in enumerate(ts):
        if i:
            must = need_space(ts[i - 1], t)
            if seps is not None:
                sp = seps[i - 1] if i - 1 < len(seps) else ""
                out.append(sp if sp else (" " if must else ""))
            elif rng is None:
                out.append(" " if must else "")
            else:
                r = rng.random()
                if r < 0.45:
                    sep = " " if must else ""
                elif r < 0.75:
                    sep = " " * rng.randint(1, 3)
                elif r < 0.85:
                    sep = rng.choice(["\t", "\n", " \n ", "\r\n", "\f "])
                else:
                    sep = " //" + rng.choice(["", " c", " a && b || (", " \"", "//x ? y : z"]) + "\n"
                out.append(sep)
        out.append(t[1])
    s = "".join(out)
    if rng is not None and seps is None:
        if rng.random() < 0.2:
            s = rng.choice([" ", "\n", "// lead\n"]) + s
        if rng.random() < 0.2:
            s = s + rng.choice([" ", "\n", " // trail", "\t"])
    return s


# ---- trees ------------------------------------------------------------------------------------------

def hx(s: str) -> str:
    return s.encode("utf-8").hex()


def show_lark(t) -> str:
    import lark
    if isinstance(t, lark.Tree):
        return f"{t.data}(" + " ".join(show_lark(c) for c in t.children) + ")"
    return f"{t.type}:{hx(str(t))}"


def lark_to_obj(t):
    import lark
    if isinstance(t, lark.Tree):
        return [str(t.data), [lark_to_obj(c) for c in t.children]]
    return [t.type, str(t)]


CHAIN = {"expr", "conditionalor", "conditionaland", "relation", "addition", "multiplication", "unary", "member",
         "primary", "paren_expr"}


def strip_obj(o):
    """drop parenthesis nodes and single-child precedence-chain nodes"""
    if isinstance(o[1], str):
        return o
    cs = [strip_obj(c) for c in o[1]]
    if o[0] in CHAIN and len(cs) == 1:
        return cs[0]
    return [o[0], cs]


def norm_neg(o):
    """a negative numeric literal and unary minus applied to the positive literal are the same grouping
    (whether `-1` is one token is a lexical matter, not a precedence one): normalise to the unary form"""
    if isinstance(o[1], str):
        return o
    cs = [norm_neg(c) for c in o[1]]
    if o[0] == "literal" and len(cs) == 1 and cs[0][0] in NUMERIC and cs[0][1].startswith("-"):
        return ["unary", [["unary_neg", []], ["literal", [[cs[0][0], cs[0][1][1:]]]]]]
    return [o[0], cs]


def show_obj(o) -> str:
    if isinstance(o[1], str):
        return f"{o[0]}:{hx(o[1])}"
    return f"{o[0]}(" + " ".join(show_obj(c) for c in o[1]) + ")"


def abs_obj(a):
    """the oracle's abstract tree of an abstract (paren-free) expression, in the stripped-lark vocabulary"""
    k = a[0]
    ID = lambda s: ["IDENT", s]

    def el(xs):
        return [["exprlist", [abs_obj(x) for x in xs]]] if xs else []
    if k == "lit":
        return ["literal", [[LITKIND[a[1]], a[2]]]]
    if k == "ident":
        return ["ident", [ID(a[1])]]
    if k == "dotident":
        return ["dot_ident", [ID(a[1])]]
    if k == "identarg":
        return ["ident_arg", [ID(a[1])] + el(a[2])]
    if k == "dotidentarg":
        return ["dot_ident_arg", [ID(a[1])] + el(a[2])]
    if k == "paren":
        return abs_obj(a[1])
    if k == "list":
        return ["list_lit", el(a[1])]
    if k == "map":
        return ["map_lit", [["mapinits", [abs_obj(x) for kv in a[1] for x in kv]]] if a[1] else []]
    if k == "dot":
        return ["member_dot", [abs_obj(a[1]), ID(a[2])]]
    if k == "dotarg":
        return ["member_dot_arg", [abs_obj(a[1]), ID(a[2])] + el(a[3])]
    if k == "index":
        return ["member_index", [abs_obj(a[1]), abs_obj(a[2])]]
    if k == "obj":
        fi = [["fieldinits", [y for n, v in a[2] for y in (ID(n), abs_obj(v))]]] if a[2] else []
        return ["member_object", [abs_obj(a[1])] + fi]
    if k == "not":
        return ["unary", [["unary_not", []], abs_obj(a[1])]]
    if k == "neg":
        return ["unary", [["unary_neg", []], abs_obj(a[1])]]
    if k == "mul":
        return ["multiplication", [["multiplication_" + a[1], [abs_obj(a[2])]], abs_obj(a[3])]]
    if k == "add":
        return ["addition", [["addition_" + a[1], [abs_obj(a[2])]], abs_obj(a[3])]]
    if k == "rel":
        return ["relation", [["relation_" + a[1], [abs_obj(a[2])]], abs_obj(a[3])]]
    if k == "and":
        return ["conditionaland", [abs_obj(a[1]), abs_obj(a[2])]]
    if k == "or":
        return ["conditionalor", [abs_obj(a[1]), abs_obj(a[2])]]
    if k == "cond":
        return ["expr", [abs_obj(a[1]), abs_obj(a[2]), abs_obj(a[3])]]
    raise ValueError(k)


def has_empty_list(e) -> bool:
    if e[0] == "list" and not e[1]:
        return True
    return any(has_empty_list(x) for x, _ in children(e))


def int_before_dot(e) -> bool:
    """a decimal integer literal immediately followed by `.`: `1 .f` is dumped as `1.f`"""
    ts = toks(e)
    return any(ts[i][0] == "INT_LIT" and ts[i + 1][0] == "DOT" and not ts[i][1].lower().lstrip("-").startswith("0x")
               for i in range(len(ts) - 1))


# ---- prefix encoding for the Lean driver ---------------------------------------------------------------

def enc(e) -> List[str]:
    k = e[0]
    X = lambda s: "x" + hx(s)

    def many(xs):
        out = [str(len(xs))]
        for x in xs:
            out += enc(x)
        return out
    if k == "lit":
        return ["lit", e[1], X(e[2])]
    if k in ("ident", "dotident"):
        return [k, X(e[1])]
    if k in ("identarg", "dotidentarg"):
        return [k, X(e[1])] + many(e[2])
    if k == "paren":
        return ["paren"] + enc(e[1])
    if k == "list":
        return ["list"] + many(e[1])
    if k == "map":
        out = ["map", str(len(e[1]))]
        for a, b in e[1]:
            out += enc(a) + enc(b)
        return out
    if k == "dot":
        return ["dot"] + enc(e[1]) + [X(e[2])]
    if k == "dotarg":
        return ["dotarg"] + enc(e[1]) + [X(e[2])] + many(e[3])
    if k == "index":
        return ["index"] + enc(e[1]) + enc(e[2])
    if k == "obj":
        out = ["obj"] + enc(e[1]) + [str(len(e[2]))]
        for n, v in e[2]:
            out += [X(n)] + enc(v)
        return out
    if k in ("not", "neg"):
        return [k] + enc(e[1])
    if k in ("mul", "add", "rel"):
        return [k, e[1]] + enc(e[2]) + enc(e[3])
    if k in ("and", "or"):
        return [k] + enc(e[1]) + enc(e[2])
    if k == "cond":
        return ["cond"] + enc(e[1]) + enc(e[2]) + enc(e[3])
    raise ValueError(k)


# ---- generators -----------------------------------------------------------------------------------------

BINOPS = ([("or",), ("and",)] + [("rel", o) for o in REL] + [("add", o) for o in ADD] + [("mul", o) for o in MUL])


def mk_bin(op, a, b):
    return [op[0], a, b] if len(op) == 1 else [op[0], op[1], a, b]


def atom(i: int):
    return ["ident", ["a", "b", "c", "d", "e", "f", "g", "h"][i % 8]]


# operator "frames": (name, arity, builder from operand list)
FRAMES: List[Tuple[str, int, Any]] = []
for _op in BINOPS:
    FRAMES.append(("bin:" + ":".join(_op), 2, (lambda op: lambda xs: mk_bin(op, xs[0], xs[1]))(_op)))
FRAMES += [
    ("cond", 3, lambda xs: ["cond", xs[0], xs[1], xs[2]]),
    ("not", 1, lambda xs: ["not", xs[0]]),
    ("neg", 1, lambda xs: ["neg", xs[0]]),
    ("dot", 1, lambda xs: ["dot", xs[0], "f"]),
    ("dotarg0", 1, lambda xs: ["dotarg", xs[0], "g", []]),
    ("dotarg1", 2, lambda xs: ["dotarg", xs[0], "g", [xs[1]]]),
    ("index", 2, lambda xs: ["index", xs[0], xs[1]]),
    ("obj0", 1, lambda xs: ["obj", xs[0], []]),
    ("obj1", 2, lambda xs: ["obj", xs[0], [["k", xs[1]]]]),
    ("call", 1, lambda xs: ["identarg", "h", [xs[0]]]),
    ("list", 2, lambda xs: ["list", [xs[0], xs[1]]]),
    ("map", 2, lambda xs: ["map", [[xs[0], xs[1]]]]),
]


def shapes(n_ops: int) -> Iterable[Any]:
    """all abstract expressions with exactly n_ops operator frames over identifier atoms"""
    counter = [0]

    def build(n: int) -> Iterable[Any]:
        if n == 0:
            yield None       # placeholder for an atom
            return
        for name, ar, mk in FRAMES:
            # distribute n-1 operators over the ar operands
            for split in _splits(n - 1, ar):
                for subs in itertools.product(*[list(build(k)) for k in split]):
                    yield (mk, subs)

    def realise(t, ctr):
        if t is None:
            ctr[0] += 1
            return atom(ctr[0] - 1)
        mk, subs = t
        return mk([realise(s, ctr) for s in subs])
    for t in build(n_ops):
        yield realise(t, [0])


def _splits(n: int, k: int) -> Iterable[Tuple[int, ...]]:
    if k == 1:
        yield (n,)
        return
    for i in range(n + 1):
        for rest in _splits(n - i, k - 1):
            yield (i,) + rest


def rand_expr(rng: random.Random, depth: int, empties: float = 0.08) -> Any:
    """grammar-directed random abstract expression"""
    if depth <= 0 or rng.random() < 0.22:
        r = rng.random()
        if r < 0.4:
            return ["ident", rng.choice(IDENTS)]
        if r < 0.8:
            k, t = rng.choice(LITS)
            return ["lit", k, t]
        if r < 0.85:
            return ["dotident", rng.choice(IDENTS[:6])]
        if r < 0.9:
            return ["list", []] if rng.random() < 0.5 else ["map", []]
        if r < 0.95:
            return ["identarg", rng.choice(["f", "size", "has", "g"]), []]
        return ["dotidentarg", "f", []]
    sub = lambda: rand_expr(rng, depth - 1, empties)
    subs = lambda lo, hi: [sub() for _ in range(rng.randint(lo, hi))]
    r = rng.random()
    if r < 0.36:
        return mk_bin(rng.choice(BINOPS), sub(), sub())
    if r < 0.44:
        return ["cond", sub(), sub(), sub()]
    if r < 0.52:
        return [rng.choice(["not", "neg"]), sub()]
    if r < 0.60:
        return ["dot", sub(), rng.choice(NAMES)]
    if r < 0.68:
        return ["dotarg", sub(), rng.choice(NAMES), subs(0, 3)]
    if r < 0.74:
        return ["index", sub(), sub()]
    if r < 0.79:
        return ["obj", sub(), [[rng.choice(NAMES), sub()] for _ in range(rng.randint(0, 3))]]
    if r < 0.85:
        return ["identarg", rng.choice(["f", "size", "g", "dyn"]), subs(0, 3)]
    if r < 0.88:
        return ["dotidentarg", "f", subs(0, 2)]
    if r < 0.94:
        return ["list", subs(0, 3)]
    return ["map", [[sub(), sub()] for _ in range(rng.randint(0, 3))]]


def drop_parens(e, rng: random.Random, p: float):
    """remove some parenthesis nodes (the result is in general not well-formed: the parser regroups)"""
    if e[0] == "paren" and rng.random() < p:
        return drop_parens(e[1], rng, p)
    return rebuild(e, lambda x, m: drop_parens(x, rng, p))


def size(e) -> int:
    return 1 + sum(size(x) for x, _ in children(e))


def ops_of(e) -> List[str]:
    k = e[0]
    own = [] if k in ("lit", "ident", "dotident", "paren") else [k + (":" + e[1] if k in ("mul", "add", "rel") else "")]
    return own + [o for x, _ in children(e) for o in ops_of(x)]


# ---- sequences (history): related sources parsed one after the other in one process -------------------------
# Families of atoms whose texts a careless normalisation of the source (collapsing or stripping blanks, folding
# letter case, cutting `//…` with a regular expression, unifying quotes, truncating) would identify although
# they are different tokens.  A parser with any state between calls (a memo of trees, of token lists, of
# dumps, …) must keep them apart; the property speaks of *the* tree of an expression, whatever was parsed before.
_LONG = "resource_configuration_attribute_with_a_rather_long_name_"
_S3, _D3 = "'" * 3, '"' * 3


def _lits(kind: str, *texts: str) -> List[Any]:
    return [["lit", kind, t] for t in texts]


FAMILIES: List[Tuple[str, List[Any]]] = [
    ("blanks-in-string", _lits("string", '"a  b"', '"a b"', '"a\tb"', '"a b "', '" a b"', '"ab"', '"a   b"')),
    ("blanks-in-string-sq", _lits("string", "'p\tq'", "'p q'", "'p  q'", "' p q '", "'pq'")),
    ("lines-in-mlstring", _lits("mlstring", _S3 + "x\ny" + _S3, _S3 + "x y" + _S3, _S3 + "x\n\ny" + _S3, _S3 + "x  y" + _S3,
                                _D3 + "x\r\ny" + _D3, _D3 + "x\ny" + _D3, _D3 + "x y" + _D3)),
    ("blanks-in-bytes", _lits("bytes", "b'p  q'", "b'p q'", "b'p\tq'", 'b"p q"', "b" + _S3 + "p\nq" + _S3, "b" + _S3 + "p q" + _S3)),
    ("comment-in-string", _lits("string", '"u // v"', '"u // w"', '"u //"', '"u "', '"u"', '"u /* v */"')),
    ("letter-case", _lits("string", '"Ab"', '"ab"', '"AB"') + [["ident", "Ab"], ["ident", "ab"], ["ident", "AB"]]),
    ("letter-case-prefix", _lits("string", 'r"x"', 'R"x"', '"x"') + _lits("bytes", 'b"x"', 'B"x"') + _lits("int", "0xff", "0xFF")
     + _lits("uint", "1u", "1U") + _lits("float", "1e3", "1E3")),
    ("keyword-case", [["lit", "bool", "true"], ["ident", "True"], ["ident", "TRUE"], ["lit", "null", "null"], ["ident", "Null"],
                      ["lit", "bool", "false"], ["ident", "False"]]),
    ("quotes", _lits("string", '"q"', "'q'") + _lits("mlstring", _D3 + "q" + _D3, _S3 + "q" + _S3) + [["ident", "q"]]),
    ("long-common-prefix", [["ident", _LONG + "one"], ["ident", _LONG + "two"], ["lit", "string", '"' + _LONG + 'one"'],
                            ["lit", "string", '"' + _LONG + 'two"'], ["ident", _LONG + "one_"]]),
    ("same-length", _lits("int", "41", "42", "14") + [["ident", "x1"], ["ident", "x2"], ["lit", "string", '"41"']]),
]
HOLE = ["ident", "?hole"]
SEQ_CONTEXTS = [
    ["rel", "eq", ["ident", "name"], HOLE],
    ["dotarg", HOLE, "size", []],
    ["or", ["and", ["rel", "eq", ["ident", _LONG + "zero"], ["lit", "string", '"' + _LONG + '"']],
            ["identarg", "f", [HOLE, ["ident", "x"]]]], ["ident", "y"]],
]


def fill(ctx, atom_):
    if ctx == HOLE:
        return list(atom_)
    return rebuild(ctx, lambda x, m: fill(x, atom_))


def leaves(a) -> int:
    if a[0] in ("lit", "ident"):
        return 1
    return sum(leaves(x) for x, _ in children(a))


def with_hole(a, k: int):
    """replace the k-th identifier/literal leaf (preorder) by the hole"""
    ctr = [0]

    def go(x):
        if x[0] in ("lit", "ident"):
            ctr[0] += 1
            return list(HOLE) if ctr[0] - 1 == k else list(x)
        return rebuild(x, lambda y, m: go(y))
    return go(a)


def seq_cases(rng: random.Random, n_random: int) -> List[Dict[str, Any]]:
    out: List[Dict[str, Any]] = []

    def step(a, ws=None, **kw):
        st = {"e": parenthesize(a), "ws": ws}
        st.update(kw)
        return st
    # systematic: every family in fixed contexts, all members in order, then the first two again (another parser
    # object, other blanks)
    for fam, atoms in FAMILIES:
        for ci, ctx in enumerate(SEQ_CONTEXTS):
            steps = [step(fill(ctx, x)) for x in atoms]
            steps += [step(fill(ctx, atoms[1]), fresh=True), step(fill(ctx, atoms[0]), ws=17 + ci)]
            out.append({"kind": "seq", "family": fam, "steps": steps})
    # where a comment ends decides what the expression is: `x // note⏎ op y` is `x op y`, `x // note op y` is `x`
    for op in BINOPS:
        for first in (0, 1):
            x, y = ["ident", "x"], ["dotarg", ["ident", "y"], "g", [["lit", "string", '"s  t"']]]
            both = mk_bin(op, x, y)
            optext = toks(both)[1][1]
            a_ = {"e": both, "ws": None, "seps": [" // note\n "]}
            b_ = {"e": x, "ws": None, "trail": " // note " + optext + " " + to_text(toks(y), None)}
            c_ = {"e": both, "ws": None, "seps": [" // another note\n"]}
            d_ = {"e": both, "ws": None, "seps": ["", "\n// note\n"]}
            steps = [a_, b_, c_, d_] if first == 0 else [b_, a_, d_, dict(b_)]
            out.append({"kind": "seq", "family": "comment-end", "steps": steps})
    # random: a random expression with one leaf running through (part of) a family
    for _ in range(n_random):
        for _try in range(20):
            a = rand_expr(rng, rng.randint(1, 3))
            if not has_empty_list(a) and leaves(a) >= 1 and size(a) <= 25:
                break
        else:
            continue
        ctx = with_hole(a, rng.randrange(leaves(a)))
        fam, atoms = rng.choice(FAMILIES)
        members = rng.sample(atoms, rng.randint(2, min(4, len(atoms))))
        members.append(members[0])
        steps = []
        for x in members:
            st = {"e": parenthesize(fill(ctx, x), rng, rng.choice([0.0, 0.0, 0.2])),
                  "ws": None if rng.random() < 0.6 else rng.randrange(1 << 30)}
            if rng.random() < 0.15:
                st["fresh"] = True
            steps.append(st)
        out.append({"kind": "seq", "family": fam, "steps": steps})
    return out


# ------------------------------------------------------------------------------------------------

class C06(Prop):
    pid = "C06"
    manifest = dict(
        technique="Lean 4: the BNF lark derives from cel.lark (regenerated every run, bridged by decide) with a generic derivation "
                  "relation that also builds lark's tree; render_derives (mutual induction over all expressions, level-generalised): "
                  "every expression whose parentheses respect CEL's level table derives exactly the intended tree; derivable_is_render "
                  "(recursion over all derivations, 88 productions): every sentence / tree of the grammar arises that way; fullParen_wf, "
                  "same_tree_as_parenthesised, every_parse_tree; DumpAST mirrored as a stack machine (dump_exact, "
                  "dump_roundtrip_partial); checked executable parser (parse_sound); lexer word classification over lark's LALR accept "
                  "sets (literals_not_idents, words_beside_keywords_are_idents); correspondence lark tree vs toTree, tree_dump vs dump, "
                  "single expressions and sequences in one process; oracle with its own level table and token list",
        text="proof: for ALL expressions (any depth, any argument counts) and for EVERY tree derivable from the grammar: the token string "
             "of a well-parenthesised expression derives the tree CEL's precedence/associativity table prescribes, the fully "
             "parenthesised form has the same tree modulo parenthesis nodes, and DumpAST's output re-derives the same tree unless "
             "the expression contains an empty list literal (known finding D13, pinned by tests); grammar, Lark options, %ignore "
             "patterns and the true/false callback are regenerated from the source on every run",
        note="Lean kernel; standard axioms; lark's lexer (text <-> tokens) and the LALR(1) uniqueness meta-theorem are trusted and "
             "exercised by the correspondence (lark tree = model tree on every generated input, zero shift/reduce resolutions)",
        ref="DESIGN.md §5 C06")
    lean_targets = ["Cel.Props.C06", "Cel.Bridge.Grammar"]
    audit_namespaces = ["Cel.Props.C06", "Cel.Bridge"]
    gen_names = ["Grammar"]
    trusted = ["lark's lexer (contextual lexing, %ignore of WHITESPACE/COMMENT): text -> token string",
               "LALR(1) meta-theorem: a conflict-free LALR(1) grammar is unambiguous, so lark's tree is the unique derivation",
               "lark's tree construction (filter_out, inlining of _rules) as modelled by Derives"]
    rule = ("expressions as syntax trees with parenthesis nodes: (1) every abstract expression with 1-2 (quick) / 1-3 (thorough: all "
            "pairs and triples) operator frames out of 14 binary operators, ?:, !, -, select, call, index, message, function call, "
            "list, map, parenthesised minimally by the oracle's own level table; (2) grammar-directed random expressions (depth<=5 "
            "quick, <=8 thorough) with minimal + random redundant parentheses, literals of every terminal incl. negative/hex/raw/"
            "triple-quoted/bytes, identifiers like trueish/nulls/as/in, empty list/map/message/call in every position; (3) the same "
            "with parentheses randomly removed (regrouping); (4) sequences of 2-9 related sources parsed one after the other by "
            "the same process (texts that differ only in blanks/tabs/line breaks inside a string/bytes literal, in where a // "
            "comment ends, in letter case, in quotes, after a long common prefix; same text again; another CELParser object "
            "without reset): every step must still get its own tree; (0) words that only begin with true/false/null/in. "
            "Text = tokens joined with random blanks, newlines and // comments. "
            "non-trivial = distinct case with at least two operators or a non-identifier atom")

    def setup(self):
        self._parser = None
        self._extra: Dict[str, Dict[str, Any]] = {}

    # -- real implementation ---------------------------------------------------------------------
    def _parse(self, text: str):
        from celpy import celparser
        if self._parser is None:
            celparser.CELParser.CEL_PARSER = None
            self._parser = celparser.CELParser()
        return self._parser.parse(text)

    def _observe(self, c) -> Dict[str, Any]:
        """everything observed on the real implementation for this case (or this step of a sequence)"""
        from celpy import celparser
        e = c["e"]
        ts = toks(e)
        text = case_text(c)
        ob: Dict[str, Any] = {"text": text}
        if c.get("fresh"):
            # another CELParser object without the documented reset (the Lark instances are shared per class)
            self._parser = celparser.CELParser() if self._parser is not None else None
        try:
            t = self._parse(text)
        except celparser.CELParseError:
            ob["tree"] = None
            return ob
        ob["tree"] = lark_to_obj(t)
        ob["show"] = show_lark(t)
        try:
            ob["dump"] = celparser.tree_dump(t)
        except Exception as ex:
            ob["dump_exc"] = type(ex).__name__
        # canonical spacing must give the same tree (whitespace and comments insignificant)
        try:
            ob["canon_tree"] = lark_to_obj(self._parse(to_text(ts, None)))
        except celparser.CELParseError:
            ob["canon_tree"] = None
        # fully parenthesised text (oracle's own construction)
        a = unparen(e)
        ob["abs"] = a
        try:
            ob["fp_tree"] = lark_to_obj(self._parse(to_text(toks(full_paren(a)), None)))
        except celparser.CELParseError:
            ob["fp_tree"] = None
        if "dump" in ob:
            try:
                ob["redump_tree"] = lark_to_obj(self._parse(ob["dump"]))
            except celparser.CELParseError:
                ob["redump_tree"] = None
            except Exception as ex:
                ob["redump_tree"] = None
                ob["redump_exc"] = type(ex).__name__
        return ob

    def impl(self, c):
        if c["kind"] == "word":
            try:
                return self._impl_word(c)
            except Exception as ex:
                return f"EXC {type(ex).__name__}"
        if c["kind"] == "seq":
            # the steps are parsed one after the other in this process, by the same parser state
            obs, outs = [], []
            for st in c["steps"]:
                try:
                    ob = self._observe(st)
                    outs.append(self._show_ob(ob))
                except RecursionError:
                    ob = None
                    outs.append("EXC RecursionError")
                except Exception as ex:
                    ob = None
                    outs.append(f"EXC {type(ex).__name__}")
                obs.append(ob)
            self._extra[_key(c)] = {"steps": obs}
            return SEQ_SEP.join(outs)
        try:
            ob = self._observe(c)
        except RecursionError:
            return "EXC RecursionError"
        except Exception as ex:
            return f"EXC {type(ex).__name__}"
        self._extra[_key(c)] = ob
        return self._show_ob(ob)

    @staticmethod
    def _show_ob(ob) -> str:
        if ob["tree"] is None:
            return "parse-error"
        d = ("x" + hx(ob["dump"])) if "dump" in ob else "ERR:" + ob["dump_exc"]
        return f"tree={ob['show']} | strip={show_obj(strip_obj(ob['tree']))} | dump={d}"

    def _impl_word(self, c):
        """how the real lexer types a word in a primary position / a name position"""
        from celpy import celparser
        w = c["word"]
        text = w if c["pos"] == "primary" else ("a." + w if c["pos"] == "dot" else "a{" + w + ": 1}")
        try:
            t = self._parse(text)
        except celparser.CELParseError:
            return "parse-error"
        toks_ = [x for x in t.scan_values(lambda v: True)]
        tk = [x for x in toks_ if str(x) == w][-1:]
        return "type=" + (tk[0].type if tk else "?")

    # -- model -----------------------------------------------------------------------------------
    def model_line(self, c):
        if c["kind"] == "word":
            return f"W {c['pos']} x{hx(c['word'])}"
        if c["kind"] == "seq":
            # the model is a function of the token string alone: a sequence is answered step by step
            return "S " + " ; ".join(" ".join(enc(st["e"])) for st in c["steps"])
        return "E " + " ".join(enc(c["e"]))

    def model_expect(self, c, m):
        if c["kind"] == "word":
            return m
        if c["kind"] == "seq":
            parts = m.split(SEQ_SEP)
            if len(parts) != len(c["steps"]):
                return "MODEL " + m[:200]
            return SEQ_SEP.join(self.model_expect(dict(st, kind="step"), x) for st, x in zip(c["steps"], parts))
        f = dict(x.split("=", 1) for x in m.split(" | ")) if " | " in m else {}
        if not f:
            return "MODEL " + m
        py_wf = is_wf(c["e"])
        if (f["wf"] == "1") != py_wf:
            return f"MODEL-DISAGREES wf={f['wf']} but the harness' level table says {py_wf}"
        exp_toks = " ".join(k if k in ANON.values() else f"{k}:x{hx(s)}" for k, s in toks(c["e"]))
        if f["toks"] != exp_toks:
            return "MODEL-DISAGREES render"
        if f["reparse"] != "1":
            return "MODEL-DISAGREES the model's checked parser does not return the model's tree"
        if py_wf and f["strip"] != f["fpstrip"]:
            return "MODEL-DISAGREES strip(fullParen) differs"
        if f["tree"] == "none":
            return "parse-error"
        return f"tree={f['tree']} | strip={f['strip']} | dump={f['dump']}"

    # -- oracle ----------------------------------------------------------------------------------
    def oracle(self, c, out):
        if c["kind"] == "word":
            w, pos = c["word"], c["pos"]
            if pos == "primary" and w in ("true", "false", "null"):
                want = "BOOL_LIT" if w != "null" else "NULL_LIT"
                if out != "type=" + want:
                    return f"`{w}` in expression position is lexed as {out}, not as the literal {want}"
            if any(w.startswith(k) and len(w) > len(k) for k in ("true", "false", "null", "in")) and out != "type=IDENT":
                return f"`{w}` only begins with a keyword; it is an identifier, but the lexer says {out}"
            return None       # name positions (`a.null`, `x{in: 1}`) are outside the statement
        if c["kind"] == "seq":
            ob = self._extra.get(_key(c))
            if ob is None:
                self.impl(c)
                ob = self._extra[_key(c)]
            parts = out.split(SEQ_SEP)
            for i, (st, sob) in enumerate(zip(c["steps"], ob["steps"])):
                if sob is None:
                    return f"step {i + 1}: {parts[i]} escaped from the parser / tree_dump"
                msg = self._oracle_expr(st, sob)
                if msg:
                    before = "; ".join(repr(x["text"]) for x in ob["steps"][:i] if x) or "nothing"
                    return f"step {i + 1} of a sequence parsed in one process (before it: {before[:300]}): {msg}"
            return None
        if out.startswith("EXC "):
            return f"{out} escaped from the parser / tree_dump"
        ob = self._extra.get(_key(c))
        if ob is None:
            ob = self._observe(c)
        return self._oracle_expr(c, ob)

    def _oracle_expr(self, c, ob):
        e = c["e"]
        wf = is_wf(e)
        text = ob["text"]
        if ob["tree"] is None:
            if wf:
                return f"well-formed expression does not parse: {text!r}"
            return None
        # the leaves of the tree are the named tokens of the source, in order (whatever the grouping)
        want_leaves = [list(t) for t in toks(e) if t[0] not in ANON_NAMES]
        got_leaves = leaves_obj(ob["tree"])
        if got_leaves != want_leaves:
            return (f"the tree of {text!r} does not carry the tokens of the source: got "
                    f"{[x[1] for x in got_leaves][:12]}, want {[x[1] for x in want_leaves][:12]}")
        if ob["canon_tree"] != ob["tree"]:
            return f"whitespace/comments changed the tree: {text!r} vs {to_text(toks(e), None)!r}"
        if wf:
            want = abs_obj(ob["abs"])
            got = strip_obj(ob["tree"])
            if norm_neg(got) != norm_neg(want):
                return (f"{to_text(toks(e), None)!r} is not grouped as CEL's precedence table prescribes: "
                        f"got {show_obj(got)[:300]}, want {show_obj(want)[:300]}")
            if ob["fp_tree"] is None:
                return f"fully parenthesised form does not parse: {to_text(toks(full_paren(ob['abs'])), None)!r}"
            if norm_neg(strip_obj(ob["fp_tree"])) != norm_neg(got):
                return (f"{to_text(toks(e), None)!r} and its fully parenthesised form "
                        f"{to_text(toks(full_paren(ob['abs'])), None)!r} parse to different trees")
        # dump round trip (for every tree the parser produced)
        if "dump_exc" in ob:
            return f"tree_dump raised {ob['dump_exc']} on the tree of {text!r}"
        if ob.get("redump_tree") is None:
            return f"dump {ob['dump']!r} of {text!r} does not parse"
        if ob["redump_tree"] != ob["tree"]:
            return f"dump {ob['dump']!r} of {text!r} parses to a different tree"
        return None

    def nontrivial(self, c, out):
        if c["kind"] == "word":
            return True
        if c["kind"] == "seq":
            return len({case_text(st) for st in c["steps"]}) >= 2
        e = c["e"]
        return len(ops_of(e)) >= 2 or any(t[0] != "IDENT" and t[0] in LITKIND.values() for t in toks(e))

    def known_preds(self):
        def empty_list(c):
            # only the dump part may fail on such a case: a wrong grouping of an expression that happens to
            # contain `[]` is still reported
            if c.get("kind") in ("word", "seq") or not has_empty_list(c["e"]):
                return False      # (sequences are generated without empty list literals)
            msg = self.oracle(c, self.impl(c))
            return msg is not None and msg.startswith("dump ")
        return {"empty_list_literal": empty_list}

    # -- generation ------------------------------------------------------------------------------
    def generate(self, rng, tier):
        quick = tier == "quick"
        cases: List[Dict[str, Any]] = []
        # (0) words
        for w in ["true", "false", "null", "in", "as", "if", "trueish", "nulls", "inn", "True", "NULL", "a"]:
            for pos in ("primary", "dot", "field"):
                cases.append({"kind": "word", "word": w, "pos": pos})
        # words that only begin with a keyword are identifiers, wherever an identifier may stand
        for k in ("true", "false", "null", "in"):
            for suf in ("s", "_", "0", "True", "able", "_positives", k):
                for pos in ("primary", "dot", "field"):
                    cases.append({"kind": "word", "word": k + suf, "pos": pos})
        # (1) systematic operator pairs / triples
        sys_ = []
        for n in (1, 2):
            sys_ += list(shapes(n))
        if quick:
            tri = list(_sample_shapes3(rng, 600))
        else:
            tri = list(shapes(3))
        for a in sys_ + tri:
            e = parenthesize(a)
            cases.append({"kind": "sys", "e": e, "ws": None})
        # the same shapes, parentheses removed (flat operator sequences: the parser regroups)
        flat_src = sys_ if quick else sys_ + rng.sample(tri, min(len(tri), 6000))
        for a in flat_src:
            e = parenthesize(a)
            f = drop_parens(e, rng, 1.0)
            if f != e:
                cases.append({"kind": "flat", "e": f, "ws": None})
        # (1b) every literal as the receiver of a select / call / index / message, as an operand of unary minus,
        # and next to a binary minus (the places where a literal's own characters meet `.` or `-`)
        for k, t in LITS:
            lit = ["lit", k, t]
            for e in (["dot", lit, "f"], ["dotarg", lit, "g", []], ["dotarg", lit, "g", [atom(0)]], ["index", lit, atom(0)],
                      ["obj", lit, []], ["neg", lit], ["add", "sub", atom(0), lit], ["add", "sub", lit, atom(0)],
                      ["dot", ["paren", lit], "f"], ["dot", ["dot", lit, "f"], "g"]):
                cases.append({"kind": "litpos", "e": parenthesize(e), "ws": None})
        # (1c) aggregates with 2-3 entries, including textually repeated keys / field names / elements
        for ks in (["a", "b"], ["a", "a"], ["a", "b", "a"], ["a", "a", "a"]):
            vs = [atom(i + 1) for i in range(len(ks))]
            cases.append({"kind": "agg", "e": ["map", [[["ident", k], v] for k, v in zip(ks, vs)]], "ws": None})
            cases.append({"kind": "agg", "e": ["map", [[["lit", "int", str(len(k))], v] for k, v in zip(ks, vs)]], "ws": None})
            cases.append({"kind": "agg", "e": ["obj", atom(0), [[k, v] for k, v in zip(ks, vs)]], "ws": None})
            cases.append({"kind": "agg", "e": ["list", [["ident", k] for k in ks]], "ws": None})
            cases.append({"kind": "agg", "e": ["identarg", "f", [["ident", k] for k in ks]], "ws": None})
            cases.append({"kind": "agg", "e": ["dotarg", atom(0), "f", [["ident", k] for k in ks]], "ws": None})
        # (1d) comments and blanks at the very beginning / end of the source, with and without a final line break
        for i, e in enumerate((atom(0), ["add", "add", atom(0), ["mul", "mul", atom(1), atom(2)]],
                               ["and", ["not", atom(0)], ["rel", "lt", ["neg", atom(1)], atom(2)]])):
            for lead, trail in (("", " // end"), ("", " //"), ("", "// end"), ("// lead\n", ""), ("// lead\r\n", "\n// end\n"),
                                ("\n\n", " // end\n"), ("\t", "\f"), ("", "\n//\n//x")):
                cases.append({"kind": "edge", "e": e, "ws": None, "lead": lead, "trail": trail})
        # (2) random expressions
        n = 500 if quick else 9000
        for i in range(n):
            d = rng.randint(1, 5 if quick else 8)
            a = rand_expr(rng, d)
            if size(a) > 60:
                continue
            e = parenthesize(a, rng, rng.choice([0.0, 0.0, 0.15, 0.4]))
            cases.append({"kind": "rand", "e": e, "ws": rng.randrange(1 << 30)})
            if i % 3 == 0:
                f = drop_parens(e, rng, rng.choice([0.3, 0.7, 1.0]))
                if f != e:
                    cases.append({"kind": "regroup", "e": f, "ws": rng.randrange(1 << 30)})
        # small inputs first, so that the first failing input reported is a small one
        # (5) sequences of related sources parsed one after the other in one process
        cases += seq_cases(rng, 120 if quick else 2500)
        cases.sort(key=lambda c: 0 if c["kind"] == "word" else
                   (sum(len(toks(st["e"])) for st in c["steps"]) if c["kind"] == "seq" else len(toks(c["e"]))))
        return cases

    def search_cases(self, rng):
        return self.generate(rng, "thorough")

    def extra_checks(self, tier, rng):
        """lark builds the LALR(1) table without resolving any shift/reduce conflict"""
        from ..translate import gen_c06
        out = []
        try:
            f = gen_c06.grammar_facts()
            # informational: a conflict breaks Cel.Bridge.grammar_no_conflicts, which triggers the search
            out.append({"name": "lalr-shift-reduce-resolutions", "ok": True,
                        "detail": "; ".join(f["conflicts"][:3]) or "lark debug log: no conflicts",
                        "case": {"kind": "grammar"}})
        except Exception as ex:
            out.append({"name": "lalr-table", "ok": True, "detail": f"not evaluated: {type(ex).__name__}: {ex}", "case": {}})
        return out


def _sample_shapes3(rng: random.Random, n: int) -> Iterable[Any]:
    """random triples of operator frames (quick tier)"""
    for _ in range(n):
        def build(k: int):
            if k == 0:
                return None
            name, ar, mk = rng.choice(FRAMES)
            split = rng.choice(list(_splits(k - 1, ar)))
            return (mk, [build(x) for x in split])

        def realise(t, ctr):
            if t is None:
                ctr[0] += 1
                return atom(ctr[0] - 1)
            mk, subs = t
            return mk([realise(s, ctr) for s in subs])
        yield realise(build(3), [0])


SEQ_SEP = " ;; "
ANON_NAMES = set(ANON.values())


def leaves_obj(o) -> List[List[str]]:
    if isinstance(o[1], str):
        return [o]
    return [x for c in o[1] for x in leaves_obj(c)]


def case_text(c) -> str:
    """the source text of an expression case / of one step of a sequence"""
    ts = toks(c["e"])
    if c.get("seps") is not None:
        body = to_text(ts, None, c["seps"])
    elif c.get("ws") is not None:
        body = to_text(ts, random.Random(c["ws"]))
    else:
        body = to_text(ts, None)
    return c.get("lead", "") + body + c.get("trail", "")


def _key(c) -> str:
    import json
    return json.dumps({k: v for k, v in c.items() if not k.startswith("_")}, sort_keys=True)


PROP = C06()
