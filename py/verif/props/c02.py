"""C02 — logical operators absorb errors commutatively; conditionals are lazy."""
from __future__ import annotations
import itertools
import random
from typing import Any, Dict, Iterable, List, Optional

from ..core import Prop
from .. import celrun

LEAF_TEXT = {
    "t": ["true", "1 == 1", "!false", "'a' < 'b'"],
    "f": ["false", "1 == 2", "!true", "2 < 1"],
    "e": ["1/0 > 0", "[1][5] == 1", "{}.a", "nosuch", "'a' < 1", "int('x') == 1",
          "9223372036854775807 + 1 > 0", "{'a': 1}['b'] == 1", "1 % 0 == 0", "-(-9223372036854775807 - 1) > 0"],
}
VT = [("1", "int:1"), ("'s'", 'string:"s"'), ("2u", "uint:2")]
VF = [("0", "int:0"), ("''", 'string:""'), ("[]", "list:[]")]


# trees: ("lit", cls, textindex) | ("and", a, b) | ("or", a, b) | ("not", a) | ("cond", c, x, y) | ("all", [..]) | ("exists", [..])

def gen_tree(rng: random.Random, size: int, pv: float) -> Any:
    if size <= 1:
        r = rng.random()
        if r < pv:
            return ("lit", rng.choice(["vt", "vf"]), 0)
        cls = rng.choice(["t", "f", "e"])
        return ("lit", cls, rng.randrange(len(LEAF_TEXT[cls])))
    k = rng.choice(["and", "or", "and", "or", "not", "cond", "all", "exists"])
    if k in ("and", "or"):
        ls = rng.randint(1, size - 1)
        return (k, gen_tree(rng, ls, pv), gen_tree(rng, size - ls, pv))
    if k == "not":
        return ("not", gen_tree(rng, size - 1, pv))
    if k == "cond":
        a = rng.randint(1, max(1, size - 2))
        b = rng.randint(1, max(1, size - a - 1))
        return ("cond", gen_tree(rng, a, pv), gen_tree(rng, b, pv), gen_tree(rng, max(1, size - a - b), pv))
    n = rng.randint(0, min(4, size))
    return (k, [gen_tree(rng, max(1, (size - 1) // max(1, n)), pv) for _ in range(n)])


def all_trees(depth: int, leaves: List[Any]) -> List[Any]:
    if depth == 0:
        return list(leaves)
    sub = all_trees(depth - 1, leaves)
    out = list(sub)
    for a, b in itertools.product(sub, sub):
        out.append(("and", a, b))
        out.append(("or", a, b))
    for a in sub:
        out.append(("not", a))
    return out


def to_cel(t: Any, vt: str, vf: str) -> str:
    k = t[0]
    if k == "lit":
        if t[1] == "vt":
            return vt
        if t[1] == "vf":
            return vf
        return "(" + LEAF_TEXT[t[1]][t[2]] + ")"
    if k == "and":
        return f"({to_cel(t[1], vt, vf)} && {to_cel(t[2], vt, vf)})"
    if k == "or":
        return f"({to_cel(t[1], vt, vf)} || {to_cel(t[2], vt, vf)})"
    if k == "not":
        return f"!({to_cel(t[1], vt, vf)})"
    if k == "cond":
        return f"({to_cel(t[1], vt, vf)} ? {to_cel(t[2], vt, vf)} : {to_cel(t[3], vt, vf)})"
    xs = t[1]
    name = "all" if k == "all" else "exists"
    var = f"i{len(xs)}"
    if not xs:
        return f"[].{name}({var}, true)"
    # inside a macro body non-boolean leaves are realised by ints only: the compiled runner coerces the
    # fold result with BoolType(), whose behaviour on non-booleans depends on the concrete Python type
    # (outside the property; the model's `boolTypeOf` abstracts the int case)
    body = to_cel(xs[-1], "1", "0")
    for j in range(len(xs) - 2, -1, -1):
        body = f"({var} == {j} ? {to_cel(xs[j], '1', '0')} : {body})"
    return f"[{', '.join(str(j) for j in range(len(xs)))}].{name}({var}, {body})"


def to_model(t: Any) -> str:
    k = t[0]
    if k == "lit":
        return f"lit {t[1]}"
    if k in ("and", "or"):
        return f"{k} {to_model(t[1])} {to_model(t[2])}"
    if k == "not":
        return f"not {to_model(t[1])}"
    if k == "cond":
        return f"cond {to_model(t[1])} {to_model(t[2])} {to_model(t[3])}"
    return f"{k} {len(t[1])} " + " ".join(to_model(x) for x in t[1])


def spec(t: Any) -> Optional[str]:
    """What the PROPERTY says about the outcome class: 't' | 'f' | 'e' | 'vt' | 'vf' | None (unspecified)."""
    k = t[0]
    if k == "lit":
        return t[1]
    if k in ("and", "or"):
        a, b = spec(t[1]), spec(t[2])
        dec, oth = ("f", "t") if k == "and" else ("t", "f")
        if a == dec or b == dec:
            return dec                      # decides even if the other is an error or a non-boolean
        if a is None or b is None:
            return None
        nb = lambda x: x in ("vt", "vf")
        if nb(a) and nb(b):
            return "e"                      # two non-boolean operands are an error
        if nb(a) or nb(b):
            return None
        if a == oth and b == oth:
            return oth
        return "e"
    if k == "not":
        a = spec(t[1])
        return {"t": "f", "f": "t", "e": "e"}.get(a)
    if k == "cond":
        c = spec(t[1])
        if c == "t":
            return spec(t[2])
        if c == "f":
            return spec(t[3])
        if c is None:
            return None
        return "e"                           # error or non-boolean condition
    xs = [spec(x) for x in t[1]]
    dec, oth = ("f", "t") if k == "all" else ("t", "f")
    if dec in xs:
        return dec
    if any(x is None or x in ("vt", "vf") for x in xs):
        return None
    if all(x == oth for x in xs):
        return oth
    return "e"


def size_of(t) -> int:
    if t[0] == "lit":
        return 1
    if t[0] in ("all", "exists"):
        return 1 + sum(size_of(x) for x in t[1])
    return 1 + sum(size_of(x) for x in t[1:])


class C02(Prop):
    pid = "C02"
    manifest = dict(
        technique='Lean 4 theorems: truth tables, commutativity, absorption, and structural induction over ALL nestings of && || ! ?: all exists for both runners (interpreter model evI and transpiled-program denotation evC) against the Kleene specification; logical_* regenerated from celtypes.py + bridge; differential correspondence on rendered CEL',
        text="proof: both runners equal the three-valued error-absorbing specification on every logical expression tree (any depth, any list length); logical_and/or/not/condition and result()'s caught classes are regenerated from the source on every run",
        note='Lean kernel; standard axioms; py2lean; evaluator control flow hand-modelled and tied by correspondence; lark',
        ref='DESIGN.md §5 C02')
    lean_targets = ["Cel.Props.C02", "Cel.Bridge.Logic"]
    audit_namespaces = ["Cel.Props.C02", "Cel.Bridge"]
    gen_names = ["Logic"]
    trusted = ["sub-expressions realising the leaf classes (true/false/error/non-boolean) evaluate to that class in both runners",
               "lark parsing of the generated text"]
    rule = ("random LExpr trees (size<=7; leaves t/f/e with several concrete realisations each, 15% non-boolean leaves) rendered to CEL and "
            "evaluated on both runners + all 5x5 / 5^3 operand tuples through celtypes.logical_*; thorough adds every and/or/not tree of depth<=2 "
            "over {t,f,e}. non-trivial = distinct tree containing at least one error or non-boolean leaf")

    def generate(self, rng, tier):
        quick = tier == "quick"
        cases = []
        O5 = ["t", "f", "e", "vt", "vf"]
        for x, y in itertools.product(O5, O5):
            cases.append({"kind": "fn", "fn": "and", "args": [x, y]})
            cases.append({"kind": "fn", "fn": "or", "args": [x, y]})
        for x in O5:
            cases.append({"kind": "fn", "fn": "not", "args": [x]})
        for c, x, y in itertools.product(O5, O5, O5):
            cases.append({"kind": "fn", "fn": "cond", "args": [c, x, y]})
        n = 700 if quick else 12000
        for i in range(n):
            t = gen_tree(rng, rng.randint(1, 7), 0.15)
            vi, fi = rng.randrange(len(VT)), rng.randrange(len(VF))
            if "all" in to_model(t).split() or "exists" in to_model(t).split():
                vi, fi = 0, 0     # a non-boolean body value may leak out of the interpreter's fold: keep it an int
            for r in ("I", "C"):
                cases.append({"kind": "expr", "tree": t, "runner": r, "vt": vi, "vf": fi})
        if not quick:
            leaves = [("lit", c, 0) for c in ("t", "f", "e")]
            for t in all_trees(2, leaves):
                for r in ("I", "C"):
                    cases.append({"kind": "expr", "tree": t, "runner": r, "vt": 0, "vf": 0})
        # every realisation of every leaf class, in absorbed and absorbing positions
        for cls, texts in LEAF_TEXT.items():
            for j in range(len(texts)):
                leaf = ("lit", cls, j)
                for t in (leaf, ("and", ("lit", "f", 0), leaf), ("and", leaf, ("lit", "f", 0)), ("or", ("lit", "t", 0), leaf),
                          ("or", leaf, ("lit", "t", 0)), ("cond", ("lit", "t", 0), ("lit", "t", 1), leaf),
                          ("cond", leaf, ("lit", "t", 0), ("lit", "f", 0)), ("not", leaf),
                          ("all", [leaf, ("lit", "f", 0)]), ("exists", [leaf, leaf, ("lit", "t", 0)]), ("all", [leaf, leaf])):
                    for r in ("I", "C"):
                        cases.append({"kind": "expr", "tree": t, "runner": r, "vt": 0, "vf": 0})
        return cases

    @staticmethod
    def _val(cls):
        from celpy import celtypes
        from celpy.evaluation import CELEvalError
        return {"t": celtypes.BoolType(True), "f": celtypes.BoolType(False), "e": CELEvalError("boom"),
                "vt": celtypes.IntType(1), "vf": celtypes.IntType(0)}[cls]

    @staticmethod
    def _cls(v):
        from celpy import celtypes
        from celpy.evaluation import CELEvalError
        if type(v) is celtypes.BoolType:
            return "t" if v else "f"
        if isinstance(v, CELEvalError):
            return "e"
        if type(v) is celtypes.IntType:
            return "vt" if v else "vf"
        return f"other({type(v).__name__})"

    def impl(self, c):
        if c["kind"] == "fn":
            from celpy import celtypes
            f = {"and": celtypes.logical_and, "or": celtypes.logical_or, "not": celtypes.logical_not,
                 "cond": celtypes.logical_condition}[c["fn"]]
            try:
                return "ok " + self._cls(f(*[self._val(a) for a in c["args"]]))
            except Exception as ex:
                return "raise " + type(ex).__name__
        tree = _tuplify(c["tree"])
        src = to_cel(tree, VT[c["vt"]][0], VF[c["vf"]][0])
        return celrun.run(src, c["runner"])

    def model_line(self, c):
        if c["kind"] == "fn":
            return f"fn {c['fn']} " + " ".join(c["args"])
        return f"{c['runner']} {to_model(_tuplify(c['tree']))}"

    def _expect(self, c, cls):
        return {"t": "bool:true", "f": "bool:false", "e": "err", "vt": VT[c["vt"]][1], "vf": VF[c["vf"]][1]}[cls]

    def model_expect(self, c, m):
        if c["kind"] == "fn":
            return m
        if m.startswith("ok "):
            return self._expect(c, m[3:])
        if m.startswith("raise "):
            return "EXC " + m[6:]
        return m

    def oracle(self, c, out):
        if c["kind"] == "fn":
            fn, a = c["fn"], c["args"]
            three = all(x in ("t", "f", "e") for x in a)
            if fn in ("and", "or"):
                t = (fn, ("lit", a[0], 0), ("lit", a[1], 0))
                s = spec(t)
                if s is None:
                    return None
                got = "e" if out.startswith("raise TypeError") else (out[3:] if out.startswith("ok ") else out)
                if got != s:
                    return f"logical_{fn}({a[0]}, {a[1]}) gave {out}; the property requires {s}"
            elif fn == "not" and three:
                exp = {"t": "f", "f": "t", "e": "e"}[a[0]]
                if out != "ok " + exp:
                    return f"logical_not({a[0]}) gave {out}; expected {exp}"
            elif fn == "cond":
                if a[0] in ("t", "f"):
                    exp = a[1] if a[0] == "t" else a[2]
                    if out != "ok " + exp:
                        return f"logical_condition({a}) gave {out}; expected the selected branch {exp}"
                elif not out.startswith("raise TypeError"):
                    return f"logical_condition with condition {a[0]} gave {out}; expected an error"
            return None
        tree = _tuplify(c["tree"])
        s = spec(tree)
        if out.startswith("EXC "):
            return f"{out} escaped from {to_cel(tree, VT[c['vt']][0], VF[c['vf']][0])!r} on runner {c['runner']}"
        if s is None:
            return None
        exp = self._expect(c, s)
        if out != exp:
            return (f"runner {c['runner']}: {to_cel(tree, VT[c['vt']][0], VF[c['vf']][0])!r} gave {out}; "
                    f"error-absorbing semantics require {exp}")
        return None

    def nontrivial(self, c, out):
        if c["kind"] == "fn":
            return any(a not in ("t", "f") for a in c["args"])
        return "e" in to_model(_tuplify(c["tree"])).split() or "vt" in to_model(_tuplify(c["tree"])).split()


def _tuplify(t):
    if isinstance(t, (list, tuple)):
        if t and t[0] in ("all", "exists"):
            return (t[0], [_tuplify(x) for x in t[1]])
        return tuple(_tuplify(x) if isinstance(x, (list, tuple)) else x for x in t)
    return t


PROP = C02()
