"""C02 — logical operators absorb errors commutatively; conditionals are lazy."""
from __future__ import annotations
import itertools
import random
import re
from typing import Any, Dict, Iterable, List, Optional

from ..core import Prop
from .. import celrun

LEAF_TEXT = {
    "t": ["true", "1 == 1", "!false", "'a' < 'b'",
          # round 2 (append only: corpus cases index into these lists)
          "2u > 1u", "'b' in ['a', 'b']", "[1, 2].size() == 2", "1.5 >= 1.5", "!!true", "'abc'.startsWith('a')",
          "type(1) == int", "b'a' != b'b'",
          # round 4 (append only): the operand is a member suffix (`.f`, `.a.b`, `[i]`, `.method()`) applied to a
          # parenthesised ?: / || / && or to a macro result, or has such an expression as its tail -- the transpiler
          # treats these "deferred" sub-expressions specially (own lambda, result()), so an operand that merely BEGINS or
          # ENDS with one is the boundary of every rule that recognises them by their text
          "(true ? {'f': true} : {'f': false}).f", "(false || 2 > 1 ? {'a': {'b': true}} : {}).a.b",
          "[{'f': true}].map(x, x)[0].f", "(1 < 2 && true ? 'ab' : 'c').startsWith('a')", "[[true]].filter(x, true)[0][0]",
          "{'k': [1].exists(x, x == 1)}.k", "(false || true ? [true] : [false])[0]"],
    "f": ["false", "1 == 2", "!true", "2 < 1",
          "2u < 1u", "'c' in ['a', 'b']", "size('ab') == 3", "1.5 > 2.5", "!!false", "'abc'.endsWith('a')",
          "null != null", "1 in []",
          "(true ? {'f': false} : {'f': true}).f", "(1 > 2 || false ? {} : {'a': {'b': false}}).a.b",
          "[{'f': false}].map(x, x)[0].f", "(false ? 'ab' : 'c').startsWith('a')", "[[false]].filter(x, true)[0][0]",
          "{'k': [1].all(x, x == 2)}.k", "(true && 2 > 1 ? [false] : [true])[0]"],
    "e": ["1/0 > 0", "[1][5] == 1", "{}.a", "nosuch", "'a' < 1", "int('x') == 1",
          "9223372036854775807 + 1 > 0", "{'a': 1}['b'] == 1", "1 % 0 == 0", "-(-9223372036854775807 - 1) > 0",
          "size(1) > 0", "'a'.startsWith(1)", "timestamp('x') == timestamp('x')", "duration('x') == duration('x')",
          "[1, 2][-1] == 1", "{'a': 1}.b == 1", "dyn(1) + 'a' == 'a'", "uint(-1) == 1u", "1u - 2u == 0u",
          "int(1e99) == 1", "1.0 / 0 > 0.0", "'x' in 1", "1 in [1/0]", "!1", "-true", "bool('maybe')",
          "18446744073709551615u + 1u > 0u", "double('x') > 0.0", "bytes(1) == b''", "{1: 2}[3] == 2",
          "[1].map(x, 1/0)[0] == 1", "x.y.z", "size([1], 2) == 1", "nosuch(1)", "5 % 0 == 1",
          "(true ? {'f': true} : {'f': false}).g", "(true ? {} : {'f': true}).f", "(false || true ? [true] : [true])[1]",
          "[{'f': true}].map(x, x)[0].g", "[{'f': true}].filter(x, false)[0].f", "(true ? {'k': 1/0 > 0} : {}).k"],
}
# binding strength of a leaf text in cel.lark (for the rendering with as few parentheses as the grammar allows):
# 3 relation, 6 unary, 7 member, 8 primary
_REL = re.compile(r" (==|!=|<|<=|>|>=|in) ")


def leaf_level(text: str) -> int:
    depth, top = 0, []
    for ch in text:
        if ch in "([{":
            depth += 1
        elif ch in ")]}":
            depth -= 1
        top.append(ch if depth == 0 and ch not in ")]}" else "_")
    flat = "".join(top)
    if _REL.search(flat):
        return 3
    if " + " in flat or " - " in flat:
        return 4
    if " * " in flat or "/" in flat or " % " in flat:
        return 5
    if text[0] in "!-":
        return 6
    if "." in flat or text.endswith(")") or text.endswith("]"):
        return 7
    return 8


# non-boolean values: VT are truthy for Python's `if`, VF falsy (the interpreter's `?:` looks at that before it rejects them)
VT = [("1", "int:1"), ("'s'", 'string:"s"'), ("2u", "uint:2"),
      ("1.5", "double:4609434218613702656"), ("'true'", 'string:"true"'), ("b'1'", "bytes:31"),
      ("{'a': 1}", 'map:{string:"a"=>int:1}'), ("[0]", "list:[int:0]"), ("'false'", 'string:"false"'), ("'f'", 'string:"f"'),
      # round 3 (append only): values that are not plain data for Python -- CEL TYPE values are Python classes (callable,
      # constructible, `isinstance(v, type)`), timestamps/durations are datetime objects -- so that code which inspects an
      # operand / a selected branch by duck typing (callable(), hasattr, bool(), iter()) meets every kind of them
      ("int", "type:IntType"), ("type('a')", "type:StringType"), ("list", "type:ListType"), ("type(null)", "type:NoneType"),
      ("type(type(1))", "type:TypeType"), ("map", "type:MapType"), ("bool", "type:BoolType"), ("type(1.5)", "type:DoubleType"),
      ("timestamp('2020-01-02T03:04:05Z')", "timestamp:2020-01-02T03:04:05.000000Z"), ("duration('1s')", "duration:1000000"),
      ("[int, type('a')]", "list:[type:IntType,type:StringType]"), ("{'t': timestamp}", 'map:{string:"t"=>type:TimestampType}'),
      # round 4 (append only): a member suffix on a deferred expression (see LEAF_TEXT)
      ("(true ? {'n': 7} : {'n': 8}).n", "int:7"), ("[{'s': 'x'}].map(x, x)[0].s", 'string:"x"'),
      ("(false || true ? [[1], [2u]] : [])[1][0]", "uint:2")]
VF = [("0", "int:0"), ("''", 'string:""'), ("[]", "list:[]"),
      ("null", "null"), ("0.0", "double:0"), ("0u", "uint:0"), ("{}", "map:{}"), ("b''", "bytes:"),
      ("duration('0s')", "duration:0"),       # round 3: timedelta(0) is falsy
      ("(false ? {} : {'n': 0}).n", "int:0"), ("[{'s': ''}].filter(x, true)[0].s", 'string:""')]     # round 4
N_VT_R2 = 10                                   # VT[N_VT_R2:] are the round-3 kinds


# trees: ("lit", cls, textindex) | ("and", a, b) | ("or", a, b) | ("not", a) | ("cond", c, x, y) | ("all", [..]) | ("exists", [..])

def gen_tree(rng: random.Random, size: int, pv: float) -> Any:
    if size <= 1:
        r = rng.random()
        if r < pv:
            return ("lit", rng.choice(["vt", "vf"]), 0)
        cls = rng.choice(["t", "f", "e"])
        return ("lit", cls, rng.randrange(len(LEAF_TEXT[cls])))
    k = rng.choice(["and", "or", "and", "or", "not", "cond", "all", "exists"])
    if k in ("and", "or"):
        ls = rng.randint(1, size - 1)
        return (k, gen_tree(rng, ls, pv), gen_tree(rng, size - ls, pv))
    if k == "not":
        return ("not", gen_tree(rng, size - 1, pv))
    if k == "cond":
        a = rng.randint(1, max(1, size - 2))
        b = rng.randint(1, max(1, size - a - 1))
        return ("cond", gen_tree(rng, a, pv), gen_tree(rng, b, pv), gen_tree(rng, max(1, size - a - b), pv))
    n = rng.randint(0, min(4, size))
    return (k, [gen_tree(rng, max(1, (size - 1) // max(1, n)), pv) for _ in range(n)])


def gen_var_tree(rng: random.Random, size: int, nv: int) -> Any:
    """and/or/not/?: over variables v0..v{nv-1} (and a few constants)"""
    if size <= 1:
        if rng.random() < 0.85:
            return ("var", rng.randrange(nv))
        return ("lit", rng.choice(["t", "f", "e"]), 0)
    k = rng.choice(["and", "or", "and", "or", "not", "cond"])
    if k in ("and", "or"):
        ls = rng.randint(1, size - 1)
        return (k, gen_var_tree(rng, ls, nv), gen_var_tree(rng, size - ls, nv))
    if k == "not":
        return ("not", gen_var_tree(rng, size - 1, nv))
    a = rng.randint(1, max(1, size - 2))
    b = rng.randint(1, max(1, size - a - 1))
    return ("cond", gen_var_tree(rng, a, nv), gen_var_tree(rng, b, nv), gen_var_tree(rng, max(1, size - a - b), nv))


N_FN_VALUES = 14


def fn_values():
    """(truthy, falsy) non-boolean CEL values per kind index `vk` of a "fn" case"""
    from celpy import celtypes as ct
    from celpy import evaluation as ev
    return [(ct.IntType(1), ct.IntType(0)), (ct.UintType(2), ct.UintType(0)), (ct.DoubleType(1.5), ct.DoubleType(0.0)),
            (ct.StringType("true"), ct.StringType("")), (ct.BytesType(b"1"), ct.BytesType(b"")),
            (ct.ListType([ct.IntType(0)]), ct.ListType([])), (ct.MapType({ct.StringType("a"): ct.IntType(1)}), ct.MapType()),
            (ct.StringType("false"), None),
            # round 3: the values `int`, `list`, `type(null)`, `type(type(1))` (Python classes: callable, constructible
            # without arguments or not), the value of a function name (`size`), a timestamp and a (falsy) zero duration
            (ct.IntType, ct.DurationType("0s")), (ct.ListType, ct.IntType(0)), (type(None), ct.MapType()),
            (ct.TypeType, ct.ListType([])), (ev.function_size, ct.BytesType(b"")),
            (ct.TimestampType("2020-01-02T03:04:05Z"), ct.DurationType("0s"))]


# "branch" cases: the sentence "`c ? x : y` yields exactly the outcome of the selected branch" taken literally -- the
# outcome of the conditional is compared with the outcome of the branch expression evaluated ALONE on the same runner.
# The pool has every kind of outcome a CEL expression can have (append only: corpus cases index into it).
BRANCH_TEXT = [
    "1", "-9223372036854775807 - 1", "18446744073709551615u", "2.5", "0.0 / 0.0 == 0.0 / 0.0", "'a'", "''", "b'x'", "null",
    "true", "false", "[1, 2]", "[]", "{'k': 1}", "{}", "[[1], {'a': [2u, null]}]", "{1: {'b': [true]}}",
    "1/0", "nosuch", "{}.a", "[1][5]", "1 + 'a'",
    "timestamp('2020-01-02T03:04:05Z')", "duration('1h30m')", "duration('0s')",
    "timestamp('2020-01-02T03:04:05Z') - timestamp('2020-01-01T00:00:00Z')",
    # type values, written as names and computed
    "int", "uint", "double", "bool", "string", "bytes", "list", "map", "null_type", "type", "timestamp", "duration",
    "type(1)", "type('a')", "type(null)", "type([1])", "type({})", "type(2.5)", "type(true)", "type(type(1))",
    "type(timestamp('2020-01-02T03:04:05Z'))", "dyn(int)", "[int][0]", "{'a': list}.a",
    # containers of type values, values computed by macros / functions
    "[int, string, type(null)]", "{'t': map, 'u': [type]}", "[1, 2, 3].map(x, type(x))", "[1, 2, 3].filter(x, x > 1)",
    "[1, 2].map(x, x * 2)", "size('abc')", "'abc'.size()", "dyn(1)", "int('12')", "string(12)", "[1, 2][1]", "{'a': 'b'}.a",
    "1 == 1 ? int : string", "(false ? 1 : list)",
    # the value of a function name
    "size", "matches", "getDate",
    # round 4: member suffix on a deferred expression
    "(true ? {'n': 1} : {'n': 2}).n", "[{'v': 'a'}].map(x, x)[0].v", "(false || true ? [[1], [2]] : [])[1][0]",
    "([1].exists(x, x == 1) ? {'a': {'b': [int]}} : {}).a.b",
]


def all_trees(depth: int, leaves: List[Any]) -> List[Any]:
    if depth == 0:
        return list(leaves)
    sub = all_trees(depth - 1, leaves)
    out = list(sub)
    for a, b in itertools.product(sub, sub):
        out.append(("and", a, b))
        out.append(("or", a, b))
    for a in sub:
        out.append(("not", a))
    return out


def to_cel(t: Any, vt: str, vf: str, style: str = "full") -> str:
    """Render a tree as CEL text.  style "full": every operand parenthesised (round 1).  "min": only the parentheses
    the grammar needs, so `and(and(a, b), c)` is the flat chain `a && b && c`, `cond(c, x, cond(d, y, z))` is
    `c ? x : d ? y : z`, `not(not(a))` is `!!a`.  "+div" (with either): an all/exists whose elements are plain
    t/f/e leaves is rendered over the element VALUES, `[1, 0, -1].all(x, 1/x > 0)`, instead of the index ladder."""
    if style.startswith("min"):
        return _render(t, vt, vf, style)[0]
    return _to_cel_full(t, vt, vf, style)


DIV_ELEM = {"t": "1", "f": "-1", "e": "0"}     # 1/x > 0 for x = 1 | -1 | 0


# round 4, "+mixA".."+mixD": all/exists over a list of element values of MIXED type with a predicate that tells them
# apart.  The pools hold, across the classes, CEL values that are different for CEL (and for the predicate) but that
# Python's ==/hash identify: 0.0 / -0.0 / 0 / 0u / false, 1.0 / 1 / 1u / true, -1.0 / -1 -- what a memo, a set, a
# dict.fromkeys or an `in` over the elements confuses (identity vs. equality).  (pred, {class: [element texts]});
# the element of a leaf ("lit", cls, j) is pool[cls][j % len].
MIX = {      # even index: a zero-like element, odd index: a one-like element (so that equal-for-Python pairs are frequent)
    "A": ("1.0 / x > 0.0", {"t": ["0.0", "1.0", "0.0", "2.5"], "f": ["-0.0", "-1.0"], "e": ["0", "1", "0u", "1u", "0", "-1"]}),
    "B": ("x ? true : false", {"t": ["true"], "f": ["false"], "e": ["0", "1", "0u", "1u", "0.0", "1.0", "-0.0", "1"]}),
    "C": ("!x", {"t": ["false"], "f": ["true"], "e": ["0", "1", "0u", "1u", "0.0", "1.0", "-0.0", "1"]}),
    "D": ("type(x) == int ? true : type(x) == uint ? false : 1/0 > 0",
          {"t": ["0", "1", "0", "-1"], "f": ["0u", "1u"], "e": ["0.0", "1.0", "false", "true", "-0.0", "-1.0"]}),
}


def _div_macro(t: Any, style: str) -> Optional[str]:
    xs = t[1]
    i = style.find("+mix")
    if i >= 0 and xs and all(x[0] == "lit" and x[1] in DIV_ELEM for x in xs):
        pred, pool = MIX[style[i + 4]]
        name = "all" if t[0] == "all" else "exists"
        return f"[{', '.join(pool[x[1]][x[2] % len(pool[x[1]])] for x in xs)}].{name}(x, {pred})"
    if "+div" in style and xs and all(x[0] == "lit" and x[1] in DIV_ELEM for x in xs):
        name = "all" if t[0] == "all" else "exists"
        return f"[{', '.join(DIV_ELEM[x[1]] for x in xs)}].{name}(x, 1/x > 0)"
    return None


# round 4, "+wrap": every operand that is itself an && / || / ?: / macro node is wrapped in an expression that hands its
# outcome through unchanged for all five classes (a value comes back as it is, an error stays an error): a field selected
# from a conditional / from a map literal that holds it, an index into a list literal that holds it.  The operand of the
# enclosing operator is then a MEMBER expression that begins with / contains a deferred expression.
WRAPS = ["(true ? {{'k': {0}}} : {{}}).k", "[{0}][0]", "{{'k': {0}}}.k", "(false ? [] : [[{0}]])[0][0]"]


def _wrap(u: Any, s: str, style: str) -> Optional[str]:
    if "+wrap" in style and u[0] not in ("lit", "var", "not"):
        return WRAPS[(size_of(u) + len(s)) % len(WRAPS)].format(s)
    return None


def _to_cel_full(t: Any, vt: str, vf: str, style: str = "full") -> str:
    k = t[0]

    def rec(u, a=vt, b=vf):
        s = _to_cel_full(u, a, b, style)
        return _wrap(u, s, style) or s
    if k == "lit":
        if t[1] == "vt":
            return vt
        if t[1] == "vf":
            return vf
        return "(" + LEAF_TEXT[t[1]][t[2]] + ")"
    if k == "var":
        return f"v{t[1]}"
    if k == "and":
        return f"({rec(t[1])} && {rec(t[2])})"
    if k == "or":
        return f"({rec(t[1])} || {rec(t[2])})"
    if k == "not":
        return f"!({rec(t[1])})"
    if k == "cond":
        return f"({rec(t[1])} ? {rec(t[2])} : {rec(t[3])})"
    xs = t[1]
    name = "all" if k == "all" else "exists"
    var = f"i{len(xs)}"
    if not xs:
        return f"[].{name}({var}, true)"
    d = _div_macro(t, style)
    if d:
        return d
    # inside a macro body non-boolean leaves are realised by ints only: the compiled runner coerces the
    # fold result with BoolType(), whose behaviour on non-booleans depends on the concrete Python type
    # (outside the property; the model's `boolTypeOf` abstracts the int case)
    body = rec(xs[-1], "1", "0")
    for j in range(len(xs) - 2, -1, -1):
        body = f"({var} == {j} ? {rec(xs[j], '1', '0')} : {body})"
    return f"[{', '.join(str(j) for j in range(len(xs)))}].{name}({var}, {body})"


# binding strengths (cel.lark): expr 0 (?: right-assoc: `conditionalor ? conditionalor : expr`), conditionalor 1
# (`conditionalor || conditionaland`), conditionaland 2 (`conditionaland && relation`), relation 3, ..., unary 6, member 7, primary 8
def _render(t: Any, vt: str, vf: str, style: str):
    def need(u, lvl, a=vt, b=vf):
        s, l = _render(u, a, b, style)
        w = _wrap(u, s, style)
        if w:
            return w                 # a member expression (level 7)
        return s if l >= lvl else f"({s})"
    k = t[0]
    if k == "lit":
        if t[1] == "vt":
            return vt, 8
        if t[1] == "vf":
            return vf, 8
        text = LEAF_TEXT[t[1]][t[2]]
        return text, leaf_level(text)
    if k == "var":
        return f"v{t[1]}", 8
    if k == "or":
        return f"{need(t[1], 1)} || {need(t[2], 2)}", 1
    if k == "and":
        return f"{need(t[1], 2)} && {need(t[2], 3)}", 2
    if k == "not":
        return f"!{need(t[1], 6)}", 6
    if k == "cond":
        return f"{need(t[1], 1)} ? {need(t[2], 1)} : {need(t[3], 0)}", 0
    xs = t[1]
    name = "all" if k == "all" else "exists"
    var = f"i{len(xs)}"
    if not xs:
        return f"[].{name}({var}, true)", 7
    d = _div_macro(t, style)
    if d:
        return d, 7
    body = need(xs[-1], 0, "1", "0")
    for j in range(len(xs) - 2, -1, -1):
        body = f"{var} == {j} ? {need(xs[j], 1, '1', '0')} : {body}"
    return f"[{', '.join(str(j) for j in range(len(xs)))}].{name}({var}, {body})", 7


def case_src(c: Dict[str, Any]) -> str:
    return to_cel(_tuplify(c["tree"]), VT[c.get("vt", 0)][0], VF[c.get("vf", 0)][0], c.get("style", "full"))


def to_model(t: Any) -> str:
    k = t[0]
    if k == "lit":
        return f"lit {t[1]}"
    if k in ("and", "or"):
        return f"{k} {to_model(t[1])} {to_model(t[2])}"
    if k == "not":
        return f"not {to_model(t[1])}"
    if k == "cond":
        return f"cond {to_model(t[1])} {to_model(t[2])} {to_model(t[3])}"
    return f"{k} {len(t[1])} " + " ".join(to_model(x) for x in t[1])


def spec(t: Any, env: Optional[List[str]] = None) -> Optional[str]:
    """What the PROPERTY says about the outcome class: 't' | 'f' | 'e' | 'vt' | 'vf' | None (unspecified).
    (mirrored by `Cel.spec` in Model/Logic.lean; `Props.C02.spec_sound` proves both runners' models meet it, and the
    driver's `S` lines compare this function with the Lean one on every generated tree)"""
    k = t[0]
    if k == "lit":
        return t[1]
    if k == "var":
        return env[t[1]]
    if env is not None:
        return spec(subst(t, env))
    if k in ("and", "or"):
        a, b = spec(t[1]), spec(t[2])
        dec, oth = ("f", "t") if k == "and" else ("t", "f")
        if a == dec or b == dec:
            return dec                      # decides even if the other is an error or a non-boolean
        if a is None or b is None:
            return None
        nb = lambda x: x in ("vt", "vf")
        if nb(a) and nb(b):
            return "e"                      # two non-boolean operands are an error
        if nb(a) or nb(b):
            return None
        if a == oth and b == oth:
            return oth
        return "e"
    if k == "not":
        a = spec(t[1])
        return {"t": "f", "f": "t", "e": "e"}.get(a)
    if k == "cond":
        c = spec(t[1])
        if c == "t":
            return spec(t[2])
        if c == "f":
            return spec(t[3])
        if c is None:
            return None
        return "e"                           # error or non-boolean condition
    xs = [spec(x) for x in t[1]]
    dec, oth = ("f", "t") if k == "all" else ("t", "f")
    if dec in xs:
        return dec
    if any(x is None or x in ("vt", "vf") for x in xs):
        return None
    if all(x == oth for x in xs):
        return oth
    return "e"


def subst(t: Any, env: List[str]) -> Any:
    k = t[0]
    if k == "var":
        return ("lit", env[t[1]], 0)
    if k == "lit":
        return t
    if k in ("all", "exists"):
        return (k, [subst(x, env) for x in t[1]])
    return (k,) + tuple(subst(x, env) for x in t[1:])


def chain(op: str, leaves: List[Any]) -> Any:
    """left-deep tree = what the parser builds for the unparenthesised `a op b op c ...`"""
    t = leaves[0]
    for x in leaves[1:]:
        t = (op, t, x)
    return t


def branch_src(c: Dict[str, Any]):
    """(conditional, selected branch alone) of a "branch" case.  shape "sel": `T ? b : o` / `F ? o : b`; "nest": selected
    through an unparenthesised right-nested conditional; "eq": the conditional as an operand (`(c ? b : o) == b`, compared
    with `b == b`)"""
    b, o = BRANCH_TEXT[c["b"]], BRANCH_TEXT[c["o"]]
    T, F = LEAF_TEXT["t"][c["c"]], LEAF_TEXT["f"][c["c"]]
    shape = c.get("shape", "sel")
    if shape == "nest":
        cond = f"{F} ? ({o}) : {T} ? ({b}) : ({o})" if c["side"] == 0 else f"{T} ? ({F} ? ({o}) : ({b})) : ({o})"
    else:
        cond = f"{T} ? ({b}) : ({o})" if c["side"] == 0 else f"{F} ? ({o}) : ({b})"
    if shape == "eq":
        return f"({cond}) == ({b})", f"({b}) == ({b})"
    return cond, b


def size_of(t) -> int:
    if t[0] in ("lit", "var"):
        return 1
    if t[0] in ("all", "exists"):
        return 1 + sum(size_of(x) for x in t[1])
    return 1 + sum(size_of(x) for x in t[1:])


class C02(Prop):
    pid = "C02"
    manifest = dict(
        technique='Lean 4 theorems: truth tables, commutativity, absorption, and structural induction over ALL nestings of && || ! ?: all exists for both runners (interpreter model evI and transpiled-program denotation evC): equal to the Kleene specification on {true,false,error} leaves, and meeting the partial specification `spec` (deciding operand wins, two non-booleans are an error, bad condition is an error, no exception escapes) on trees with arbitrary leaves; logical_* regenerated from celtypes.py + bridge; differential correspondence on rendered CEL (parenthesised and unparenthesised chains, several macro renderings, programs re-evaluated under many activations); oracle spec mirrored against the Lean spec',
        text="proof: both runners equal the three-valued error-absorbing specification on every logical expression tree (any depth, any list length), and meet the property's reading for non-boolean operands on every tree (spec_sound, no_escape); logical_and/or/not/condition and result()'s caught classes are regenerated from the source on every run",
        note='Lean kernel; standard axioms; py2lean; evaluator control flow hand-modelled and tied by correspondence; lark',
        ref='DESIGN.md §5 C02')
    lean_targets = ["Cel.Props.C02", "Cel.Bridge.Logic"]
    audit_namespaces = ["Cel.Props.C02", "Cel.Bridge"]
    gen_names = ["Logic"]
    trusted = ["sub-expressions realising the leaf classes (true/false/error/non-boolean) evaluate to that class in both runners",
               "lark parsing of the generated text"]
    rule = ("random LExpr trees (size<=7; leaves t/f/e with 12-35 concrete realisations each, 15% non-boolean leaves of 22+9 value kinds incl. type values, timestamps, durations) rendered to CEL "
            "fully parenthesised or with the minimal parentheses of the grammar (flat && / || chains, right-nested ?:, !!x), all/exists as index ladder or over "
            "element values; every 3-operand chain over the five classes, long chains (<=60 operands) and lists (<=40 elements); programs over variables compiled "
            "once and evaluated under 3-8 activations; both runners; all 5x5 / 5^3 operand tuples through celtypes.logical_* with 14 kinds of non-boolean value (incl. classes and a function); `c ? x : y` against the selected branch evaluated alone for a pool of 71 branch expressions of every outcome kind; "
            "round 4: leaf / value realisations that are a member suffix on a parenthesised ?: / || / && / macro result, operands wrapped in outcome-preserving "
            "member expressions, all/exists over lists of mixed element types whose members are equal for Python but not for CEL (0.0/-0.0/0/0u/false, 1.0/1/1u/true) with 4 predicates that tell them apart; "
            "thorough adds every and/or/not tree of depth<=2 over {t,f,e}. non-trivial = distinct tree containing at least one error or non-boolean leaf")

    def generate(self, rng, tier):
        quick = tier == "quick"
        cases = []
        O5 = ["t", "f", "e", "vt", "vf"]
        # --- celtypes.logical_* on every operand tuple; the non-boolean operands realised by every CEL value kind ---
        for vk in range(N_FN_VALUES):
            kw = {"vk": vk} if vk else {}
            for x, y in itertools.product(O5, O5):
                if vk and not ({x, y} & {"vt", "vf"}):
                    continue
                cases.append({"kind": "fn", "fn": "and", "args": [x, y], **kw})
                cases.append({"kind": "fn", "fn": "or", "args": [x, y], **kw})
            for x in O5:
                if vk and x not in ("vt", "vf"):
                    continue
                cases.append({"kind": "fn", "fn": "not", "args": [x], **kw})
            for c, x, y in itertools.product(O5, O5, O5):
                if vk and not ({c, x, y} & {"vt", "vf"}):
                    continue
                cases.append({"kind": "fn", "fn": "cond", "args": [c, x, y], **kw})

        late = []            # the random (large) trees go last, so that the first failing input reported is a small one
        sink = [cases]

        def both(t, vi=0, fi=0, style=None):
            for r in ("I", "C"):
                c = {"kind": "expr", "tree": t, "runner": r, "vt": vi, "vf": fi}
                if style:
                    c["style"] = style
                sink[0].append(c)

        def has_macro(t):
            m = to_model(t).split()
            return "all" in m or "exists" in m

        def leaf(cls):
            if cls in ("vt", "vf"):
                return ("lit", cls, 0)
            return ("lit", cls, rng.randrange(len(LEAF_TEXT[cls])))

        # --- random trees, fully parenthesised (round 1) or with the minimal parentheses of the grammar ---
        n = 700 if quick else 12000
        sink[0] = late
        for i in range(n):
            t = gen_tree(rng, rng.randint(1, 7), 0.15)
            vi, fi = rng.randrange(len(VT)), rng.randrange(len(VF))
            if has_macro(t):
                vi, fi = 0, 0     # a non-boolean body value may leak out of the interpreter's fold: keep it an int
            style = rng.choice([None, "min", "min+div", "full+div", "min+wrap", "full+wrap+div", "min+mix" + rng.choice("ABCD")])
            both(t, vi, fi, style)
        if not quick:
            leaves = [("lit", c, 0) for c in ("t", "f", "e")]
            for t in all_trees(2, leaves):
                both(t)
        sink[0] = cases
        # --- unparenthesised chains `a op b op c ...` (left-deep trees): every 3-operand assignment of the five classes,
        #     random longer ones biased to errors/non-booleans with the deciding operand anywhere; mixed && / || chains ---
        for op in ("and", "or"):
            for xs in itertools.product(O5, repeat=3):
                both(chain(op, [leaf(x) for x in xs]), rng.randrange(len(VT)), rng.randrange(len(VF)), "min")
        for i in range(120 if quick else 3000):
            op = rng.choice(["and", "or"])
            dec = "f" if op == "and" else "t"
            m = rng.randint(4, 9) if i % 8 else rng.randint(20, 60)
            xs = [rng.choice(["e", "e", "e", "vt", "vf", "t" if op == "and" else "f"]) for _ in range(m)]
            if rng.random() < 0.7:
                xs[rng.randrange(m)] = dec
            both(chain(op, [leaf(x) for x in xs]), rng.randrange(len(VT)), rng.randrange(len(VF)), "min")
        for i in range(60 if quick else 1500):       # a chain whose operands are chains of the other operator / negations / ?:
            op = rng.choice(["and", "or"])
            other = "or" if op == "and" else "and"
            parts = []
            for _ in range(rng.randint(3, 5)):
                r = rng.random()
                if r < 0.4:
                    parts.append(chain(other, [leaf(rng.choice(O5[:3])) for _ in range(rng.randint(2, 3))]))
                elif r < 0.55:
                    parts.append(("not", leaf(rng.choice(O5[:3]))))
                elif r < 0.7:
                    parts.append(("cond", leaf(rng.choice(O5)), leaf(rng.choice(O5[:3])), leaf(rng.choice(O5[:3]))))
                else:
                    parts.append(leaf(rng.choice(O5)))
            both(chain(op, parts), rng.randrange(len(VT)), rng.randrange(len(VF)), "min")
        # --- `c1 ? x1 : c2 ? x2 : ... : y` (right-nested, unparenthesised) and `!!..!x` ---
        for i in range(60 if quick else 1500):
            t = leaf(rng.choice(O5[:3]))
            for _ in range(rng.randint(2, 5)):
                t = ("cond", leaf(rng.choice(["t", "f", "f", "e", "vt", "vf"])), leaf(rng.choice(O5[:3])), t)
            both(t, rng.randrange(len(VT)), rng.randrange(len(VF)), "min")
        for cls in O5:
            for depth in (2, 3):
                t = ("lit", cls, 0)
                for _ in range(depth):
                    t = ("not", t)
                both(t, 0, 0, "min")
        # --- every non-boolean value kind as condition / absorbed operand / one of two non-booleans ---
        for vi in range(len(VT)):
            for fi in ([vi % len(VF)] if quick else range(len(VF))):
                for v in (("lit", "vt", 0), ("lit", "vf", 0)):
                    for t in (("cond", v, leaf("t"), leaf("f")), ("cond", v, leaf("e"), leaf("e")),
                              ("and", leaf("f"), v), ("and", v, leaf("f")), ("or", leaf("t"), v), ("or", v, leaf("t")),
                              ("and", v, ("lit", "vt", 0)), ("or", ("lit", "vf", 0), v), ("not", v),
                              ("or", ("and", v, v), leaf("t")), ("and", ("cond", v, leaf("t"), leaf("t")), leaf("f")),
                              # round 3: ... and as the SELECTED branch (the outcome must be exactly that value), the other
                              # branch an error / another non-boolean; selected through a nested conditional
                              ("cond", leaf("t"), v, leaf("e")), ("cond", leaf("f"), leaf("e"), v),
                              ("cond", leaf("f"), ("lit", "vf", 0), ("cond", leaf("t"), v, ("lit", "vt", 0)))):
                        both(t, vi, fi, rng.choice([None, "min"]))
        # --- round 3: the selected branch of every outcome kind, compared with the branch evaluated alone ---
        for bi in range(len(BRANCH_TEXT)):
            oi = rng.randrange(len(BRANCH_TEXT))
            for r in ("I", "C"):
                for shape in (["sel"] if quick and bi % 3 else ["sel", "nest", "eq"]):
                    cases.append({"kind": "branch", "runner": r, "b": bi, "o": oi, "side": rng.randrange(2), "shape": shape,
                                  "c": rng.randrange(min(len(LEAF_TEXT["t"]), len(LEAF_TEXT["f"])))})
        # --- long lists for all/exists (absorbing element early / late / absent), both macro renderings ---
        for i in range(24 if quick else 400):
            k = rng.choice(["all", "exists"])
            dec, oth = ("f", "t") if k == "all" else ("t", "f")
            m = rng.randint(5, 40)
            xs = [rng.choice([oth, oth, "e"]) for _ in range(m)]
            if i % 3:
                xs[rng.choice([0, m - 1, rng.randrange(m)])] = dec
            t = (k, [("lit", x, 0) for x in xs])
            if rng.random() < 0.5:
                t = rng.choice([("or", t, leaf("f")), ("and", t, leaf("t")), ("cond", t, leaf("t"), leaf("f")), ("not", t)])
            both(t, 0, 0, rng.choice(["min+div", "full+div", "min"]))
        for k in ("all", "exists"):                  # every list of length <= 3 over {t,f,e}, element-valued rendering
            for m in range(1, 4):
                for xs in itertools.product("tfe", repeat=m):
                    both((k, [("lit", x, 0) for x in xs]), 0, 0, "min+div")
        # --- round 4: lists of MIXED element types whose members are equal for Python but not for CEL (see MIX): every list of
        #     length <= 2 for every family, every list of length 3 with a random family; the element realisations are random
        for k in ("all", "exists"):
            for m in range(1, 4):
                for xs in itertools.product("tfe", repeat=m):
                    for fam in ("ABCD" if m < 3 else rng.choice("ABCD") + rng.choice("ABCD")):
                        g = rng.randrange(2)          # mostly one group: zero-like or one-like elements
                        t = (k, [("lit", x, g + 2 * rng.randrange(6) if rng.random() < 0.8 else rng.randrange(12)) for x in xs])
                        if m == 3 and rng.random() < 0.3:
                            t = rng.choice([("or", t, leaf("f")), ("and", t, leaf("t")), ("cond", t, leaf("t"), leaf("f")), ("not", t)])
                        both(t, 0, 0, "min+mix" + fam)
        # --- round 4: operands wrapped in outcome-preserving member expressions (see WRAPS): small trees whose operands are
        #     themselves operators / conditionals / macros
        for i in range(80 if quick else 2000):
            t = gen_tree(rng, rng.randint(3, 6), 0.15)
            if has_macro(t):
                both(t, 0, 0, rng.choice(["min+wrap", "full+wrap", "min+wrap+div"]))
            else:
                both(t, rng.randrange(len(VT)), rng.randrange(len(VF)), rng.choice(["min+wrap", "full+wrap"]))
        # --- one compiled program, a sequence of activations (operands are variables; absent variable = error) ---
        for i in range(40 if quick else 600):
            nv = rng.randint(2, 4)
            t = gen_var_tree(rng, rng.randint(2, 6), nv)
            acts = [[rng.choice(O5) for _ in range(nv)] for _ in range(rng.randint(3, 8))]
            for r in ("I", "C"):
                cases.append({"kind": "prog", "tree": t, "runner": r, "acts": acts, "style": rng.choice(["full", "min"])})
        # every realisation of every leaf class, in absorbed and absorbing positions
        for cls, texts in LEAF_TEXT.items():
            for j in range(len(texts)):
                lf = ("lit", cls, j)
                for t in (lf, ("and", ("lit", "f", 0), lf), ("and", lf, ("lit", "f", 0)), ("or", ("lit", "t", 0), lf),
                          ("or", lf, ("lit", "t", 0)), ("cond", ("lit", "t", 0), ("lit", "t", 1), lf),
                          ("cond", lf, ("lit", "t", 0), ("lit", "f", 0)), ("not", lf),
                          ("all", [lf, ("lit", "f", 0)]), ("exists", [lf, lf, ("lit", "t", 0)]), ("all", [lf, lf])):
                    both(t, 0, 0, None if j < 4 or (cls == "e" and j < 10) else rng.choice([None, "min"]))
        return cases + late

    @staticmethod
    def _val(cls, vk=0):
        from celpy import celtypes
        from celpy.evaluation import CELEvalError
        if cls == "t":
            return celtypes.BoolType(True)
        if cls == "f":
            return celtypes.BoolType(False)
        if cls == "e":
            return CELEvalError("boom")
        return fn_values()[vk][0 if cls == "vt" else 1]

    @staticmethod
    def _cls(v, args=(), classes=()):
        from celpy import celtypes
        from celpy.evaluation import CELEvalError
        if type(v) is celtypes.BoolType:
            return "t" if v else "f"
        if isinstance(v, CELEvalError):
            return "e"
        for a, k in zip(args, classes):            # a non-boolean operand handed back
            if v is a:
                return k
        for a, k in zip(args, classes):
            if type(v) is type(a) and k in ("vt", "vf") and v == a:
                return k
        return f"other({type(v).__name__})"

    def impl(self, c):
        if c["kind"] == "fn":
            from celpy import celtypes
            f = {"and": celtypes.logical_and, "or": celtypes.logical_or, "not": celtypes.logical_not,
                 "cond": celtypes.logical_condition}[c["fn"]]
            args = [self._val(a, c.get("vk", 0)) for a in c["args"]]
            try:
                return "ok " + self._cls(f(*args), args, c["args"])
            except Exception as ex:
                return "raise " + type(ex).__name__
        if c["kind"] == "prog":
            return self._impl_prog(c)
        if c["kind"] == "branch":
            src, alone = branch_src(c)
            return celrun.run(src, c["runner"]) + " <> " + celrun.run(alone, c["runner"])
        return celrun.run(case_src(c), c["runner"])

    def _impl_prog(self, c):
        """compile ONCE, evaluate the same program under every activation of the case, in order"""
        import celpy
        from celpy.evaluation import CELEvalError
        tree = _tuplify(c["tree"])
        src = to_cel(tree, "1", "0", c.get("style", "full"))
        try:
            env = celpy.Environment(runner_class=celrun.RUNNERS[c["runner"]])
            prog = env.program(env.compile(src))
        except Exception as ex:
            return f"EXC {type(ex).__name__}"
        outs = []
        for act in c["acts"]:
            b = {f"v{i}": self._val(k) for i, k in enumerate(act) if k != "e"}
            try:
                outs.append(celrun.canon(prog.evaluate(b)))
            except CELEvalError:
                outs.append("err")
            except Exception as ex:
                outs.append(f"EXC {type(ex).__name__}")
        return "|".join(outs)

    def model_line(self, c):
        if c["kind"] == "fn":
            return f"fn {c['fn']} " + " ".join(c["args"])
        if c["kind"] in ("prog", "branch"):
            return None
        return f"{c['runner']} {to_model(_tuplify(c['tree']))}"

    def _expect(self, c, cls):
        return {"t": "bool:true", "f": "bool:false", "e": "err", "vt": VT[c["vt"]][1], "vf": VF[c["vf"]][1]}[cls]

    def model_expect(self, c, m):
        if c["kind"] == "fn":
            return m
        if m.startswith("ok "):
            return self._expect(c, m[3:])
        if m.startswith("raise "):
            return "EXC " + m[6:]
        return m

    def oracle(self, c, out):
        if c["kind"] == "fn":
            fn, a = c["fn"], c["args"]
            three = all(x in ("t", "f", "e") for x in a)
            if fn in ("and", "or"):
                t = (fn, ("lit", a[0], 0), ("lit", a[1], 0))
                s = spec(t)
                if s is None:
                    return None
                got = "e" if out.startswith("raise TypeError") else (out[3:] if out.startswith("ok ") else out)
                if got != s:
                    return f"logical_{fn}({a[0]}, {a[1]}) gave {out}; the property requires {s}"
            elif fn == "not" and three:
                exp = {"t": "f", "f": "t", "e": "e"}[a[0]]
                if out != "ok " + exp:
                    return f"logical_not({a[0]}) gave {out}; expected {exp}"
            elif fn == "cond":
                if a[0] in ("t", "f"):
                    exp = a[1] if a[0] == "t" else a[2]
                    if out != "ok " + exp:
                        return f"logical_condition({a}) gave {out}; expected the selected branch {exp}"
                elif not out.startswith("raise TypeError"):
                    return f"logical_condition with condition {a[0]} gave {out}; expected an error"
            return None
        if c["kind"] == "branch":
            src, alone = branch_src(c)
            got, _, ref = out.partition(" <> ")
            if got.startswith("EXC ") or got == "parse-error":
                return f"{got} from {src!r} on runner {c['runner']}" if not ref.startswith("EXC ") and ref != "parse-error" else None
            if ref.startswith("EXC ") or ref == "parse-error":
                return None                  # the branch on its own is outside the property (no outcome to compare with)
            if got != ref:
                return (f"runner {c['runner']}: {src!r} gave {got}, but the selected branch {alone!r} evaluated alone gives {ref}; "
                        f"`c ? x : y` must yield exactly the outcome of the selected branch")
            return None
        tree = _tuplify(c["tree"])
        if c["kind"] == "prog":
            src = to_cel(tree, "1", "0", c.get("style", "full"))
            outs = out.split("|")
            if out.startswith("EXC ") or len(outs) != len(c["acts"]):
                return f"{out} escaped from compiling {src!r} on runner {c['runner']}"
            for i, (act, o) in enumerate(zip(c["acts"], outs)):
                if o.startswith("EXC "):
                    return f"{o} escaped from {src!r} on runner {c['runner']}, activation #{i} {act}"
                s = spec(tree, act)
                if s is None:
                    continue
                exp = {"t": "bool:true", "f": "bool:false", "e": "err", "vt": "int:1", "vf": "int:0"}[s]
                if o != exp:
                    return (f"runner {c['runner']}: program {src!r}, evaluation #{i} of the same program with variables {act} "
                            f"(absent = 'e') gave {o}; error-absorbing semantics require {exp}")
            return None
        s = spec(tree)
        if out.startswith("EXC "):
            return f"{out} escaped from {case_src(c)!r} on runner {c['runner']}"
        if s is None:
            return None
        exp = self._expect(c, s)
        if out != exp:
            return (f"runner {c['runner']}: {case_src(c)!r} gave {out}; "
                    f"error-absorbing semantics require {exp}")
        return None

    def extra_checks(self, tier, rng):
        """the oracle's `spec()` (Python) against `Cel.spec` (Lean, the subject of `Props.C02.spec_sound`) on random trees with
        many non-boolean leaves, every binary/unary/ternary tree over the five classes and every list of length <= 3"""
        from ..core import run_driver
        O5 = ["t", "f", "e", "vt", "vf"]
        L = [("lit", c, 0) for c in O5]
        trees = [gen_tree(rng, rng.randint(1, 9), 0.35) for _ in range(1500 if tier == "quick" else 20000)]
        trees += all_trees(1, L) + [("cond", c, x, y) for c in L for x in L for y in L]
        for k in ("all", "exists"):
            for m in range(0, 4):
                trees += [(k, list(xs)) for xs in itertools.product(L, repeat=m)]
            trees += [("or", (k, [a, b]), c) for a in L for b in L for c in L]
        try:
            outs = run_driver(self.pid, ["S " + to_model(t) for t in trees])
        except Exception as ex:       # the build is broken: reported through the proof half
            return [{"name": "spec-mirror", "ok": True, "detail": f"driver unavailable ({str(ex)[:80]})"}]
        bad = [(t, o) for t, o in zip(trees, outs) if o != "spec " + (spec(t) or "none")]
        return [{"name": "spec-mirror", "ok": not bad, "case": {"kind": "spec", "tree": bad[0][0]} if bad else None,
                 "detail": (f"oracle spec() and Lean Cel.spec agree on {len(trees)} trees" if not bad else
                            f"CHECK BUG: oracle spec() = {spec(bad[0][0])} but Cel.spec = {bad[0][1]} on {to_model(bad[0][0])}")}]

    def nontrivial(self, c, out):
        if c["kind"] == "fn":
            return any(a not in ("t", "f") for a in c["args"])
        if c["kind"] == "prog":
            return any(a not in ("t", "f") for act in c["acts"] for a in act)
        if c["kind"] == "branch":
            return not out.startswith(("bool:", "EXC", "parse-error"))
        return "e" in to_model(_tuplify(c["tree"])).split() or "vt" in to_model(_tuplify(c["tree"])).split()


def _tuplify(t):
    if isinstance(t, (list, tuple)):
        if t and t[0] in ("all", "exists"):
            return (t[0], [_tuplify(x) for x in t[1]])
        return tuple(_tuplify(x) if isinstance(x, (list, tuple)) else x for x in t)
    return t


PROP = C02()
