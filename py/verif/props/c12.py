"""C12 — names resolve to the longest matching binding; macro variables are scoped.

Roles:
  impl     Environment(package=…, annotations=…).program(compile(text)).evaluate(bindings) on both runners
           (`hist`: the same program is first evaluated with earlier binding sets; the outcome is that of the last call)
  model    Cel.Model.Names through Cel.Drv.C12 (NameContainer tree, find_name, resolve_name, member_dot, macro binding)
  oracle   the longest-prefix specification and lexical macro scoping, computed here in plain Python from the
           binding *names* (no tree is built), independent of the model and the implementation
"""
from __future__ import annotations
import itertools
import random
from typing import Any, Dict, List, Optional, Tuple

from ..core import Prop

ANN_TYPES = ["IntType", "StringType", "MapType", "BoolType"]

# ----------------------------------------------------------------------------------------------
# rendering
# ----------------------------------------------------------------------------------------------


def val_cel(v) -> str:
    if v is None:
        return "null"
    if isinstance(v, bool):
        raise ValueError
    if isinstance(v, int):
        return str(v) if v >= 0 else f"({v})"
    if isinstance(v, dict):
        return "{" + ", ".join(f'"{k}": {val_cel(x)}' for k, x in v.items()) + "}"
    if isinstance(v, list):
        return "[" + ", ".join(val_cel(x) for x in v) + "]"
    raise ValueError(type(v))


def val_tok(v) -> str:
    if v is None:
        return "n"
    if isinstance(v, int):
        return f"i{v}"
    if isinstance(v, dict):
        return f"M {len(v)}" + "".join(f" {k} {val_tok(x)}" for k, x in v.items())
    return f"L {len(v)}" + "".join(" " + val_tok(x) for x in v)


def val_show(v) -> str:
    if v is None:
        return "null"
    if isinstance(v, int):
        return str(v)
    if isinstance(v, dict):
        return "{" + ",".join(f"{k}:{val_show(x)}" for k, x in v.items()) + "}"
    return "[" + ",".join(val_show(x) for x in v) + "]"


def e_cel(e) -> str:
    k = e[0]
    if k == "ref":
        return e[1]
    if k == "lit":
        return val_cel(e[1])
    if k == "list":
        return "[" + ", ".join(e_cel(x) for x in e[1]) + "]"
    if k == "map":
        c = e_cel(e[2])
        return f"{c}.map({e[1]}, {e_cel(e[3])})"
    raise ValueError(k)


def e_tok(e) -> str:
    k = e[0]
    if k == "ref":
        return f"ref {e[1]}"
    if k == "lit":
        return "lit " + val_tok(e[1])
    if k == "list":
        return f"list {len(e[1])}" + "".join(" " + e_tok(x) for x in e[1])
    return f"map {e[1]} {e_tok(e[2])} {e_tok(e[3])}"


def e_walk(e):
    yield e
    if e[0] == "list":
        for x in e[1]:
            yield from e_walk(x)
    elif e[0] == "map":
        yield from e_walk(e[2])
        yield from e_walk(e[3])


# ----------------------------------------------------------------------------------------------
# implementation
# ----------------------------------------------------------------------------------------------

def canon(v) -> str:
    from celpy import celtypes
    from celpy.evaluation import CELEvalError, NameContainer
    if v is None:
        return "null"
    if isinstance(v, CELEvalError):
        return "E"
    if isinstance(v, NameContainer):
        return "NC"
    if isinstance(v, type):
        n = v.__name__
        return f"T{ANN_TYPES.index(n)}" if n in ANN_TYPES else f"T?{n}"
    if isinstance(v, (celtypes.BoolType, bool)):
        return "?bool"
    if isinstance(v, int):
        return str(int(v))
    if isinstance(v, dict):
        return "{" + ",".join(f"{k}:{canon(x)}" for k, x in v.items()) + "}"
    if isinstance(v, list):
        return "[" + ",".join(canon(x) for x in v) + "]"
    return f"?{type(v).__name__}"


def run_impl(c) -> str:
    import celpy
    from celpy import celtypes
    from celpy.adapter import json_to_cel
    from celpy.evaluation import CELEvalError
    try:
        ann = {p: getattr(celtypes, ANN_TYPES[a]) for p, a in c.get("decls", [])} or None
        env = celpy.Environment(package=c.get("pkg") or None, annotations=ann,
                                runner_class={"I": celpy.InterpretedRunner, "C": celpy.CompiledRunner}[c["runner"]])
        try:
            ast = env.compile(e_cel(c["e"]))
        except celpy.CELParseError:
            return "parse-error"
        prog = env.program(ast)
        for earlier in c.get("hist") or []:          # earlier evaluations of the SAME program, other bindings
            try:
                prog.evaluate({p: json_to_cel(v) for p, v in earlier})
            except Exception:  # noqa
                pass
        v = prog.evaluate({p: json_to_cel(v) for p, v in c["binds"]})
        if isinstance(v, CELEvalError):
            return "err"
        return canon(v)
    except CELEvalError:
        return "err"
    except RecursionError:
        return "EXC RecursionError"
    except Exception as ex:  # noqa
        return f"EXC {type(ex).__name__}"


# ----------------------------------------------------------------------------------------------
# the specification (oracle): longest bound prefix, lexical macro scope
# ----------------------------------------------------------------------------------------------

# names the environment itself declares (types, functions): they denote those as long as nothing is bound to them
BUILTIN_NAMES = frozenset(["int", "uint", "double", "bool", "string", "bytes", "list", "map", "type", "timestamp", "duration",
                           "null_type", "dyn", "size", "matches", "contains", "getDate"])


class SpecErr(Exception):
    pass


class Unspec(Exception):
    pass


def split(p: str) -> Tuple[str, ...]:
    return tuple(p.split(".")) if p else ()


def levels(pkg: Tuple[str, ...]):
    for cut in range(len(pkg), -1, -1):
        yield pkg[:cut]


def denote(names: Dict[Tuple[str, ...], Any], pkg: Tuple[str, ...], ref: Tuple[str, ...]):
    """names: dotted binding name -> value.  Returns (value, level, bound_name) or raises SpecErr."""
    for L in levels(pkg):
        head = L + (ref[0],)
        if any(n[:len(head)] == head for n in names):
            full = L + ref
            best = None
            for k in range(len(L) + 1, len(full) + 1):
                if full[:k] in names:
                    best = full[:k]
            if best is None:
                raise SpecErr(("unbound", L, full))
            v = names[best]
            for comp in full[len(best):]:
                if isinstance(v, dict) and comp in v:
                    v = v[comp]
                else:
                    raise SpecErr(("field", L, best))
            return v, L, best
    raise SpecErr(("nohead",))


def declaration_apart(d: Tuple[str, ...], full: Tuple[str, ...], names) -> bool:
    """A declared, unbound name `d` that shares its head with the qualified reference `full` takes no part in
    the lookup when the two part ways inside a namespace that the BINDINGS create anyway: their longest common
    prefix is a proper prefix of both (the reference neither reaches the declared name nor stops at one of its
    namespaces) and of some binding's name (so the declaration adds a sibling entry to an existing namespace,
    not a namespace below a value or a level that would otherwise bind nothing)."""
    k = 0
    while k < len(d) and k < len(full) and d[k] == full[k]:
        k += 1
    if k == len(d) or k == len(full):
        return False
    return any(len(n) > k and n[:k] == full[:k] for n in names)


class Spec:
    def __init__(self, c):
        self.names = {split(p): v for p, v in c["binds"]}
        self.decls = {split(p) for p, _ in c.get("decls", [])}
        self.pkg = split(c.get("pkg") or "")
        self.used = []          # (level, bound name or None, full reference) of every binding lookup

    def ev(self, e, env: List[Tuple[str, Any]]):
        k = e[0]
        if k == "lit":
            return e[1]
        if k == "list":
            return [self.ev(x, env) for x in e[1]]
        if k == "map":
            rng = self.ev(e[2], env)
            if not isinstance(rng, list):
                raise Unspec("range")
            return [self.ev(e[3], [(e[1], v)] + env) for v in rng]
        ref = split(e[1])
        for x, v in env:                      # innermost first
            if x == ref[0]:
                if self.pkg and any(n[:len(L) + 1] == L + (x,) for L in levels(self.pkg) if L for n in self.names):
                    raise Unspec("macro variable vs. a package-qualified binding of the same name")
                for comp in ref[1:]:
                    if isinstance(v, dict) and comp in v:
                        v = v[comp]
                    else:
                        raise SpecErr(("field-of-var",))
                return v
        # declarations without a binding that could take part in this lookup: the property is silent
        for d in self.decls - set(self.names):
            for L in levels(self.pkg):
                if d[:len(L) + 1] == L + (ref[0],) and not declaration_apart(d, L + ref, self.names):
                    raise Unspec("declared, unbound name in reach")
        for n in self.names:                  # a binding named like (a prefix of) the package path
            if n == self.pkg[:len(n)] and self.pkg:
                raise Unspec("binding on the package path")
        try:
            v, L, best = denote(self.names, self.pkg, ref)
        except SpecErr as ex:
            if any(t in BUILTIN_NAMES for t in ref):
                # nothing bound: the name of a CEL type / built-in function denotes that type / function (the
                # environment's own declaration), the statement only says what BINDINGS a reference denotes
                raise Unspec("no binding, and the reference spells a built-in type or function")
            a = ex.args[0]
            self.used.append((a[1] if len(a) > 1 else None, a[2] if a[0] == "field" else None, a[2] if a[0] == "unbound" else None))
            raise
        self.used.append((L, best, L + ref))
        return v

    def outcome(self, e) -> Optional[str]:
        try:
            return val_show(self.ev(e, []))
        except SpecErr:
            return "err"
        except Unspec:
            return None


# ----------------------------------------------------------------------------------------------
# known findings
# ----------------------------------------------------------------------------------------------

def _spec_trace(c):
    s = Spec(c)
    s.outcome(c["e"])
    return s


def value_under_container(c) -> bool:
    """D19: the binding the reference denotes (its longest bound prefix) is also a proper prefix of another
    binding's name: the Referent holds a value AND a nested container, `.value` prefers the container."""
    s = _spec_trace(c)
    for L, best, full in s.used:
        if best is not None and any(len(n) > len(best) and n[:len(best)] == best for n in s.names):
            return True
    return False


def namespace_as_value(c) -> bool:
    """D66: a reference that stops at (or walks into) a pure namespace node — a proper prefix of binding names
    that is not itself bound below the level — evaluates to the NameContainer object instead of an error."""
    s = _spec_trace(c)
    for L, best, full in s.used:
        if best is None and full is not None and any(len(n) > len(full) and n[:len(full)] == full for n in s.names):
            return True
    return False


def ref_heads(e) -> List[str]:
    return [x[1].split(".")[0] for x in e_walk(e) if x[0] == "ref"]


ACTIVATION_ATTRS = frozenset(["identifiers", "functions", "package", "get", "clone", "nested_activation", "resolve_variable"])
OBJECT_DUNDERS = frozenset(n for n in dir(object)) | frozenset(["__dict__", "__module__", "__weakref__", "__getattr__", "__doc__",
                                                                "__annotations__"])


def activation_attribute_name(c) -> bool:
    """D68: transpiled code reads the identifier NAME as the Python attribute `activation.NAME`; `__getattr__` (the
    name lookup) only runs when normal attribute lookup fails, so an identifier spelled like a real attribute or
    method of the Activation object (identifiers, functions, package, get, clone, ..., __init__, __dict__, ...)
    yields that attribute instead of the binding / macro variable.  CompiledRunner only; head of a reference only."""
    if c.get("runner") != "C":
        return False
    return any(h in ACTIVATION_ATTRS or h in OBJECT_DUNDERS for h in ref_heads(c["e"]))


def builtin_unbound_head(c) -> bool:
    """a reference whose head spells a built-in type / function and is bound nowhere (no macro variable, no binding or
    declaration starting with it at a package level): it denotes the built-in, which the model of the bindings does not carry"""
    names = [split(p) for p, _ in list(c["binds"]) + list(c.get("decls", []))]
    lv = list(levels(split(c.get("pkg") or "")))

    def walk(e, scope) -> bool:
        if e[0] == "ref":
            ref = split(e[1])
            return (any(t in BUILTIN_NAMES for t in ref) and ref[0] not in scope
                    and not any(n[:len(L) + 1] == L + (ref[0],) for L in lv for n in names))
        if e[0] == "list":
            return any(walk(x, scope) for x in e[1])
        if e[0] == "map":
            return walk(e[2], scope) or walk(e[3], scope | {e[1]})      # lexical: the variable is visible in the body only
        return False
    return walk(c["e"], frozenset())


# ----------------------------------------------------------------------------------------------
# generator: exhaustive small scope
# ----------------------------------------------------------------------------------------------

PI = ("a", "b", "c")
REFS = ["a", "a.b", "a.b.c", "a.c", "a.b.x", "a.x", "b", "a.b.c.d"]
PKGS = ["", "p", "p.q"]
LEVELS = [(), ("p",), ("p", "q")]


def level_choices(full: bool):
    """per prefix of a.b.c: 0 unbound, 1 scalar, 2 nested map"""
    if full:
        return list(itertools.product((0, 1, 2), (0, 1, 2), (0, 1)))        # depth 3 is the end of the path: scalar only
    return [(0, 0, 0), (1, 0, 0), (2, 0, 0), (0, 1, 0), (0, 0, 1), (2, 1, 0), (0, 2, 1), (1, 0, 1)]


def level_bindings(li: int, choice) -> List[Tuple[str, Any]]:
    L = LEVELS[li]
    out = []
    for depth, ch in enumerate(choice, 1):
        if ch == 0:
            continue
        name = ".".join(L + PI[:depth])
        base = 1000 * (li + 1) + 100 * depth
        if ch == 1:
            v: Any = base
        else:
            # a nested map continuing the path, plus sibling keys that let a reference leave it
            if depth == 1:
                v = {"b": {"c": base + 11, "x": base + 12}, "c": base + 13, "x": base + 14}
            else:
                v = {"c": base + 21, "x": base + 22}
        out.append((name, v))
    return out


def all_configs():
    for c0 in level_choices(True):
        for c1 in level_choices(False):
            for c2 in level_choices(False):
                yield (c0, c1, c2)


def config_cases(cfg, order_rng: Optional[random.Random] = None):
    binds = []
    for li, ch in enumerate(cfg):
        binds += level_bindings(li, ch)
    if order_rng is not None:
        order_rng.shuffle(binds)
    for pkg in PKGS:
        for ref in REFS:
            for rn in ("I", "C"):
                yield {"kind": "ref", "runner": rn, "pkg": pkg, "decls": [], "binds": [list(b) for b in binds], "e": ["ref", ref]}


VARS = ["x", "y", "a", "b"]


def macro_expr(rng: random.Random, depth: int, scope: List[Tuple[str, str]], blocked=frozenset()):
    """scope: (variable, kind of its values: 'int' | 'map' | 'list'), innermost first.
    blocked: identifiers that a package level may resolve first (never used as the *range* of a macro: iterating
    a NameContainer or a bound map yields its keys, which the model's value type does not carry)"""
    r = rng.random()
    if depth <= 0 or r < 0.25:
        # a reference: to a macro variable (with optional field), or to a binding
        if scope and rng.random() < 0.6:
            vis = {}
            for v, kind in reversed(scope):
                vis[v] = kind
            v, kind = rng.choice(sorted(vis.items()))
            return ["ref", v if (kind != "map" or rng.random() < 0.4) else v + "." + rng.choice(["k", "b", "zz"])]
        return ["ref", rng.choice(["a", "a.b", "x", "y", "y.k", "b", "a.b.c", "w.k"])]
    if r < 0.45:
        return ["list", [macro_expr(rng, depth - 1, scope, blocked) for _ in range(rng.randint(1, 3))]]
    x = rng.choice(VARS)
    rr = rng.random()
    seen, lists = set(), []
    for v, kind in scope:                     # only the innermost binding of each name is visible
        if v not in seen and kind == "list" and v not in blocked:
            lists.append(v)
        seen.add(v)
    if lists and rr < 0.3:
        rng_e, kind = ["ref", rng.choice(lists)], "int"      # iterate over an outer macro variable (a list element)
    elif rr < 0.5:
        rng_e, kind = ["lit", [rng.randint(1, 9) for _ in range(rng.randint(0, 3))]], "int"
    elif rr < 0.7:
        rng_e, kind = ["lit", [{"k": rng.randint(1, 9), "b": rng.randint(1, 9)} for _ in range(rng.randint(1, 2))]], "map"
    elif rr < 0.9:
        rng_e, kind = ["lit", [[rng.randint(1, 9) for _ in range(rng.randint(0, 2))] for _ in range(rng.randint(1, 2))]], "list"
    else:
        rng_e, kind = ["list", [macro_expr(rng, depth - 1, scope, blocked) for _ in range(rng.randint(1, 2))]], "int"
    return ["map", x, rng_e, macro_expr(rng, depth - 1, [(x, kind)] + scope, blocked)]


PKG_NAMES = ["p", "q", "r", "s"]


def deep_package_cases(rng: random.Random, n: int):
    """package paths of ANY depth (1..5 names, names may repeat), the head identifier bound at an arbitrary
    subset of the package levels (root, first name, every intermediate level, full path) as a scalar, a
    dotted name or a map; the reference must mean the first level from the longest that binds the head.
    (The exhaustive family above only has the depths 0, 1, 2.)"""
    for i in range(n):
        depth = 3 + i % 3 if i < (2 * n) // 3 else rng.randint(1, 5)
        if rng.random() < 0.25:
            pkg = tuple(rng.choice(PKG_NAMES[:2]) for _ in range(depth))       # repeated names: p.p.q, p.q.p
        else:
            pkg = tuple(PKG_NAMES[j % 4] for j in range(depth))
        lv = list(levels(pkg))                                                # longest first, root last
        k = rng.randint(1, min(3, len(lv)))
        # bias to the intermediate levels (neither the full path, the first name, nor the root)
        inter = lv[1:-2] if len(lv) > 3 else lv
        chosen = {rng.choice(inter)} if inter else set()
        while len(chosen) < k:
            chosen.add(rng.choice(lv))
        binds = []
        for j, L in enumerate(sorted(chosen, key=len)):
            base = 7000 + 100 * len(L) + 10 * j
            form = rng.choice(["scalar", "dotted", "map", "dotted2"])
            if form == "scalar":
                binds.append([".".join(L + ("a",)), base])
            elif form == "dotted":
                binds.append([".".join(L + ("a", "b")), base + 1])
            elif form == "dotted2":
                binds.append([".".join(L + ("a", "b", "c")), base + 2])
            else:
                binds.append([".".join(L + ("a",)), {"b": {"c": base + 3}, "c": base + 4}])
        if rng.random() < 0.3:
            binds.append([".".join(rng.choice(lv) + ("z",)), 1])               # an unrelated neighbour
        if rng.random() < 0.3:
            rng.shuffle(binds)
        for ref in rng.sample(["a", "a.b", "a.b.c", "a.c", "z"], 2):
            for rn in ("I", "C"):
                yield {"kind": "deep", "runner": rn, "pkg": ".".join(pkg), "decls": [], "binds": binds, "e": ["ref", ref]}


HIST_DECLS = ["a.z", "a.b.z", "p.z", "p.a.z", "p.q.z", "p.q.a.z", "p.a.b.z", "z.y", "b.z", "x.z", "a.b.c", "a.b", "p.a.b", "a", "x"]
HIST_REFS = REFS + ["x", "x", "a.b.c", "a.b"]


def history_cases(rng: random.Random, n: int):
    """ONE program evaluated several times: the reference means a binding of THIS evaluate() call whatever was
    bound in earlier calls.  Environments with dotted declarations (namespaces that exist before any binding, at
    the root and at the package levels, sharing heads with the bindings or not), a history of 1..3 earlier binding
    sets of other SHAPES than the last one (longer / shorter dotted names, other package levels, maps vs. dotted
    names, names dropped), both runners.  `binds` is the last evaluation: model and specification see only it."""
    cfgs = list(all_configs())

    def binding_set():
        binds = []
        for li, ch in enumerate(rng.choice(cfgs)):
            binds += level_bindings(li, ch)
        binds = [list(b) for b in binds if rng.random() < 0.6]
        for L in LEVELS:
            if rng.random() < 0.3:
                binds.append([".".join(L + ("x",)), 90 + len(L) + 10 * rng.randint(0, 3)])
        if rng.random() < 0.3:
            rng.shuffle(binds)
        return binds

    for _ in range(n):
        pkg = rng.choice(PKGS)
        decls = [[d, rng.randrange(len(ANN_TYPES))] for d in rng.sample(HIST_DECLS, rng.choice([0, 1, 1, 2, 3]))]
        hist = [binding_set() for _ in range(rng.randint(1, 3))]
        r = rng.random()
        if r < 0.25:
            # the last evaluation binds a proper prefix of an earlier dotted name to a map (or nothing at all there)
            last = []
            for p, v in hist[-1]:
                parts = p.split(".")
                if len(parts) > 1 and parts[-1] in PI and rng.random() < 0.7:
                    q = ".".join(parts[:-1])
                    if q not in PKGS and all(q != b[0] for b in last):
                        last.append([q, {parts[-1]: (v if isinstance(v, int) else 1) + 5}])
                elif rng.random() < 0.5 and all(p != b[0] for b in last):
                    last.append([p, v])
        elif r < 0.4:
            last = [b for b in hist[-1] if rng.random() < 0.5]          # a subset: names dropped
        else:
            last = binding_set()
        for ref in rng.sample(HIST_REFS, 3):
            for rn in ("I", "C"):
                yield {"kind": "hist", "runner": rn, "pkg": pkg, "decls": decls, "hist": hist, "binds": last, "e": ["ref", ref]}


# ----------------------------------------------------------------------------------------------
# the SPELLING of the identifiers: the statement speaks of names, whatever valid identifier they are
# ----------------------------------------------------------------------------------------------

# IDENT : /[_a-zA-Z][_a-zA-Z0-9]*/ minus the CEL reserved words.  The pool is the sub-domains of that alphabet an
# implementation may treat specially: names of the CEL types and of built-in functions (found in the activation's
# function table when nothing is bound), names with a leading underscore / only underscores (Python's "private" and
# special attribute conventions: the transpiled code reads every identifier as an attribute of the activation),
# Python keywords and builtins that are no CEL reserved words (transpiled through activation.get('NAME')),
# attributes and methods of the Activation / NameContainer / dict objects themselves, upper case and digits.
SPELL_BUILTIN = ["int", "uint", "double", "bool", "string", "bytes", "list", "map", "type", "timestamp", "duration", "null_type",
                 "dyn", "size", "matches", "contains", "getDate"]
SPELL_UNDERSCORE = ["_", "__", "_x", "_0", "__m", "_value", "_a_", "___", "_X", "_1a", "__x1", "_ab", "_i", "_tmp"]
SPELL_PYTHON = ["class", "lambda", "None", "True", "is", "not", "def", "self", "print", "len", "value", "parent", "items",
                "keys", "activation", "result", "__init__", "__dict__", "identifiers", "package", "functions", "get"]
SPELL_PLAIN = ["A", "X9", "a_b", "x_", "ab1", "v_1", "Zz"]
SPELLINGS = SPELL_BUILTIN + SPELL_UNDERSCORE + SPELL_PYTHON + SPELL_PLAIN


def rename_path(p: str, m: Dict[str, str]) -> str:
    return ".".join(m.get(t, t) for t in p.split(".")) if p else p


def rename_val(v, m):
    if isinstance(v, dict):
        return {m.get(k, k): rename_val(x, m) for k, x in v.items()}
    if isinstance(v, list):
        return [rename_val(x, m) for x in v]
    return v


def rename_e(e, m):
    k = e[0]
    if k == "ref":
        return ["ref", rename_path(e[1], m)]
    if k == "lit":
        return ["lit", rename_val(e[1], m)]
    if k == "list":
        return ["list", [rename_e(x, m) for x in e[1]]]
    return ["map", m.get(e[1], e[1]), rename_e(e[2], m), rename_e(e[3], m)]


def rename_case(c, m: Dict[str, str]):
    """the same case with every identifier (binding / declaration / package components, reference components, macro
    variables, map keys used as fields) consistently replaced: resolution must be the same up to the renaming"""
    rb = lambda bs: [[rename_path(p, m), rename_val(v, m)] for p, v in bs]
    d = dict(c)
    d["pkg"] = rename_path(c.get("pkg") or "", m)
    d["decls"] = [[rename_path(p, m), a] for p, a in c.get("decls", [])]
    d["binds"] = rb(c["binds"])
    if c.get("hist"):
        d["hist"] = [rb(h) for h in c["hist"]]
    d["e"] = rename_e(c["e"], m)
    d["spelling"] = sorted(m.items())
    return d


def case_idents(c) -> List[str]:
    s = set()

    def val(v):
        if isinstance(v, dict):
            for k, x in v.items():
                s.add(k)
                val(x)
        elif isinstance(v, list):
            for x in v:
                val(x)
    for p, v in list(c["binds"]) + [b for h in c.get("hist") or [] for b in h]:
        s.update(p.split("."))
        val(v)
    for p, _ in c.get("decls", []):
        s.update(p.split("."))
    s.update(t for t in (c.get("pkg") or "").split(".") if t)
    for e in e_walk(c["e"]):
        if e[0] == "ref":
            s.update(e[1].split("."))
        elif e[0] == "map":
            s.add(e[1])
        elif e[0] == "lit":
            val(e[1])
    return sorted(s)


def respell(rng: random.Random, c, pool=None):
    ids = case_idents(c)
    if pool is None:
        # usually one family of spellings at a time (every name of the case a type name, or underscored, ...)
        r = rng.random()
        pool = SPELL_BUILTIN if r < 0.3 else SPELL_UNDERSCORE if r < 0.6 else SPELL_PYTHON if r < 0.75 else SPELLINGS
    if len(pool) < len(ids):
        pool = pool + [n for n in SPELLINGS if n not in pool]
    new = rng.sample(pool, len(ids))
    keep = rng.random()
    m = {}
    for i, n in zip(ids, new):
        if keep < 0.35 and rng.random() < 0.5:
            continue                            # a mix of ordinary and special spellings
        m[i] = n
    return rename_case(c, m)


MACRO_BINDS = [
    [["x", 100], ["y", {"k": 201}], ["a", 300]],
    [["x", 100], ["y", {"k": 201}], ["a.b", 310]],
    [["x", [1, 2]], ["y", 200], ["a", {"b": 320}], ["b", 400]],
    [["x", 100], ["y.k", 210], ["a.b.c", 330]],
    [],
    [["p.a", 500], ["x", 100], ["p.y", 520], ["p.w", {"k": 530}]],
    [["p.q.y", 600], ["p.a.b", 510], ["a", 300], ["y", 200]],
]


class C12(Prop):
    pid = "C12"
    manifest = dict(
        technique='Lean 4 theorems over an executable model (Cel.Model.Names) of NameContainer/Referent loading, find_name, dict_find_name, resolve_name and member_dot: resolution equals the longest-bound-prefix specification for ALL binding sets, packages and references under the hypotheses the proof forces; macro scoping by induction over ALL nestings, both runners; tie: the abstract syntax of Referent.value, find_name, dict_find_name, resolve_name, get, resolve_variable, __getattr__ is dumped from the source on every run and RUN by a mini-Python interpreter in Lean (kernel evaluation) against the model, plus exhaustive small-scope correspondence on both runners with an independent Python specification as oracle',
        text='proof: evaluating a dotted reference in the model of both runners equals `denote` (first package level binding the head, longest bound prefix, remaining components as field selections) for every binding list, package path and reference, outside the two named defect zones (a bound name that is also a namespace prefix; a pure namespace prefix used as a value); bindings override declarations; a macro variable shadows only inside its body at any nesting depth; the model is compared with the implementation on an exhaustive small scope on every run',
        note='Lean kernel; standard axioms; evaluator/NameContainer control flow hand-modelled and tied by correspondence; lark',
        ref='DESIGN.md §5 C12')
    lean_targets = ["Cel.Props.C12", "Cel.Bridge.Names", "Cel.Bridge.NamesResolve", "Cel.Bridge.NamesLookup"]
    audit_namespaces = ["Cel.Props.C12", "Cel.Bridge"]
    gen_names = ["Names", "NamesPy"]
    trusted = ["lark parsing of the rendered CEL text", "json_to_cel for the bound values (C15)",
               "CPython dict semantics of NameContainer (modelled as association lists)",
               "the AST dump (gen_c12_py.py) and the mini-Python interpreter Cel.Model.NamesPy (value semantics; mutation only on fresh unaliased locals, checked syntactically)"]
    rule = ("exhaustive small scope: path a.b.c, every assignment unbound/scalar/nested-map to its prefixes at the root (18) x 8 assignments at "
            "package level p x 8 at p.q, x package in {none, p, p.q} x 8 references (prefixes, siblings, unbound head, over-long) x both runners "
            "(thorough: all 1152 configurations; quick: a seeded sample) + package paths of depth 1..5 with the head bound at arbitrary (intermediate) levels "
            "+ one program evaluated 2..4 times with binding sets of different shapes under dotted declarations (the last evaluation must mean "
            "its own bindings; where the statement fixes no value, what a new program gives) "
            "+ declarations overlapped with bindings + random macro nestings to depth 3 "
            "over colliding variable names {x,y,a,b}. non-trivial = distinct case with a dotted binding or a nested map or a package, "
            "or a macro nesting of depth >= 2")

    def generate(self, rng, tier):
        quick = tier == "quick"
        cases: List[Dict[str, Any]] = []
        cfgs = list(all_configs())
        if quick:
            cfgs = rng.sample(cfgs, 26)
        for cfg in cfgs:
            cases += list(config_cases(cfg, rng if rng.random() < 0.3 else None))
        # package paths of any depth, the head bound at arbitrary (intermediate) levels
        cases += list(deep_package_cases(rng, 48 if quick else 3000))
        # one program, several evaluations with bindings of different shapes, declared namespaces
        cases += list(history_cases(rng, 60 if quick else 4000))
        # declarations: same names as bindings (must not matter), and declared-only names (model only)
        for _ in range(40 if quick else 1500):
            cfg = rng.choice(list(all_configs())) if not quick else rng.choice(cfgs)
            binds = []
            for li, ch in enumerate(cfg):
                binds += level_bindings(li, ch)
            names = [b[0] for b in binds]
            decls = []
            if names:
                for n in rng.sample(names, rng.randint(1, len(names))):
                    decls.append([n, rng.randrange(len(ANN_TYPES))])
            if rng.random() < 0.4:
                decls.append([rng.choice(["a", "a.b", "a.b.c", "b", "p.a", "a.c"]), rng.randrange(len(ANN_TYPES))])
            for ref in rng.sample(REFS, 3):
                for rn in ("I", "C"):
                    cases.append({"kind": "decl", "runner": rn, "pkg": rng.choice(PKGS), "decls": decls,
                                  "binds": [list(b) for b in binds], "e": ["ref", ref]})
        # a binding to CEL null is a binding: it beats the declaration of the same name (plain, dotted, package-qualified)
        null_sets = [("", "a", "a"), ("", "a.b", "a.b"), ("", "a.b.c", "a.b.c"), ("p", "p.a", "a"), ("p.q", "p.q.a", "a"),
                     ("p.q", "p.a", "a"), ("p", "p.a.b", "a.b"), ("p.q", "a", "a")]
        for pkg, name, ref in (null_sets if not quick else rng.sample(null_sets, 6)):
            for extra in ([], [["x", 7]], [[name + "z", 5]]):
                for declared in (True, False):
                    decls = [[name, rng.randrange(len(ANN_TYPES))]] if declared else []
                    for rn in ("I", "C"):
                        cases.append({"kind": "decl", "runner": rn, "pkg": pkg, "decls": decls,
                                      "binds": [[name, None]] + extra, "e": ["ref", ref]})
        for rn in ("I", "C"):
            cases.append({"kind": "decl", "runner": rn, "pkg": "", "decls": [["a", 2]], "binds": [["a", {"b": None}]], "e": ["ref", "a.b"]})
            cases.append({"kind": "decl", "runner": rn, "pkg": "", "decls": [["a.b", 0]], "binds": [["a.b", None]], "e": ["ref", "a.b.c"]})
        # nested macros whose inner body reads the OUTER variable, outer range with different elements
        for _ in range(15 if quick else 400):
            vals = rng.sample(range(1, 9), rng.randint(2, 3))
            x, y = rng.sample(VARS, 2)
            inner = ["lit", [rng.randint(1, 9) for _ in range(rng.randint(1, 2))]]
            e = ["map", x, ["lit", vals], ["map", y, inner, ["list", [["ref", x], ["ref", y]]]]]
            if rng.random() < 0.4:
                e = ["map", x, ["lit", [[v] for v in vals]], ["map", y, ["ref", x], ["map", x, inner, ["list", [["ref", x], ["ref", y]]]]]]
            for rn in ("I", "C"):
                cases.append({"kind": "macro", "runner": rn, "pkg": "", "decls": [], "binds": rng.choice(MACRO_BINDS[:4]), "e": e})
        # macro nestings
        for _ in range(260 if quick else 8000):
            binds = rng.choice(MACRO_BINDS)
            packaged = any(p.startswith("p.") for p, _ in binds)
            pkg = rng.choice(["p", "p.q", "p", ""]) if packaged else ("" if rng.random() < 0.85 else rng.choice(["p", "p.q"]))
            blocked = frozenset(c for p, _ in binds if p.startswith("p.") for c in p.split(".")) if pkg else frozenset()
            e = macro_expr(rng, rng.randint(1, 3), [], blocked)
            for rn in ("I", "C"):
                cases.append({"kind": "macro", "runner": rn, "pkg": pkg,
                              "decls": [], "binds": binds, "e": e})
        # the spelling of the identifiers: cases of every family above with all names consistently replaced by
        # names of CEL types / built-in functions, underscored names, Python keywords, attribute names, ...
        by_kind: Dict[str, List[Dict[str, Any]]] = {}
        for c in cases:
            if c["runner"] == "I":
                by_kind.setdefault(c["kind"], []).append(c)
        n_sp = 220 if quick else 6000
        for i in range(n_sp):
            kind = "macro" if i % 2 == 0 else rng.choice(sorted(by_kind))
            d = respell(rng, rng.choice(by_kind[kind]), SPELL_BUILTIN if i % 4 == 0 else None)
            for rn in ("I", "C"):
                cases.append(dict(d, runner=rn))
        return cases

    def impl(self, c):
        return run_impl(c)

    def model_line(self, c):
        if c.get("spelling") and (activation_attribute_name(c) or builtin_unbound_head(c)):
            return None        # the Activation object's own attributes (D68) / the built-in types are not in the model
        if c["kind"] == "macro" and namespace_as_value(c):
            return None        # a leaked NameContainer object flowing on (into a macro variable): `ncobj` is opaque in the model
        pkg = c.get("pkg") or "-"
        d = c.get("decls", [])
        b = c["binds"]
        return (f"{c['runner']} {pkg} D {len(d)}" + "".join(f" {p} {a}" for p, a in d)
                + f" B {len(b)}" + "".join(f" {p} {val_tok(v)}" for p, v in b) + " E " + e_tok(c["e"]))

    def model_expect(self, c, m):
        return m

    def oracle(self, c, out):
        exp = Spec(c).outcome(c["e"])
        src = e_cel(c["e"])
        ctx = f"runner {c['runner']}, package {c.get('pkg') or None!r}, bindings {dict((p, v) for p, v in c['binds'])}"
        if c.get("decls"):
            ctx += f", declarations {c['decls']}"
        if c.get("hist"):
            ctx += f", after evaluating the same program with {[dict((p, v) for p, v in h) for h in c['hist']]}"
        if exp is None:
            if c.get("hist"):
                # where the statement does not fix the value it still fixes WHICH bindings count: those passed to
                # this evaluate() -- a new program given the same bindings must agree
                fresh = run_impl({k: v for k, v in c.items() if k != "hist"})
                if fresh != out:
                    return f"{ctx}: {src!r} gave {out}; a new program evaluated with these bindings gives {fresh} (a binding of an earlier evaluation is still seen)"
            return None
        if exp == "err":
            if out == "err" or out.startswith("EXC "):
                return None
            return f"{ctx}: {src!r} gave the value {out}; no binding is a prefix of the reference (or a field is missing): must be an error"
        if out != exp:
            return f"{ctx}: {src!r} gave {out}; the longest-prefix specification gives {exp}"
        return None

    def nontrivial(self, c, out):
        if c["kind"] == "macro":
            return sum(1 for e in e_walk(c["e"]) if e[0] == "map") >= 2
        return bool(c.get("pkg")) or any("." in p or isinstance(v, dict) for p, v in c["binds"])

    def known_preds(self):
        return {"value_under_container": value_under_container, "namespace_as_value": namespace_as_value,
                "activation_attribute_name": activation_attribute_name}

    def extra_checks(self, tier, rng):
        """the Lean `denote` (the specification the theorems are about) agrees with the Python oracle's `denote`"""
        from ..core import run_driver
        cfgs = list(all_configs())
        if tier == "quick":
            cfgs = rng.sample(cfgs, 40)
        lines, exps = [], []
        for cfg in cfgs:
            binds = []
            for li, ch in enumerate(cfg):
                binds += level_bindings(li, ch)
            names = {split(p): v for p, v in binds}
            for pkg in PKGS:
                for ref in REFS:
                    lines.append(f"spec {pkg or '-'} B {len(binds)}" + "".join(f" {p} {val_tok(v)}" for p, v in binds) + f" R {ref}")
                    try:
                        exps.append(val_show(denote(names, split(pkg), split(ref))[0]))
                    except SpecErr:
                        exps.append("err")
        try:
            outs = run_driver("C12", lines)
        except Exception as ex:
            return [{"name": "lean-denote-vs-python-denote", "ok": True, "detail": f"driver unavailable: {str(ex)[:100]}"}]
        bad = [(l, o, e) for l, o, e in zip(lines, outs, exps) if o != e]
        return [{"name": "lean-denote-vs-python-denote", "ok": not bad,
                 "detail": f"{len(lines)} (bindings, package, reference) triples" + (f"; first difference: {bad[0]}" if bad else ""),
                 "case": {"spec_line": bad[0][0]} if bad else None}]


PROP = C12()
