"""C05 — evaluation is a function of expression and bindings, independent of history."""
from __future__ import annotations

import json
import os
import random
import subprocess
import sys
import threading
import time
from typing import Any, Dict, Iterable, List, Optional

from ..core import Prop, case_key

DECL_NAMES = ["x", "y", "a", "b", "a.b", "a.c", "a.b.c", "a.b.d", "p.a", "p.q.a", "p.x", "q.a", "b.c", "p.q.x"]
BAD_NAMES = ["x-y", "1a", "a..b", "a.", ""]
ANNS = ["IntType", "IntType", "StringType", "MapType"]
PKGS = [None, None, None, "", "p", "p.q", "q", "p.q.r"]
IDENTS = ["x", "y", "a", "b", "c", "p", "q"]
PATHS = [["a", "b"], ["a", "c"], ["a", "b", "c"], ["a", "b", "d"], ["p", "a"], ["p", "q", "a"], ["b", "c"], ["q", "a"], ["p", "x"],
         ["x", "k"], ["a", "zz"]]
BIND_NAMES = ["x", "y", "a", "b", "a.b", "a.c", "a.b.c", "a.b.d", "p.a", "p.q.a", "p", "q.a", "p.x", "b.c", ".x", "p.q.x", "c"]
RAW = ["[1, 2].map(i, i + x)", "has(a.b)", "x > 0 ? a.b : y", "a.b == 1 && x == 10", "a.b + x", "[x, y].exists(v, v == a.b)",
       "size([x]) + a.b", "x == 1 || a.b == 2", "{'k': x}.k + a.b", "has(p.a) ? p.a : x", "type(a.b)", "a.b.c + p.q.a",
       "[1, 2, 3].filter(i, i > x).size()", "string(x) + string(a.b)"]
FN_NAMES = None


def base_function_names():
    global FN_NAMES
    if FN_NAMES is None:
        try:
            from celpy.evaluation import base_functions
            FN_NAMES = set(base_functions.keys())
        except Exception:
            FN_NAMES = set()
    return FN_NAMES


# ------------------------------------------------------------------------------------------------
# generator
# ------------------------------------------------------------------------------------------------

def gen_expr(rng: random.Random, depth: int = 2):
    r = rng.random()
    if depth <= 0 or r < 0.45:
        r2 = rng.random()
        if r2 < 0.45:
            p = rng.choice(PATHS)
            e = ["id", p[0]]
            for k in p[1:]:
                e = ["dot", e, k]
            return e
        if r2 < 0.8:
            return ["id", rng.choice(IDENTS)]
        if r2 < 0.88:
            return ["did", rng.choice(IDENTS)]
        return ["lit", rng.choice([0, 1, 2, 10, -1, 9223372036854775807])]
    if r < 0.9:
        return ["add", gen_expr(rng, depth - 1), gen_expr(rng, depth - 1)]
    return ["dot", gen_expr(rng, depth - 1), rng.choice(["b", "c", "a", "k"])]


def gen_val(rng: random.Random, name: str):
    r = rng.random()
    if r < 0.6:
        return ["i", rng.choice([0, 1, 2, 3, 5, 10, 42, -7])]
    if r < 0.75:
        return ["s", rng.choice(["s", "t", "ab"])]
    keys = rng.sample(["a", "b", "c", "k", "x", "q"], rng.randint(0, 3))
    return ["m", [[k, rng.randint(1, 9)] for k in keys]]


def gen_bindings(rng: random.Random):
    r = rng.random()
    if r < 0.12:
        return []
    n = rng.randint(1, 4)
    names = rng.sample(BIND_NAMES, n)
    if rng.random() < 0.03:
        names.append(rng.choice(BAD_NAMES))
    return [[nm, gen_val(rng, nm)] for nm in names]


def gen_decls(rng: random.Random):
    n = rng.choice([0, 1, 2, 2, 3, 4])
    names = rng.sample(DECL_NAMES, n)
    if rng.random() < 0.04:
        names.insert(rng.randrange(len(names) + 1), rng.choice(BAD_NAMES[:4]))
    return [[nm, rng.choice(ANNS)] for nm in names]


CLUSTERS = [["a.b", "a.c", "x"], ["a.b.c", "a.b", "x"], ["p.a", "a", "p.q.a"], ["x", "y", "a.b"], ["b.c", "b", "a.b.d"],
            ["p.x", "x", "p.q.x"], ["q.a", "a", "p.q.a"], ["a.b", "a", "x"], ["p.q.a", "p.q.x", "y"]]
RAW_T = ["[1, 2].map(i, i + {0})", "has({0})", "{1} > 0 ? {0} : {1}", "{0} == 1 && {1} == 10", "[{0}, {1}].exists(v, v == {0})",
         "{1} == 1 || {0} == 2", "has({0}) ? {0} : {1}", "type({0})", "size([{1}]) + {0}", "string({0}) + string({1})"]


def path_expr(name: str):
    segs = [s for s in name.split(".") if s]
    e = ["id", segs[0]]
    for k in segs[1:]:
        e = ["dot", e, k]
    return e


def gen_family(rng: random.Random):
    """a small coherent universe: environments, expressions and binding sets over one cluster of related names;
    the histories of a family differ in which operations happen and in which order"""
    names = list(rng.choice(CLUSTERS))
    if rng.random() < 0.4:
        names.append(rng.choice(DECL_NAMES))
    pk = [None, None, ""] + [n.rsplit(".", 1)[0] for n in names if "." in n] + (["p.q.r"] if rng.random() < 0.1 else [])
    envs = []
    for i in range(2 if rng.random() < 0.7 else 3):
        kind = "C" if i == 0 and rng.random() < 0.7 else rng.choice("IC")
        decls = [[n, rng.choice(ANNS)] for n in names if rng.random() < 0.6]
        rng.shuffle(decls)
        if rng.random() < 0.04:
            decls.insert(rng.randrange(len(decls) + 1), [rng.choice(BAD_NAMES[:4]), "IntType"])
        envs.append([kind, rng.choice(pk), decls])
    if rng.random() < 0.5:                  # the same declarations under the other runner class
        k, p, d = envs[0]
        envs[-1] = ["I" if k == "C" else "C", p, d]
    exprs = []
    for _ in range(3):
        r = rng.random()
        if r < 0.3:
            exprs.append(path_expr(rng.choice(names)))
        elif r < 0.6:
            exprs.append(["add", path_expr(rng.choice(names)), path_expr(rng.choice(names))])
        elif r < 0.7:
            n = rng.choice(names)
            exprs.append(["id", n.split(".")[0]] if rng.random() < 0.6 else ["did", n.split(".")[-1]])
        elif r < 0.8:
            exprs.append(gen_expr(rng, 2))
        else:
            a, b = rng.choice(names), rng.choice(names)
            exprs.append({"src": rng.choice(RAW_T).format(a.lstrip("."), b.lstrip("."))})
    binds = []
    pool = names + [n.split(".")[0] for n in names if "." in n] + [n.split(".", 1)[1] for n in names if "." in n]
    for i in range(4):
        r = rng.random()
        if r < 0.12:
            binds.append([])
            continue
        if i == 0:
            chosen = list(names)
        else:
            chosen = [n for n in pool if rng.random() < 0.4] or [rng.choice(pool)]
        chosen = list(dict.fromkeys(chosen))
        rng.shuffle(chosen)
        if rng.random() < 0.03:
            chosen.append(rng.choice(BAD_NAMES))
        if rng.random() < 0.05:
            chosen.append("." + rng.choice(names))
        b = []
        for n in chosen:
            v = gen_val(rng, n)
            if "." in n and rng.random() < 0.8:
                v = ["i", rng.choice([1, 2, 3, 5, 10, 42])]
            b.append([n, v])
        binds.append(b)
    progs = []
    for _ in range(4):
        progs.append((rng.randrange(len(envs)), rng.randrange(len(exprs))))
    return {"envs": envs, "exprs": exprs, "binds": binds, "progs": progs, "names": names}


def probe_history(rng: random.Random, fam, declared: bool):
    """leak probe over the family's names on a compiled environment (where state persists between calls): every name is
    evaluated bound, then unbound, then with no bindings at all, then with another value, then bound under a `.`-prefixed key"""
    names = fam["names"][:3]
    prefixes = [n.rsplit(".", 1)[0] for n in names if "." in n]
    pk = rng.choice(prefixes) if prefixes and rng.random() < 0.6 else rng.choice([None, None, ""])
    decls = [[n, "IntType"] for n in names] if declared else []
    ops: List[Any] = [["E", "C", pk, decls]]
    na = 0
    other = [[m, ["i", 7]] for m in names[1:2]]
    for n in names:
        e = path_expr(n) if rng.random() < 0.7 else ["add", path_expr(n), ["lit", 0]]
        if pk and n.startswith(pk + ".") and rng.random() < 0.7:
            e = path_expr(n[len(pk) + 1:])          # the name as seen from inside the package
        ops += [["P", 0, e], ["G", 0, na]]
        rest = [b for b in other if b[0] != n]
        ops += [["V", na, [[n, ["i", 1]]] + rest], ["V", na, rest], ["V", na, []], ["V", na, [[n, ["i", 2]]]],
                ["V", na, [["." + n, ["i", 3]]] + rest], ["V", na, rest]][:rng.choice([4, 6])]
        na += 1
    return ops[:40]


def gen_history(rng: random.Random, fam=None, max_len: int = 40):
    fam = fam or gen_family(rng)
    ops: List[Any] = []
    env_of: Dict[int, int] = {}      # family env index -> history env index
    kinds: List[str] = []
    asts: Dict[Any, int] = {}        # (hist env, expr index) -> ast index
    ast_env: List[int] = []
    progs: Dict[Any, int] = {}       # (hist env, ast) -> prog index
    nprogs = 0
    evaluated: List[Any] = []
    length = rng.randint(8, max_len)
    plan = list(fam["progs"])
    rng.shuffle(plan)

    def need_env(fe):
        if fe not in env_of:
            k, p, d = fam["envs"][fe]
            op = ["E", k, p, d]
            same = [j for j, o in enumerate([o for o in ops if o[0] == "E"]) if o[3] == d]
            if same and rng.random() < 0.3:
                op.append(same[0])           # hand the very same annotations dict object to this Environment too
            ops.append(op)
            env_of[fe] = len(kinds)
            kinds.append(k)
        return env_of[fe]

    if rng.random() < 0.5:                   # create all environments up front, in random order
        order = list(range(len(fam["envs"])))
        rng.shuffle(order)
        for fe in order:
            need_env(fe)
    guard = 0
    while len(ops) < length and guard < 400:
        guard += 1
        r = rng.random()
        if r < 0.03:
            ops.append(["R"])
        elif r < 0.06:
            need_env(rng.randrange(len(fam["envs"])))
        elif r < 0.09 and kinds:
            ops.append(["P", rng.randrange(len(kinds)), None])
        elif r < 0.30 or not progs:
            fe, xi = plan[rng.randrange(len(plan))]
            e = need_env(fe)
            ce = e
            if rng.random() < 0.12:          # compile in another environment (same or other runner class)
                ce = rng.randrange(len(kinds))
            if (ce, xi) not in asts or rng.random() < 0.2:
                ops.append(["P", ce, fam["exprs"][xi]])
                asts[(ce, xi)] = len(ast_env)
                ast_env.append(ce)
            a = asts[(ce, xi)]
            ops.append(["G", e, a])
            if not (kinds[e] == "C" and kinds[ast_env[a]] == "I"):
                progs[(e, a, nprogs)] = nprogs
                nprogs += 1
        else:
            rr = rng.random()
            if evaluated and rr < 0.15:
                p, bi = rng.choice(evaluated)
            elif evaluated and rr < 0.65:
                p = rng.choice(evaluated)[0]
                bi = rng.randrange(len(fam["binds"]))
            else:
                p = rng.randrange(nprogs)
                bi = rng.randrange(len(fam["binds"]))
            ops.append(["V", p, fam["binds"][bi]])
            evaluated.append((p, bi))
    return ops[:max(length, 1)] if len(ops) <= max_len else ops[:max_len]


def alternation_history(rng: random.Random):
    """three to five environments of alternating runner classes, created one after the other (and sometimes with work in
    between); then compile + program + evaluate on the LATEST one first and on the earlier ones"""
    n = rng.randint(3, 5)
    k0 = rng.choice("IC")
    kinds = [k0 if i % 2 == 0 else ("I" if k0 == "C" else "C") for i in range(n)]
    if rng.random() < 0.3:
        kinds[rng.randrange(n)] = rng.choice("IC")
    exprs = [["add", ["id", "x"], ["lit", 1]], {"src": "x + 1 == 3 || false"}, ["id", "x"], {"src": "x > 1 && x < 5"}]
    ops: List[Any] = []
    na = 0
    between = rng.random() < 0.5

    def work(e):
        nonlocal na
        x = rng.choice(exprs)
        ops.extend([["P", e, x], ["G", e, na], ["V", na, [["x", ["i", rng.choice([1, 2, 3])]]]]])
        na += 1
    for i, k in enumerate(kinds):
        ops.append(["E", k, None, []])
        if between and i < n - 1 and rng.random() < 0.6:
            work(i)
        if rng.random() < 0.05:
            ops.append(["R"])
    order = list(range(n))[::-1] if rng.random() < 0.6 else rng.sample(range(n), n)
    for e in order:
        work(e)
    for e in rng.sample(range(n), min(2, n)):
        work(e)
    return ops[:40]


FN_EXPRS = [("size(s) + s.size()", "size", [["s", ["s", "h\u00e9llo"]]]), ("size(s)", "size", [["s", ["s", "ab"]]]),
            ("score(x) + 1", "score", [["x", ["i", 1]]]), ("size(l) + 1", "size", [["l", ["l", [1, 2, 3]]]]),
            ("score(x) + size(s)", "score", [["x", ["i", 2]], ["s", ["s", "abc"]]])]


def fn_history(rng: random.Random):
    """programs built with `functions=` (dict and list form) overriding a built-in or supplying an application function,
    before and after programs that use the built-in / another function of the same name; both runner classes"""
    kinds = [rng.choice("CCI"), rng.choice("CI")]
    ops: List[Any] = [["E", kinds[0], None, []]]
    if rng.random() < 0.6:
        ops.append(["E", kinds[1], None, []])
    nenv = len([o for o in ops if o[0] == "E"])
    src, fname, b = rng.choice(FN_EXPRS)
    variants: List[Any] = [None] if fname == "size" else []
    for _ in range(rng.randint(2, 3)):
        beh = rng.choice(["const", "plus", "bytes"] if fname == "size" else ["const", "plus"])
        variants.append({"form": rng.choice(["dict", "list"]), "fns": [[fname, beh, rng.choice([0, 1, 100, 7])]]})
    if fname == "score" and "size" in src and rng.random() < 0.5:
        variants.append({"form": "list", "fns": [["score", "plus", 5], ["size", "const", 42]]})
    rng.shuffle(variants)
    na = 0
    progs = []
    for v in variants:
        e = rng.randrange(nenv)
        ops.append(["P", e, {"src": src}])
        ops.append(["G", e, na] + ([v] if v else []))
        if fname == "score" and v is None:
            na += 1
            continue
        progs.append(len(progs))
        na += 1
        ops.append(["V", progs[-1], b])
    for _ in range(rng.randint(2, 5)):
        if progs:
            ops.append(["V", rng.choice(progs), b])
    return ops[:40]


HEAVY_SHAPES = ["paren", "list", "tern", "call", "index", "map", "macro"]
LIGHT_SHAPES = ["neg", "not", "chain", "and", "or", "dots"]
DEEP_LADDER = [8, 13, 20, 33, 52, 84, 134]


def deep_history(rng: random.Random, shape: Optional[str] = None):
    """Resource boundary: one expression shape nested to a geometric ladder of depths (ratio 1.6, 8 … ~210 levels, so that
    any change of a recursion/nesting limit by a factor >= 1.6 puts a depth between the old and the new boundary), built and
    evaluated on an environment of one runner class before any other environment exists, on an environment of the other
    class, on a third environment created after both, and again on the first.  Whether a depth works (value) or not
    (RecursionError, SyntaxError of the transpiled text, …) must be the same as alone in a fresh process, wherever it
    happens in the history."""
    shape = shape or (rng.choice(HEAVY_SHAPES) if rng.random() < 0.85 else rng.choice(LIGHT_SHAPES))
    u = 1.0 + 0.6 * rng.random()
    ladder = [int(d * u) for d in DEEP_LADDER]
    if shape in LIGHT_SHAPES:
        ladder = [d * 3 for d in ladder[1:]]
    leaf = rng.choice(["x", "1 + x", "x"])
    k0 = rng.choice("CI")
    kinds = [k0, "I" if k0 == "C" else "C", k0 if rng.random() < 0.7 else rng.choice("CI")]
    b = [["x", ["i", rng.choice([1, 2, 3])]]]
    ops: List[Any] = []
    na = 0
    first: List[int] = []
    for e, k in enumerate(kinds):
        ops.append(["E", k, None, []])
        for d in ladder:
            ops += [["P", e, {"deep": [shape, d, leaf]}], ["G", e, na], ["V", na, b]]
            if e == 0:
                first.append(na)
            na += 1
    for p in first:
        ops.append(["V", p, b])
    return ops


# (family, text); `probe` is the host function, `{r}` what it is compared with
OUTER_T = [("and", "probe(x) == {r} && x == 1"), ("and", "probe(x) == {r} && x == 1 && x < 5"), ("and", "x == 1 && probe(x) == {r}"),
           ("or", "probe(x) == {r} || x == 2"), ("or", "probe(x) == {r} || x == 2 || x == 1"),
           ("cond", "probe(x) == {r} ? x : 7"), ("cond", "x == 1 ? probe(x) : x + 7"),
           ("map", "[1, 2].map(i, i + probe(x))"), ("map", "[1, 2].map(i, probe(i) + x)"),
           ("exists", "[1, 2].exists(i, probe(i) == {r} && i == x)"), ("all", "[1, 2].all(i, probe(i) == {r} || i == x)"),
           ("filter", "[1, 2, 3].filter(i, probe(i) == {r} && i >= x).size()"),
           ("plain", "probe(x) + x"), ("and", "[probe(x), x].size() == 2 && x == 1")]
INNER_T = {"and": ["false && y == 2", "y == 2 && z == 3", "x == 2 && y == 2"], "or": ["y == 5 || z == 3", "y == 2 || z == 9"],
           "cond": ["y > 0 ? y : z", "y < 0 ? y : z + x"], "map": ["[3, 4].map(j, j + y)", "[3, 4].map(i, i * z)"],
           "exists": ["[3, 4].exists(j, j == z && y == 2)", "[2].exists(i, i == y)"], "all": ["[3, 4].all(j, j > y || z == 0)"],
           "filter": ["[3, 4, 5].filter(j, j > z && y == 2).size()"], "plain": ["y + z", "y"]}
INNER_B = [["x", ["i", 9]], ["y", ["i", 2]], ["z", ["i", 3]]]


def reenter_history(rng: random.Random):
    """Re-entrancy: programs whose host function `probe`, while it is being called in the middle of an evaluation, builds
    and/or evaluates ANOTHER program (its own environment; same thread, or another thread while this one waits), or the
    same program with other bindings.  The outer evaluation must give what it gives alone with a plain constant function,
    and the inner one what it gives alone.  Inner and outer expression are mostly of the same operator family (so that
    whatever per-operator scratch state the runner keeps would collide)."""
    ko = "C" if rng.random() < 0.85 else "I"
    ops: List[Any] = [["E", ko, None, []]]
    if rng.random() < 0.3:
        ops.append(["E", "I" if ko == "C" else "C", None, []])
    nenv = len(ops)
    np_ = 0
    evs = []
    for fam, text in rng.sample(OUTER_T, 3):
        r = rng.choice([0, 0, 1])
        ifam = fam if rng.random() < 0.85 else rng.choice(sorted(INNER_T))
        ki = "C" if rng.random() < 0.85 else "I"
        sub: List[Any] = [["E", ki, None, []], ["P", 0, {"src": rng.choice(INNER_T[ifam])}], ["G", 0, 0], ["V", 0, INNER_B]]
        if rng.random() < 0.25:
            sub.append(["VS", [["x", ["i", rng.choice([3, 4])]]]])
        extra = {"mode": "nested" if rng.random() < 0.7 else "thread", "ops": sub, "pre": rng.choice([0, 0, 3, 4])}
        e = rng.randrange(nenv)
        ops.append(["P", e, {"src": text.format(r=0)}])
        ops.append(["G", e, np_, {"form": rng.choice(["dict", "dict", "list"]), "fns": [["probe", "reenter", r, extra]]}])
        b = [["x", ["i", rng.choice([1, 1, 2])]]]
        ops.append(["V", np_, b])
        evs.append((np_, b))
        if rng.random() < 0.5:
            b2 = [["x", ["i", rng.choice([1, 2])]]]
            ops.append(["V", np_, b2])
            evs.append((np_, b2))
        np_ += 1
    for p, b in rng.sample(evs, min(2, len(evs))):
        ops.append(["V", p, b])
    return ops


# {i0}, {i1}: references to the int variables x, y; {m0}: a reference to the map variable m (key k)
REBIND_T = ["{i0} + 1", "{i0} >= 7 ? 'big' : 'small'", "[{i0}, {i1}][1]", "{m0}.k", "{{'k': {i0}}}.k + {i1}", "-{i0}", "{i0} < {i1}",
            "{i0} > 1 && {i1} < 5", "{i0} in [1, 2, 3]", "{i0} * 2 - {i1} % 3", "{i0}", "{m0}.k + {i0}", "[{i0}][0] > 2 || {m0}.k == 1",
            "{m0}['k'] - {i1}", "!({i0} < {i1})", "[{i0}, {i1}, {m0}.k]", "{{'a': {i0}, 'b': {i1}}}"]
REBIND_CALL_T = ["size([{i0}]) + {i1}", "[1, 2].map(i, i + {i0})", "[{i0}, {i1}].exists(v, v == 2)", "string({i0}) + 's'", "has({m0}.k)",
                 "[{i0}].size() == 1"]
REBIND_CONST = ["1 + 2 * 3", "['a', 'b'][0]", "{'limit': 30}.limit >= 7", "null", "'a' + 'b'"]


def rebind_history(rng: random.Random):
    """One program, many bindings: whatever a runner keeps from one evaluation to the next (a memoised result, a folded
    sub-expression, a cached activation) must not depend on the earlier bindings.  Whether such a memo applies is typically
    decided by a syntactic scan of the expression, so the programs of one history refer to their variables in every way the
    grammar offers, each way also in isolation: only plain identifiers (`x`), only root-scoped ones (`.x`), a mix; mostly
    operator-only expressions (no function, method or macro — what a scan would call `constant-like`), some with calls, and a
    really constant one.  Every program is evaluated 3–5 times (2–3 different bindings, repeats) with different bindings (mostly: all variables bound first, so
    that the first evaluation succeeds; sometimes an erroring evaluation first or in between), then a second program is built
    from the same tree and evaluated; both runner classes."""
    k0 = rng.choice("CI")
    kinds = [k0, "I" if k0 == "C" else "C"] if rng.random() < 0.8 else [k0]
    ops: List[Any] = [["E", k, None, []] for k in kinds]
    forms = ["plain", "dotted", "mixed"]
    rng.shuffle(forms)
    if rng.random() < 0.5:
        forms.append("const")
    np_ = na = 0
    for fi, form in enumerate(forms):
        def ref(n):
            if form == "plain" or (form == "mixed" and rng.random() < 0.5):
                return n
            return "." + n
        if form == "const":
            expr: Any = {"src": rng.choice(REBIND_CONST)}
        else:
            t = rng.choice(REBIND_T) if rng.random() < 0.8 else rng.choice(REBIND_CALL_T)
            if t == "{i0} + 1" and form != "mixed":       # inside the model's fragment: also compared with the Lean trace
                expr = ["add", ["id" if form == "plain" else "did", "x"], ["lit", 1]]
            else:
                expr = {"src": t.format(i0=ref("x"), i1=ref("y"), m0=ref("m"))}
        e = fi % len(kinds)
        ops += [["P", e, expr], ["G", e, na]]
        first = np_
        np_ += 1
        vals = rng.sample([1, 2, 3, 5, 8, 30, -4], 5)
        bs = [[["x", ["i", vals[j]]], ["y", ["i", vals[(j + 1) % 5]]], ["m", ["m", [["k", vals[(j + 2) % 5]]]]]] for j in range(2 if form == "const" else rng.randint(2, 3))]
        r = rng.random()
        if r < 0.15:
            bs.insert(0, [])                       # an erroring evaluation first
        elif r < 0.35:
            bs.insert(rng.randint(1, len(bs)), [["y", ["i", 2]]])   # … or after a successful one
        for b in bs:
            ops.append(["V", first, b])
        ops.append(["V", first, bs[-2] if bs[-2] else bs[-1]])
        if rng.random() < 0.5:
            ops += [["G", e, na], ["V", np_, bs[-1]], ["V", first, bs[0] or bs[1]]]
            np_ += 1
        na += 1
    return ops[:40]


TWIN_GAPS = [" ", "  ", "\t", " \t", "   "]
TWIN_LINE_GAPS = ["\n", " \n", "\n  ", "\n\n"]
TWIN_USE = ["size({lit})", "{lit} == s", "{lit} + s", "{lit}.contains(sep)", "[{lit}, s][0]", "{{{lit}: 1}}[s]", "s.startsWith({lit})"]


def twin_texts(rng: random.Random, gap_only: bool = False):
    """two DIFFERENT expression texts that a plausible normalisation of the source text (folding or stripping white space,
    dropping comments, folding case) maps to the same key, although they mean different things; with bindings that tell
    them apart"""
    r = rng.random()
    if r < 0.6 or gap_only:                         # white space inside a string / bytes literal is content
        q = rng.choice(["'", '"', "'''", '"""'])
        gaps = TWIN_GAPS + (TWIN_LINE_GAPS if len(q) == 3 else [])
        g1, g2 = rng.sample(gaps, 2)
        if len(q) == 3 and rng.random() < 0.6 and not (set(g1 + g2) & set("\n")):
            g2 = rng.choice(TWIN_LINE_GAPS)
        w1, w2 = rng.choice([("a", "b"), ("J.", "Smith"), ("k", "v"), ("x", "y z")])
        use = rng.choice(TWIN_USE)
        pre = "b" if use == "size({lit})" and rng.random() < 0.25 else ""
        a, b = (use.format(lit=f"{pre}{q}{w1}{g}{w2}{q}") for g in (g1, g2))
        binds = [[["s", ["s", w1 + g + w2]], ["sep", ["s", g]]] for g in (g1, g2)]
    elif r < 0.75:                                  # a comment ends with its line
        c = rng.choice(["note", "the count", "x"])
        a, b = f"n // {c}\n + 1", f"n // {c} + 1"
        if rng.random() < 0.5:
            a, b = f"[n, // {c}\n 2].size()", f"[n // {c} 2\n ].size()"
        binds = [[["n", ["i", 10]]]] * 2
    elif r < 0.9:                                   # leading / trailing blanks of a literal
        w = rng.choice(["a", "ab"])
        use = rng.choice(TWIN_USE[:3])
        a, b = use.format(lit=f"'{w} '"), use.format(lit=f"'{w}'")
        binds = [[["s", ["s", w + " "]]], [["s", ["s", w]]]]
    else:                                           # letter case
        use = rng.choice(TWIN_USE[:3])
        a, b = use.format(lit="'Ab'"), use.format(lit="'ab'")
        binds = [[["s", ["s", "Ab"]]], [["s", ["s", "ab"]]]]
    if rng.random() < 0.5:
        a, b, binds = b, a, binds[::-1]
    return a, b, binds


def twin_history(rng: random.Random):
    """Which programs were created earlier: near-twin expression texts (see twin_texts) are compiled one after the other in
    the same process — same environment, two environments of the same runner class, or of different classes —, every
    program is evaluated with the bindings that tell the twins apart, the earlier programs again at the end.  Whatever is
    memoised per source text (parse trees, transpiled code) under a key that identifies too much makes the later program
    evaluate the earlier expression."""
    k0 = rng.choice("CI")
    kinds = [k0, k0 if rng.random() < 0.75 else ("I" if k0 == "C" else "C")]
    if rng.random() < 0.3:
        kinds.append(k0)
    ops: List[Any] = [["E", kinds[0], None, []]]
    lazy = rng.random() < 0.5
    if not lazy:
        ops += [["E", k, None, []] for k in kinds[1:]]
    nenv = 1 if lazy else len(kinds)
    n = 0
    evs = []
    same = [i for i, k in enumerate(kinds) if k == k0]
    for pair in range(2):
        # the first pair: white space inside a literal, both texts under the same runner class
        a, b, binds = twin_texts(rng, gap_only=pair == 0)
        for text, e in ((a, rng.choice([i for i in same if i < nenv]) if pair == 0 else rng.randrange(nenv)), (b, None)):
            if e is None and pair == 0 and not (lazy and nenv < len(kinds) and kinds[nenv] == k0 and rng.random() < 0.6):
                e = rng.choice([i for i in same if i < nenv])
            if e is None:
                if lazy and nenv < len(kinds) and rng.random() < 0.6:
                    ops.append(["E", kinds[nenv], None, []])
                    nenv += 1
                    e = nenv - 1
                else:
                    e = rng.randrange(nenv)
                    if kinds[e] != k0 and rng.random() < 0.7:
                        e = 0
            ops += [["P", e, {"src": text}], ["G", e, n]]
            for bd in (binds if rng.random() < 0.5 else binds[::-1]):
                ops.append(["V", n, bd])
                evs.append((n, bd))
            n += 1
    for p, bd in rng.sample(evs, min(3, len(evs))):
        ops.append(["V", p, bd])
    return ops[:40]


def has_reenter(ops) -> bool:
    return any(o[0] == "G" and len(o) > 3 and o[3] and any(f[1] == "reenter" for f in o[3]["fns"]) for o in ops)


def plain_fns(fns):
    """the same host functions without side activity: a `reenter` function is the constant it returns"""
    if not fns:
        return fns
    return {"form": fns["form"], "fns": [[f[0], "const", f[2]] if f[1] == "reenter" else f for f in fns["fns"]]}


def gen_cases(rng: random.Random, families: int, per_family: int):
    cases = []
    for _ in range(max(2, families * 2 // 3)):
        cases.append({"kind": "hist", "ops": alternation_history(rng)})
        cases.append({"kind": "hist", "ops": fn_history(rng)})
    shapes = list(HEAVY_SHAPES)
    rng.shuffle(shapes)
    for i in range(max(3, families)):
        cases.append({"kind": "hist", "ops": deep_history(rng, shapes[i % len(shapes)] if i % 4 != 3 else None)})
        cases.append({"kind": "hist", "ops": reenter_history(rng)})
    for _ in range(families):
        fam = gen_family(rng)
        cases.append({"kind": "hist", "ops": probe_history(rng, fam, True)})
        cases.append({"kind": "hist", "ops": probe_history(rng, fam, False)})
        for _ in range(per_family):
            cases.append({"kind": "hist", "ops": gen_history(rng, fam, 40 if rng.random() < 0.6 else 18)})
    # (round 4; generated last so that the histories above are those of the earlier rounds for the same seed)
    for _ in range(max(2, families * 2 // 3)):
        cases.append({"kind": "hist", "ops": rebind_history(rng)})
        cases.append({"kind": "hist", "ops": twin_history(rng)})
    return cases


# ------------------------------------------------------------------------------------------------
# bookkeeping over a history (which env/ast/prog indices exist) — mirrors the harness, not the code
# ------------------------------------------------------------------------------------------------

def index_history(ops, obs_model: Optional[List[str]] = None):
    """returns per-op info: for G/V ops the (kind, pkg, decls, expr) of the program concerned, given which
    P/G ops succeeded according to the in-history observations"""
    envs, asts, progs = [], [], []
    info = []
    for i, op in enumerate(ops):
        ok = obs_model is None or (i < len(obs_model) and obs_model[i] == "done")
        k = op[0]
        if k == "E":
            envs.append(op)
            info.append(None)
        elif k == "P":
            if ok and op[1] < len(envs):
                asts.append((op[1], op[2]))
            info.append(None)
        elif k == "G":
            if op[1] < len(envs) and op[2] < len(asts):
                e = envs[op[1]]
                a = asts[op[2]]
                spec = {"kind": e[1], "pkg": e[2], "decls": e[3], "expr": a[1], "ast_kind": envs[a[0]][1],
                        "fns": op[3] if len(op) > 3 else None}
                info.append(spec)
                if ok:
                    progs.append(spec)
            else:
                info.append(None)
        elif k == "V":
            info.append(progs[op[1]] if op[1] < len(progs) else None)
        else:
            info.append(None)
    return info


def nested_refs(spec, obs):
    """[(sub-history, index, [model, rich])] for every nested observation attached to the observation of a program-construction
    or evaluate op whose program is described by `spec` (one `reenter` function per program is generated)"""
    if spec is None or len(obs) < 3 or not spec.get("fns"):
        return []
    subs = [f[3].get("ops") or [] for f in spec["fns"]["fns"] if f[1] == "reenter" and len(f) > 3]
    if len(subs) != 1:
        return []
    return [(subs[0], n[0], n[1:3]) for n in obs[2] if n[0] < len(subs[0])]


def nested_alone_ops(spec, sub, j):
    """the reference for the nested operation `sub[j]`: the sub-history up to it, alone in a fresh process; for ["VS", b]
    (the outer program evaluating itself with other bindings from inside its own host function) the plain alone evaluation"""
    if sub[j][0] == "VS":
        return alone_ops(spec, sub[j][1])
    return [o for o in sub[:j + 1] if o[0] != "VS"]


def alone_ops(spec, bindings):
    """the same evaluation performed alone: one environment, one compile, one program, one evaluate"""
    g = ["G", 0, 0] + ([plain_fns(spec["fns"])] if spec.get("fns") else [])
    if spec["ast_kind"] == spec["kind"]:
        ops = [["E", spec["kind"], spec["pkg"], spec["decls"]], ["P", 0, spec["expr"]], g]
    else:   # the tree was built by an environment of the other runner class: that environment is part of the evaluation
        g[1] = 1
        ops = [["E", spec["ast_kind"], None, []], ["E", spec["kind"], spec["pkg"], spec["decls"]], ["P", 0, spec["expr"]], g]
    if bindings is not None:
        ops.append(["V", 0, bindings])
    return ops


# ------------------------------------------------------------------------------------------------
# pristine-process pool
# ------------------------------------------------------------------------------------------------

class TimeoutTool(subprocess.TimeoutExpired):
    pass


def run_jobs(jobs: List[Dict[str, Any]], timeout: float, par: Optional[int] = None) -> Dict[Any, Any]:
    """run the jobs, each in a process forked from a pristine `import celpy` state"""
    if not jobs:
        return {}
    par = par or max(2, min(12, (os.cpu_count() or 4) - 2))
    cmd = [sys.executable, "-m", "verif.props.c05_worker", "--jobs", str(par)]
    p = subprocess.Popen(cmd, stdin=subprocess.PIPE, stdout=subprocess.PIPE, stderr=subprocess.PIPE, env=dict(os.environ))

    def feed():
        try:
            for j in jobs:
                p.stdin.write((json.dumps(j) + "\n").encode())
            p.stdin.close()
        except Exception:
            pass
    t = threading.Thread(target=feed, daemon=True)
    t.start()
    res: Dict[Any, Any] = {}
    deadline = time.time() + timeout
    err: List[bytes] = []
    threading.Thread(target=lambda: err.append(p.stderr.read()), daemon=True).start()
    import select
    buf = b""
    fd = p.stdout.fileno()
    while len(res) < len(jobs):
        left = deadline - time.time()
        if left <= 0:
            p.kill()
            raise subprocess.TimeoutExpired(cmd, timeout)
        r, _, _ = select.select([fd], [], [], min(left, 5.0))
        if not r:
            continue
        chunk = os.read(fd, 1 << 16)
        if not chunk:
            break
        buf += chunk
        while b"\n" in buf:
            line, buf = buf.split(b"\n", 1)
            if line.strip():
                d = json.loads(line)
                res[d.get("id")] = d
    try:
        p.wait(timeout=10)
    except Exception:
        p.kill()
    if len(res) < len(jobs):
        raise RuntimeError(f"worker pool lost {len(jobs) - len(res)} of {len(jobs)} jobs; stderr: {(b''.join(err))[-600:]!r}")
    return res


def spawn_one(job, timeout=120):
    p = subprocess.run([sys.executable, "-m", "verif.props.c05_worker", "--one"], input=json.dumps(job).encode(),
                       capture_output=True, timeout=timeout, env=dict(os.environ))
    if p.returncode != 0:
        raise RuntimeError("spawned worker failed: " + p.stderr.decode()[-400:])
    return json.loads(p.stdout.decode().strip().splitlines()[-1])


# ------------------------------------------------------------------------------------------------
# model protocol
# ------------------------------------------------------------------------------------------------

TOKEN_OK = set("abcdefghijklmnopqrstuvwxyzABCDEFGHIJKLMNOPQRSTUVWXYZ0123456789_.-")


def tok_name(s: str) -> Optional[str]:
    if all(c in TOKEN_OK for c in s):
        return "@" + s
    return None


def tok_val(v) -> Optional[str]:
    t, x = v
    if t == "i":
        return f"i:{x}"
    if t == "s":
        return f"s:{x}" if x and all(c in TOKEN_OK for c in x) else None
    if t == "b":
        return "b:1" if x else "b:0"
    if t == "m":
        if not all(all(c.isalnum() for c in k) and k for k, _ in x):
            return None
        if len({k for k, _ in x}) != len(x):
            return None
        return "m:" + ",".join(f"{k}={n}" for k, n in x)
    return None


def tok_expr(e) -> Optional[List[str]]:
    if isinstance(e, dict):
        return None
    k = e[0]
    fn = base_function_names()
    if k == "lit":
        return ["lit", str(e[1])]
    if k in ("id", "did"):
        return None if e[1] in fn else [k, e[1]]
    if k == "dot":
        a = tok_expr(e[1])
        return None if a is None else ["dot"] + a + [e[2]]
    if k == "add":
        a, b = tok_expr(e[1]), tok_expr(e[2])
        return None if a is None or b is None else ["add"] + a + b
    return None


def model_tokens(ops) -> Optional[List[str]]:
    out: List[str] = []
    for i, op in enumerate(ops):
        if i:
            out.append(";")
        k = op[0]
        if k == "E":
            pkg = "-" if op[2] is None else tok_name(op[2])
            if pkg is None:
                return None
            names = [n for n, _ in op[3]]
            if len(set(names)) != len(names):
                return None
            out += ["E", op[1], pkg, str(len(op[3]))]
            for n, a in op[3]:
                t = tok_name(n)
                if t is None:
                    return None
                out += [t, a]
        elif k == "R":
            out.append("R")
        elif k == "P":
            if op[2] is None:
                out += ["P", str(op[1]), "!"]
            else:
                t = tok_expr(op[2])
                if t is None:
                    return None
                out += ["P", str(op[1])] + t
        elif k == "G":
            if len(op) > 3 and op[3]:
                return None        # host functions are outside the model's fragment
            out += ["G", str(op[1]), str(op[2])]
        elif k == "V":
            names = [n for n, _ in op[2]]
            if len(set(names)) != len(names):
                return None
            out += ["V", str(op[1]), str(len(op[2]))]
            for n, v in op[2]:
                tn, tv = tok_name(n), tok_val(v)
                if tn is None or tv is None:
                    return None
                out += [tn, tv]
        else:
            return None
    return out


# ------------------------------------------------------------------------------------------------

class C05(Prop):
    pid = "C05"
    manifest = dict(
        technique='Lean 4: heap model of NameContainer/Referent/Activation objects with explicit aliasing and the API state machine '
                  'mkEnv/compile/program/evaluate; invariant over ALL operation histories (induction on the history; frame + renaming '
                  'argument on the heap) => every evaluate equals the same evaluate in a fresh world; the clone/parser/exec-namespace '
                  'policies and the recursion-limit policy of Environment.__init__ are re-read from the source on every run (bridge); '
                  'correspondence: generated histories run in one pristine '
                  'process, every evaluate also alone in its own pristine process, and the same history through the Lean step function',
        text='proof: for every finite history of API operations and every program in the resulting state, evaluate(p, b) observes exactly '
             'what it observes in a fresh world built from p\'s declarations, package and expression (Cel.Props.C05.history_independent), '
             'pre-existing heap objects are never written (frame), re-evaluation is stable, the process-wide recursion limit at every '
             'evaluation is the one of the fresh world (limit_history_independent); stated for the clone/parser/namespace/limit policies '
             'that the translator reads from Referent.clone, CELParser.__init__, Transpiler.evaluate and Environment.__init__',
        note='Lean kernel; standard axioms; source extractors for the three policies; the evaluator of the model covers the name-resolution '
             'fragment (identifiers, dotted names, packages, member access, +) — other expressions are covered by the process-level oracle only; '
             'fork from a pristine post-import process stands for "fresh interpreter" (cross-checked against real spawns)',
        ref='DESIGN.md §5 C05')
    lean_targets = ["Cel.Props.C05", "Cel.Bridge.Runtime"]
    audit_namespaces = ["Cel.Props.C05", "Cel.Bridge.Runtime"]
    gen_names = ["Runtime"]
    trusted = ["a process forked from a pristine `import celpy` state behaves like a fresh interpreter (cross-checked by real spawns each run)",
               "canonical rendering of results (NameContainer rendered recursively; CELEvalError by cause class and message head)",
               "expression evaluation outside the model's name-resolution fragment (macros, operators, functions): oracle only",
               "the recursion limit is the only interpreter-wide setting the library touches (grep of sys.setrecursionlimit over the package); "
               "how deep an expression a given limit admits is measured by the oracle (depth ladders), not modelled"]
    rule = ("random API histories (6-40 ops; 1-4 environments of both runner classes; dotted/packaged declarations incl. rare invalid names; "
            "shared annotation dicts; parser resets; ASTs reused across programs/environments; programs re-evaluated with different, "
            "overlapping, empty and repeated bindings), resource-boundary histories (one expression shape nested to a geometric ladder of "
            "depths 8..~210 on environments of both runner classes created before/after each other) and re-entrant histories (a host "
            "function that builds/evaluates another program, or re-evaluates its own, in the middle of an evaluation; same thread or "
            "another thread) each run in one pristine process; every evaluate and every program construction also alone in its own "
            "pristine process (host functions replaced by plain constants); the recursion limit after every operation vs. the model's "
            "limitTrace; non-trivial = distinct history in which some program is evaluated at least twice with different bindings or "
            "which mixes runner classes")
    uses_driver = True

    def __init__(self):
        self._hist: Dict[str, Any] = {}     # case_key -> [[model, rich], ...]
        self._lim: Dict[str, Any] = {}      # case_key -> [recursion limit before the history, after op 0, after op 1, ...]
        self._alone: Dict[str, Any] = {}    # json(alone ops) -> [model, rich] of the last op
        self._alone_jobs: Dict[str, Any] = {}   # json(alone ops) -> ops, for the jobs that were really run (not answered as a prefix)
        self._tier = "quick"

    # ---- generation ------------------------------------------------------------------------------
    def generate(self, rng, tier):
        self._tier = tier
        cases = gen_cases(rng, 2, 4) if tier == "quick" else gen_cases(rng, 40, 8)
        budget = 600 if tier == "quick" else 1500    # only a safety net (a timeout is a tool failure, exit 2)
        from ..core import corpus_cases
        self.prefetch(corpus_cases(self.pid) + cases, budget)
        # the recursion limit after every operation of the same histories vs. the model's `limitTrace` (no further process runs)
        lim_cases = [{"kind": "limit", "ops": c["ops"]} for c in corpus_cases(self.pid) + cases
                     if c.get("kind") == "hist" and not has_reenter(c["ops"])]
        return cases + list({case_key(c): c for c in lim_cases}.values())

    def search_cases(self, rng):
        # the core collects up to 2000 cases before it looks at its deadline: keep our own
        deadline = time.time() + (75 if self._tier == "quick" else 420)
        while time.time() < deadline:
            chunk = gen_cases(rng, 3, 6)
            self.prefetch(chunk, 300)
            for c in chunk:
                yield c

    def prefetch(self, cases, timeout):
        """run the histories, then every alone job they need, in pristine processes"""
        todo = list({case_key(c): c for c in cases if case_key(c) not in self._hist}.values())
        jobs = [{"id": case_key(c), "ops": c["ops"]} for c in todo]
        res = run_jobs(jobs, timeout)
        for c in todo:
            d = res[case_key(c)]
            self._hist[case_key(c)] = d.get("obs") or [["HARNESS-CRASH " + d.get("crash", ""), "HARNESS-CRASH"]]
            self._lim[case_key(c)] = d.get("lim")
        need: Dict[str, Any] = {}
        for c in cases:
            for aops in self.alone_jobs_of(c):
                k = json.dumps(aops)
                if k not in self._alone:
                    need[k] = aops
        # an alone job that is a prefix of another one (program construction / the evaluation of it) is answered by the longer one
        covered = set()
        alone: Dict[str, Any] = {}
        for k, aops in sorted(need.items(), key=lambda kv: -len(kv[1])):
            if k in covered:
                continue
            alone[k] = aops
            for m in range(1, len(aops)):
                covered.add(json.dumps(aops[:m]))
        res = run_jobs([{"id": k, "ops": v} for k, v in alone.items()], timeout)
        for k, aops in alone.items():
            d = res[k]
            obs = d.get("obs")
            if not obs or len(obs) != len(aops):
                self._alone[k] = ["HARNESS-CRASH", "HARNESS-CRASH " + d.get("crash", "")]
                continue
            self._alone_jobs[k] = aops
            for m in range(1, len(aops) + 1):
                self._alone.setdefault(json.dumps(aops[:m]), obs[m - 1])

    def alone_jobs_of(self, c):
        obs = self._hist.get(case_key(c))
        if not obs:
            return []
        info = index_history(c["ops"], [o[0] for o in obs])
        out = []
        for op, spec, o in zip(c["ops"], info, obs):
            for sub, j, _ in nested_refs(spec, o):
                out.append(nested_alone_ops(spec, sub, j))
            if spec is None:
                continue
            if op[0] == "G":
                out.append(alone_ops(spec, None))
            elif op[0] == "V":
                out.append(alone_ops(spec, op[2]))
        return out

    # ---- the three roles --------------------------------------------------------------------------
    def impl(self, c):
        if c.get("kind") == "limit":
            hc = {"kind": "hist", "ops": c["ops"]}
            k = case_key(hc)
            if k not in self._hist:
                self.prefetch([hc], 300)
            lim = self._lim.get(k)
            return "|".join(str(x) for x in lim[1:]) if lim else "no-limits"
        k = case_key(c)
        if k not in self._hist:
            self.prefetch([c], 300)
        return "|".join(o[0] for o in self._hist[k])

    def limit_letters(self):
        from ..translate import gen_c05_c16
        try:
            pol = gen_c05_c16.limit_policy()
        except Exception:
            pol = ("always", 2500)
        return "n" if pol[0] == "never" else (f"a{pol[1]}" if pol[0] == "always" else f"{pol[1]}{pol[2]}")

    def model_line(self, c):
        if c.get("kind") == "limit":
            lim = self._lim.get(case_key({"kind": "hist", "ops": c["ops"]}))
            if not lim:
                return None
            return " ".join(["LIM", self.limit_letters(), str(lim[0])] + [(op[1] if op[0] == "E" else "o") for op in c["ops"]])
        toks = model_tokens(c["ops"])
        if toks is None:
            return None
        return self.cfg_letters() + " " + " ".join(toks)

    def cfg_letters(self):
        """the configuration the translator read from the source (so that model and implementation are compared like with like)"""
        from ..translate import gen_c05_c16
        try:
            cfg = gen_c05_c16.read_config(("clone", "parser", "skipTE"))
        except Exception:
            cfg = {"clone": "deep", "parser": "perClass", "skipTE": True}
        try:
            ns = gen_c05_c16.read_config(("ns",))["ns"]
        except Exception:
            ns = "perCall"
        return ("d" if cfg["clone"] == "deep" else "s") + ("c" if cfg["parser"] == "perClass" else "s") + \
               ("p" if ns == "perCall" else "s") + ("t" if cfg.get("skipTE", True) else "r")

    def model_expect(self, c, m):
        return m

    def oracle(self, c, out):
        if c.get("kind") == "limit":
            return None         # interpreter state, not an outcome: the correspondence with `limitTrace` is what is checked
        k = case_key(c)
        obs = self._hist.get(k)
        if obs is None:
            return None
        if obs and obs[0][0].startswith("HARNESS-CRASH"):
            return "the history crashed the worker: " + obs[0][0]
        info = index_history(c["ops"], [o[0] for o in obs])
        for i, (op, spec) in enumerate(zip(c["ops"], info)):
            if "!BINDINGS-MODIFIED" in obs[i][1]:
                return f"op #{i} evaluate modified the caller's bindings {op[2]!r}"
            if spec is None:
                continue
            from .c05_worker import expr_text
            for sub, j, got in nested_refs(spec, obs[i]):
                if "!BINDINGS-MODIFIED" in got[1]:
                    return f"op #{i}, nested op #{j} evaluate modified the caller's bindings {sub[j][-1]!r}"
                al = self._alone.get(json.dumps(nested_alone_ops(spec, sub, j)))
                if al is not None and al[1] != got[1]:
                    what = (f"the program `{expr_text(spec['expr'])}` evaluated again with {sub[j][1]!r}" if sub[j][0] == "VS"
                            else f"operation {sub[j]!r} of the sub-history {sub!r}")
                    return (f"op #{i}: while `{expr_text(spec['expr'])}` [{spec['kind']} runner] was being "
                            f"{'built' if op[0] == 'G' else 'evaluated'}, its host function performed {what}: that gave {got[1]!r}, "
                            f"but {al[1]!r} alone in a fresh process")
            if op[0] == "G":
                al = self._alone.get(json.dumps(alone_ops(spec, None)))
            elif op[0] == "V":
                al = self._alone.get(json.dumps(alone_ops(spec, op[2])))
            else:
                continue
            if al is None:
                continue
            if al[1] != obs[i][1]:
                what = "program construction" if op[0] == "G" else f"evaluate({op[2]!r})"
                side = ""
                if spec.get("fns") and any(f[1] == "reenter" for f in spec["fns"]["fns"]):
                    side = (" (in the history its host function performs other API operations while it is being called; alone it is "
                            "the plain constant function)")
                text = expr_text(spec['expr'])
                if len(text) > 160:
                    text = text[:70] + " ... " + text[-70:] + f" ({spec['expr']!r})"
                return (f"op #{i}: {what} of `{text}` [{spec['kind']} runner, package={spec['pkg']!r}, "
                        f"declarations={spec['decls']!r}] gave {obs[i][1]!r} in the history but {al[1]!r} alone in a fresh process{side}")
        return None

    def nontrivial(self, c, out):
        ops = c["ops"]
        if c.get("kind") == "limit":
            return len({o[1] for o in ops if o[0] == "E"}) > 1
        kinds = {o[1] for o in ops if o[0] == "E"}
        seen: Dict[int, set] = {}
        for o in ops:
            if o[0] == "V":
                seen.setdefault(o[1], set()).add(json.dumps(o[2]))
        return len(kinds) > 1 or any(len(v) > 1 for v in seen.values())

    # ---- whole-run checks ---------------------------------------------------------------------------
    def extra_checks(self, tier, rng):
        """the fork shortcut against real fresh interpreters: a sample of alone jobs re-run with a real spawn"""
        out = []
        keys = sorted(self._alone_jobs)
        rng.shuffle(keys)
        n = 5 if tier == "quick" else 60
        for k in keys[:n]:
            ops = json.loads(k)
            d = spawn_one({"id": 0, "ops": ops})
            got = d["obs"][-1]
            ok = got[1] == self._alone[k][1]
            out.append({"name": "spawn-vs-fork", "ok": ok, "detail": f"alone job {k[:160]}: spawn {got[1]!r} vs forked {self._alone[k][1]!r}",
                        "case": {"kind": "hist", "ops": ops}})
        return out


PROP = C05()
