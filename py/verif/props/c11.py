"""C11 — timestamp and duration arithmetic and calendar accessors are exact."""
from __future__ import annotations
import datetime
import random
from fractions import Fraction
from typing import Any, Dict, Iterable, List, Optional

from ..core import Prop
from .c11_util import (US_S, US_DAY, MAX_LOC, MAX_DUR, MAX_DUR_S, EPOCH_IDX, H14, ACCESSORS, fields_of_loc,
                       loc_of_fields, idx_from_civil, civil_from_days, is_leap, spec_accessor, make_ts, make_dur,
                       ts_parts, td_us, ts_lit, dur_lit, off_text, canon_time, run_cel, enc, cel_str,
                       expect_from_model, spec_duration_us)

MIN15 = 15 * 60 * US_S
IANA = ["UTC", "America/New_York", "Europe/Paris", "Asia/Kolkata", "Australia/Lord_Howe", "Pacific/Kiritimati",
        "Asia/Kathmandu", "America/St_Johns", "Pacific/Chatham", "Africa/Johannesburg", "America/Sao_Paulo",
        "Asia/Tokyo", "Europe/London", "Pacific/Apia"]
SPECIAL_YEARS = [1, 2, 4, 5, 99, 100, 101, 399, 400, 401, 999, 1000, 1582, 1600, 1700, 1899, 1900, 1901, 1969, 1970,
                 1999, 2000, 2001, 2023, 2024, 2037, 2038, 2100, 2400, 9996, 9998, 9999]
ARITH_OPS = ["add", "radd", "subd", "subt", "addsubd", "addsubt", "dadd", "dsub"]
BAD_TZ = ["+5:3", "5", "+05:3", "05-30", "+24:00", "-24:00", "+23:60", "+05:30 ", " +05:30", "+0530", "++05:30",
          "+99:99", ":30", "12:", "+-05:30", "05:30:00", "+005:30"]


def zone_offset_us(zone: str, utc_us: int) -> Optional[int]:
    """UTC offset of an IANA zone at a UTC instant, from zoneinfo (second opinion to pendulum)"""
    import zoneinfo
    y, m, d, H, M, S, us, _ = fields_of_loc(utc_us)
    try:
        z = zoneinfo.ZoneInfo(zone)
        o = datetime.datetime(y, m, d, H, M, S, us, tzinfo=datetime.timezone.utc).astimezone(z).utcoffset()
    except Exception:
        return None
    return (o.days * 86400 + o.seconds) * US_S + o.microseconds


def zone_transitions(zone: str, year: int) -> List[int]:
    """UTC instants (µs) in `year` at which the UTC offset of an IANA zone changes, from zoneinfo: a daily scan, then a
    bisection to the second.  Used to aim accessor cases at the neighbourhood of daylight-saving transitions, where
    "convert the instant to the zone" and "add the zone's offset read at the wrong instant / as wall time" differ."""
    out = []
    lo = loc_of_fields(year, 1, 1)
    prev = zone_offset_us(zone, lo)
    t = lo
    for _ in range(366):
        nxt = t + US_DAY
        if nxt > MAX_LOC:
            break
        cur = zone_offset_us(zone, nxt)
        if cur is not None and prev is not None and cur != prev:
            a, b = t, nxt
            while b - a > US_S:
                mid = (a + b) // 2
                mid -= mid % US_S
                if mid <= a:
                    break
                if zone_offset_us(zone, mid) == prev:
                    a = mid
                else:
                    b = mid
            out.append(b)
        prev, t = cur, nxt
    return out


def parse_fixed(text: str) -> Optional[int]:
    """own reading of ±HH:MM / HH:MM / H:MM (well-formed, minutes < 60) -> µs"""
    s = text
    sign = 1
    if s[:1] in "+-":
        sign = -1 if s[0] == "-" else 1
        s = s[1:]
    hh, sep, mm = s.partition(":")
    if sep != ":" or not (1 <= len(hh) <= 2) or len(mm) != 2 or not (hh + mm).isascii() or not (hh + mm).isdigit():
        return None
    if int(mm) >= 60:
        return None
    return sign * (int(hh) * 60 + int(mm)) * 60 * US_S


class C11(Prop):
    pid = "C11"
    manifest = dict(
        technique='Lean 4 theorems over all Int instants/durations and all Nat day numbers (cancel laws, range errors, calendar bijection by 400-year periodicity + tables, accessor = civil field for every fixed offset, exact denotation of duration text); constants/regex/scale table regenerated from celtypes.py + bridge; datetime swept against the Lean calendar; independent integer calendar oracle',
        text='proof: (t+d)-d = t, (t+d)-t = d, t1-t2 = elapsed, out-of-range = error for ALL instants/durations; civilOfDays/daysOfCivil are mutually inverse on ALL day numbers; every accessor equals the civil field of the shifted instant; duration text denotes the exact sum. datetime/pendulum/zoneinfo are trusted and corresponded (sweep of every year boundary, offsets -14:00..+14:00, 14 IANA zones)',
        note='Lean kernel; datetime, pendulum, zoneinfo/tzdata trusted (swept against the model every run); IANA zones opaque (offset supplied by zoneinfo); float getters of DurationType modelled with exact binary64 rounding, outside the property',
        ref='DESIGN.md §5 C11')
    lean_targets = ["Cel.Props.C11", "Cel.Bridge.Time"]
    audit_namespaces = ["Cel.Props.C11", "Cel.Bridge.Time"]
    gen_names = ["Time"]
    trusted = ["CPython datetime/timedelta arithmetic and calendar (swept against the Lean calendar on every run: year boundaries, leap days, random days)",
               "pendulum.parse / pendulum.timezone and the IANA database (zone offsets taken from zoneinfo as a second opinion)",
               "IEEE-754 binary64 division/multiplication of the host for DurationType getters (modelled exactly in Lean, compared, not part of the property)"]
    rule = ("instants: range ends, every boundary of a pool of special years, leap days, random µs instants, each with offsets "
            "-14:00..+14:00 in 15-min steps (plus a few beyond); durations: 0, ±1µs, ±1s, ±max, random, and values landing next to "
            "the range ends; 8 arithmetic shapes incl. (t+d)-d and (t+d)-t through both runners with literals and bound variables; "
            "10 accessors × {no zone, fixed offset text, IANA zone, malformed text} through both runners and directly; accessors of "
            "the result of timestamp ± duration (own offset kept, with / without a zone argument); duration texts "
            "built from components (all units, fractions, signs, several items, near/over the range) plus malformed ones; datetime "
            "primitives (fromordinal/toordinal/isoweekday) against the model. non-trivial = result or operand within 2 days of a "
            "range end, an error outcome, a local date that differs from the UTC date, a leap day / year boundary, or a duration "
            "text with a fraction, several items or a sub-second unit")

    # ------------------------------------------------------------------------------------------
    def generate(self, rng: random.Random, tier: str) -> Iterable[Dict[str, Any]]:
        quick = tier == "quick"
        cases: List[Dict[str, Any]] = []
        offs15 = [k * MIN15 for k in range(-56, 57)]
        more_offs = [-(23 * 60 + 59) * 60 * US_S, (23 * 60 + 59) * 60 * US_S, 18 * 3600 * US_S, -15 * 3600 * US_S]

        def rand_off():
            r = rng.random()
            if r < 0.35:
                return 0
            if r < 0.95:
                return rng.choice(offs15)
            return rng.choice(more_offs)

        def special_locs():
            out = [0, 1, US_S, MAX_LOC, MAX_LOC - 1, MAX_LOC - US_S + 1]
            for y in SPECIAL_YEARS:
                out.append(loc_of_fields(y, 1, 1))
                out.append(loc_of_fields(y, 12, 31, 23, 59, 59, 999999))
                out.append(loc_of_fields(y, 2, 28, 23, 59, 59, 999999))
                out.append(loc_of_fields(y, 3, 1))
                if is_leap(y):
                    out.append(loc_of_fields(y, 2, 29, 12))
            return out

        def rand_loc():
            r = rng.random()
            if r < 0.3:
                return rng.choice(SPECIAL)
            if r < 0.6:
                return rng.randint(loc_of_fields(1900, 1, 1), loc_of_fields(2100, 1, 1))
            if r < 0.7:
                return rng.randint(0, 3 * US_DAY) if rng.random() < 0.5 else MAX_LOC - rng.randint(0, 3 * US_DAY)
            return rng.randint(0, MAX_LOC)

        SPECIAL = special_locs()

        def rand_dur(l):
            r = rng.random()
            if r < 0.15:
                return rng.choice([0, 1, -1, US_S, -US_S, US_DAY, -US_DAY, MAX_DUR, -MAX_DUR, MAX_DUR - 1, -MAX_DUR + 1])
            if r < 0.35:   # land next to a range end
                tgt = rng.choice([0, MAX_LOC]) + rng.randint(-3, 3) * rng.choice([1, US_S, US_DAY])
                if rng.random() < 0.3:   # anywhere inside the first / last representable second (sub-second part kept)
                    tgt = rng.choice([rng.randint(0, US_S - 1), MAX_LOC - rng.randint(0, US_S - 1)])
                d = tgt - l
                return max(-MAX_DUR, min(MAX_DUR, d))
            if r < 0.6:
                return rng.randint(-10**9, 10**9) * rng.choice([1, US_S])
            return rng.randint(-MAX_DUR, MAX_DUR)

        # --- arithmetic -------------------------------------------------------------------------
        n_arith = 2000 if quick else 60000
        for _ in range(n_arith):
            op = rng.choice(ARITH_OPS)
            l, o = rand_loc(), rand_off()
            d = rand_dur(l)
            via = rng.choice(["I", "C", "Ivar", "Cvar"])
            if via in ("I", "C") and rng.random() < 0.8:
                d -= d % US_S if d >= 0 else -((-d) % US_S)     # literal durations are whole seconds
            c = {"kind": "arith", "op": op, "l": l, "o": o, "d": d, "via": via}
            if op == "subt":
                c["l2"], c["o2"] = rand_loc(), rand_off()
            if op in ("dadd", "dsub"):
                a = rng.choice([0, 1, -1, MAX_DUR, -MAX_DUR, rng.randint(-MAX_DUR, MAX_DUR), rng.randint(-10**12, 10**12)])
                b = rng.choice([0, 1, -1, MAX_DUR - a if a > 0 else -MAX_DUR - a, rng.randint(-MAX_DUR, MAX_DUR), rng.randint(-10**6, 10**6)])
                b = max(-MAX_DUR, min(MAX_DUR, b + rng.choice([0, 0, 1, -1, US_S])))
                if via in ("I", "C"):
                    a -= a % US_S
                    b -= b % US_S
                c["l"], c["o"], c["d"] = a, 0, b
            cases.append(c)

        # --- accessors ----------------------------------------------------------------------------
        def acc_case(l, o, name, tzkind, via):
            c = {"kind": "acc", "name": name, "l": l, "o": o, "tzkind": tzkind, "via": via}
            if tzkind == "fixed":
                off = rng.choice(offs15) if rng.random() < 0.9 else rng.choice(more_offs)
                mins = abs(off) // (60 * US_S)
                hh, mm = divmod(mins, 60)
                sign = "-" if off < 0 else rng.choice(["+", "+", ""])
                hs = str(hh) if (hh < 10 and rng.random() < 0.25) else f"{hh:02d}"
                t = f"{sign}{hs}:{mm:02d}"
                c["tz"] = t
            elif tzkind == "iana":
                c["tz"] = rng.choice(IANA)
            elif tzkind == "bad":
                c["tz"] = rng.choice(BAD_TZ)
            else:
                c["tz"] = ""
            return c

        n_acc = 2500 if quick else 40000
        for _ in range(n_acc):
            tzkind = rng.choices(["none", "fixed", "iana", "bad"], [2, 6, 2, 1])[0]
            l, o = rand_loc(), rand_off()
            if tzkind == "iana":
                l = rng.randint(loc_of_fields(1950, 1, 1), loc_of_fields(2037, 12, 31))
            via = rng.choice(["I", "C", "Ivar", "Cvar", "direct", "direct"])
            cases.append(acc_case(l, o, rng.choice(ACCESSORS), tzkind, via))
        # instants in the neighbourhood of daylight-saving transitions of IANA zones (seeded C11-m8: the zone's offset read
        # at the wrong instant is right everywhere except within |offset| hours of a transition)
        dst_zones = [z for z in IANA if z != "UTC"]
        for _ in range(10 if quick else 80):
            z = rng.choice(dst_zones)
            y = rng.randint(1975, 2036)
            for tr in zone_transitions(z, y):
                before = zone_offset_us(z, tr - US_S) or 0
                after = zone_offset_us(z, tr) or 0
                deltas = {0, -US_S, US_S, -30 * 60 * US_S, 30 * 60 * US_S, -before, -after, before, after,
                          -before + US_S, -after - US_S, -abs(before) // 2, abs(after) // 2, -3600 * US_S, 3600 * US_S}
                for dlt in sorted(deltas):
                    l = tr + dlt
                    if not (0 <= l <= MAX_LOC):
                        continue
                    for name in ("getHours", "getMinutes", "getDate", "getDayOfWeek", "getDayOfYear"):
                        if quick and rng.random() < 0.5:
                            continue
                        c = {"kind": "acc", "name": name, "l": l, "o": 0, "tzkind": "iana", "tz": z,
                             "via": rng.choice(["I", "C", "Ivar", "Cvar", "direct"])}
                        cases.append(c)
        # an accessor applied to the RESULT of timestamp ± duration (a value built by the arithmetic dunders, carrying
        # the operand's own offset), with and without a zone argument, through both runners
        for _ in range(400 if quick else 6000):
            l, o = rand_loc(), rand_off()
            if rng.random() < 0.5 and o == 0:
                o = rng.choice(offs15)
            d = rand_dur(l) if rng.random() < 0.4 else rng.randint(-400 * US_DAY, 400 * US_DAY)
            via = rng.choice(["I", "C", "Ivar", "Cvar"])
            if via in ("I", "C"):
                d -= d % US_S if d >= 0 else -((-d) % US_S)
            c = acc_case(l, o, rng.choice(ACCESSORS), rng.choices(["none", "fixed"], [3, 2])[0], via)
            c["kind"], c["d"], c["minus"] = "accsum", d, rng.random() < 0.4
            cases.append(c)
        # the sweep: year boundaries × offsets, called directly (fast)
        years = sorted(set(SPECIAL_YEARS + rng.sample(range(1, 10000), 150))) if quick else range(1, 10000)
        for y in years:
            for l in (loc_of_fields(y, 1, 1), loc_of_fields(y, 12, 31, 23, 59, 59, 999999)):
                for _ in range(2 if quick else 6):
                    c = acc_case(l, 0, rng.choice(["getFullYear", "getMonth", "getDate", "getDayOfMonth", "getDayOfYear",
                                                    "getDayOfWeek", "getHours"]), "fixed", "direct")
                    cases.append(c)

        # --- duration text ----------------------------------------------------------------------------
        def number(big=False):
            r = rng.random()
            ip = str(rng.choice([0, 1, 2, 5, 9, 10, 59, 60, 100, 999, rng.randint(0, 10**6)]) if not big else rng.randint(0, MAX_DUR_S))
            if r < 0.5:
                return ip
            fp = "".join(rng.choice("0123456789") for _ in range(rng.choice([1, 1, 2, 3, 6, 7, 9, 12])))
            if r < 0.85:
                return ip + "." + fp
            if r < 0.93:
                return "." + fp
            return ip + "."

        units = ["ns", "us", "µs", "ms", "s", "m", "h", "d"]
        n_dur = 1500 if quick else 40000
        for _ in range(n_dur):
            r = rng.random()
            via = rng.choice(["direct", "direct", "I", "C"])
            if r < 0.2:      # the property's own form XhYmZs
                X, Y, Z = (rng.choice([0, 1, 23, 24, 100, rng.randint(0, 10**5), rng.randint(0, 87660000)]),
                           rng.choice([0, 1, 59, 60, 61, rng.randint(0, 10**6)]), rng.choice([0, 1, 59, 60, rng.randint(0, 10**7)]))
                text = rng.choice(["", "", "+", "-"]) + f"{X}h{Y}m{Z}s"
                cls = "valid"
            elif r < 0.7:
                k = rng.choice([1, 1, 2, 3, 4])
                text = rng.choice(["", "", "+", "-"]) + "".join(number() + rng.choice(units) for _ in range(k))
                cls = "valid"
            elif r < 0.8:    # around the range limit
                base = MAX_DUR_S + rng.choice([-2, -1, 0, 0, 1])
                text = rng.choice(["", "-"]) + str(base) + rng.choice(["s", "s", ".000000s", ".000001s", ".0000001s", ".9999999s", "s1us", "s999ms", "s1ns"])
                cls = "valid"
            elif r < 0.85:
                text = rng.choice(["", "-"]) + number(big=True) + "s"
                cls = "valid"
            else:
                good = number() + rng.choice(units)
                text = rng.choice(["", "s", ".s", "1", "1.5", good.upper(), good + " ", " " + good, good.replace("s", "sec") if "s" in good else good + "x",
                                   "+-" + good, "--" + good, good + "1", "1e3s", "1.2.3s", "1,5s", "1 s", "h1", "1hh", "1w", "１s", "1s;", "P1D",
                                   "1:00", "0x10s", "1_0s", good + "+" + good, good + "-1s"])
                cls = "invalid"
            cases.append({"kind": "durparse", "text": text, "cls": cls, "via": via})
        cases.append({"kind": "durparse", "text": "1s\n", "cls": "quirk", "via": "direct"})

        # --- duration getters (model only) ---------------------------------------------------------------
        for _ in range(150 if quick else 10000):
            us = rng.choice([0, 1, -1, 999, 1000, 1001000, -1001000, MAX_DUR, -MAX_DUR, MAX_DUR - 1, rng.randint(-MAX_DUR, MAX_DUR),
                             rng.randint(-10**10, 10**10), rng.randint(-10**7, 10**7) * 1000, rng.randint(-10**6, 10**6) * US_S])
            cases.append({"kind": "durget", "name": rng.choice(["getHours", "getMinutes", "getSeconds", "getMilliseconds"]),
                          "us": us, "via": rng.choice(["direct", "direct", "Ivar", "Cvar"])})

        # --- tz_offset_parse directly ---------------------------------------------------------------------
        for off in (offs15 if not quick else rng.sample(offs15, 30)) + more_offs:
            cases.append({"kind": "tzoff", "text": off_text(off)})
        for t in BAD_TZ + ["5:30", "-5:30", "00:00", "-00:00", "+14:00", "-14:00", "+05:99", "+23:59", "-23:59", "+05:30\n"]:
            cases.append({"kind": "tzoff", "text": t})

        # --- datetime primitives against the model --------------------------------------------------------
        days = set()
        for y in (years if quick else range(1, 10000)):
            for (m, d) in ((1, 1), (2, 28), (3, 1), (12, 31)):
                days.add(idx_from_civil(y, m, d))
            if is_leap(y):
                days.add(idx_from_civil(y, 2, 29))
        for _ in range(300 if quick else 30000):
            days.add(rng.randint(0, 3652058))
        for n in sorted(days):
            cases.append({"kind": "prim", "n": n})
        for _ in range(200 if quick else 20000):
            y, m = rng.randint(1, 9999), rng.randint(1, 12)
            dim = [31, 29 if is_leap(y) else 28, 31, 30, 31, 30, 31, 31, 30, 31, 30, 31][m - 1]
            cases.append({"kind": "prim2", "y": y, "m": m, "d": rng.choice([1, dim, rng.randint(1, dim)])})
        return cases

    # ------------------------------------------------------------------------------------------
    def extra_checks(self, tier, rng):
        """thorough: EVERY day of years 0001..9999 — `date.fromordinal` (fields + isoweekday) against the
        Lean calendar and against the independent integer calendar"""
        if tier != "thorough":
            return []
        from ..core import run_driver
        bad = None
        n_total = 3652059
        step = 400000
        for lo in range(0, n_total, step):
            hi = min(n_total, lo + step)
            outs = run_driver("C11", [f"civil {n}" for n in range(lo, hi)])
            for n, mo in zip(range(lo, hi), outs):
                d = datetime.date.fromordinal(n + 1)
                got = f"{d.year} {d.month} {d.day} {d.isoweekday()}"
                y, m, dd = civil_from_days(n - EPOCH_IDX)
                exp = f"{y} {m} {dd} {(n - EPOCH_IDX + 3) % 7 + 1}"
                if got != mo or got != exp:
                    bad = (n, got, mo, exp)
                    break
            if bad:
                break
        if bad:
            n, got, mo, exp = bad
            return [{"name": "full-day-sweep", "ok": False, "case": {"kind": "prim", "n": n},
                     "detail": f"day {n}: datetime says {got}, Lean model {mo}, integer calendar {exp}"}]
        return [{"name": "full-day-sweep", "ok": True, "detail": f"all {n_total} days of years 0001-9999: datetime = Lean model = integer calendar"}]

    def impl(self, c):
        from celpy import celtypes
        k = c["kind"]
        if k == "arith":
            op, via = c["op"], c["via"]
            l, o, d = c["l"], c["o"], c["d"]
            lit = via in ("I", "C")
            if lit and (d % US_S != 0 or (op in ("dadd", "dsub") and l % US_S != 0)):
                lit = False
            runner = via[0]
            b: Dict[str, Any] = {}
            if op in ("dadd", "dsub"):
                A = dur_lit(l) if lit else "a"
                B = dur_lit(d) if lit else "b"
                if not lit:
                    b = {"a": make_dur(l), "b": make_dur(d)}
                return run_cel(f"{A} {'+' if op == 'dadd' else '-'} {B}", runner, b)
            T = ts_lit(l, o) if lit else "t"
            D = dur_lit(d) if lit else "d"
            if not lit:
                b = {"t": make_ts(l, o), "d": make_dur(d)}
            if op == "subt":
                T2 = ts_lit(c["l2"], c["o2"]) if lit else "t2"
                if not lit:
                    b["t2"] = make_ts(c["l2"], c["o2"])
                src = f"{T} - {T2}"
            else:
                src = {"add": f"{T} + {D}", "radd": f"{D} + {T}", "subd": f"{T} - {D}",
                       "addsubd": f"({T} + {D}) - {D}", "addsubt": f"({T} + {D}) - {T}"}[op]
            return run_cel(src, runner, b)
        if k == "acc":
            name, via, tz = c["name"], c["via"], c["tz"]
            l, o = c["l"], c["o"]
            if via == "direct":
                try:
                    t = make_ts(l, o)
                    r = getattr(t, name)(celtypes.StringType(tz)) if c["tzkind"] != "none" else getattr(t, name)()
                except Exception as ex:
                    return "raise " + type(ex).__name__
                return canon_time(r)
            arg = "" if c["tzkind"] == "none" else cel_str(tz)
            if via in ("I", "C"):
                return run_cel(f"{ts_lit(l, o)}.{name}({arg})", via)
            return run_cel(f"t.{name}({arg})", via[0], {"t": make_ts(l, o)})
        if k == "accsum":
            name, via, tz = c["name"], c["via"], c["tz"]
            l, o, d = c["l"], c["o"], c["d"]
            arg = "" if c["tzkind"] == "none" else cel_str(tz)
            sign = "-" if c["minus"] else "+"
            if via in ("I", "C") and d % US_S == 0:
                return run_cel(f"({ts_lit(l, o)} {sign} {dur_lit(d)}).{name}({arg})", via)
            return run_cel(f"(t {sign} d).{name}({arg})", via[0], {"t": make_ts(l, o), "d": make_dur(d)})
        if k == "durparse":
            if c["via"] == "direct":
                try:
                    return canon_time(celtypes.DurationType(c["text"]))
                except Exception as ex:
                    return "raise " + type(ex).__name__
            return run_cel(f"duration({cel_str(c['text'])})", c["via"])
        if k == "durget":
            if c["via"] == "direct":
                try:
                    return canon_time(getattr(make_dur(c["us"]), c["name"])())
                except Exception as ex:
                    return "raise " + type(ex).__name__
            return run_cel(f"d.{c['name']}()", c["via"][0], {"d": make_dur(c["us"])})
        if k == "tzoff":
            try:
                tz = celtypes.TimestampType.tz_offset_parse(c["text"])
                return f"ok {td_us(tz.utcoffset(None))}"
            except Exception as ex:
                return "raise " + type(ex).__name__
        if k == "prim":
            d = datetime.date.fromordinal(c["n"] + 1)
            return f"{d.year} {d.month} {d.day} {d.isoweekday()}"
        if k == "prim2":
            return str(datetime.date(c["y"], c["m"], c["d"]).toordinal() - 1)
        raise ValueError(k)

    # ------------------------------------------------------------------------------------------
    def model_line(self, c):
        k = c["kind"]
        if k == "arith":
            op = c["op"]
            if op == "subt":
                return f"subt {c['l']} {c['o']} {c['l2']} {c['o2']}"
            if op in ("dadd", "dsub"):
                return f"{op} {c['l']} {c['d']}"
            return f"{'add' if op == 'radd' else op} {c['l']} {c['o']} {c['d']}"
        if k == "acc":
            tk = c["tzkind"]
            if tk == "none":
                return f"acc {c['name']} {c['l']} {c['o']} 0"
            if tk == "iana":
                zo = zone_offset_us(c["tz"], c["l"] - c["o"]) if 0 <= c["l"] - c["o"] <= MAX_LOC else None
                if zo is None:
                    return None
                return f"acc {c['name']} {c['l']} {c['o']} {zo}"
            if not c["tz"].isascii():
                return None
            return f"accfix {c['name']} {c['l']} {c['o']} {enc(c['tz'])}"
        if k == "accsum":
            if not c["tz"].isascii():
                return None
            return f"accsumfix {c['name']} {c['l']} {c['o']} {-c['d'] if c['minus'] else c['d']} {enc(c['tz'])}"
        if k == "durparse":
            if any(ord(ch) > 127 and ch != "µ" for ch in c["text"]):
                return None
            return "durparse " + enc(c["text"])
        if k == "durget":
            return f"durget {c['name']} {c['us']}"
        if k == "tzoff":
            return "tzoff " + enc(c["text"]) if c["text"].isascii() else None
        if k == "prim":
            return f"civil {c['n']}"
        if k == "prim2":
            return f"days {c['y']} {c['m']} {c['d']}"
        return None

    def model_expect(self, c, m):
        k = c["kind"]
        if k == "arith":
            op = c["op"]
            if op in ("subt", "addsubt", "dadd", "dsub"):
                return expect_from_model(m, c["via"], "addition", lambda s: "dur " + s)
            return expect_from_model(m, c["via"], "addition", lambda s: "ts " + s)
        if k == "acc":
            return expect_from_model(m, c["via"], "method_eval", lambda s: "int:" + s)
        if k == "accsum":
            # an exception of either step (OverflowError of the sum, ValueError/OverflowError of the accessor) is an
            # evaluation error under both rules on the unchanged tree
            e1 = expect_from_model(m, c["via"], "addition", lambda s: "int:" + s)
            e2 = expect_from_model(m, c["via"], "method_eval", lambda s: "int:" + s)
            return e1 if e1 == e2 else e2
        if k == "durparse":
            return expect_from_model(m, c["via"], "function_eval", lambda s: "dur " + s)
        if k == "durget":
            return expect_from_model(m, c["via"], "method_eval", lambda s: "int:" + s)
        return m

    # ------------------------------------------------------------------------------------------
    def oracle(self, c, out):
        k = c["kind"]
        if k == "arith":
            return self._oracle_arith(c, out)
        if k == "acc":
            return self._oracle_acc(c, out)
        if k == "accsum":
            # (t ± d).getX(zone): when the sum is representable (local and UTC clock) the accessor sees the instant t ± d
            r = c["l"] - c["d"] if c["minus"] else c["l"] + c["d"]
            if not (self._in(r) and self._in(r - c["o"])):
                return None
            msg = self._oracle_acc(dict(c, l=r), out)
            return None if msg is None else f"(t {'-' if c['minus'] else '+'} d) with t=(local {c['l']}µs, offset {c['o']}µs) d={c['d']}µs, then " + msg
        if k == "durparse":
            return self._oracle_durparse(c, out)
        if k == "tzoff":
            exp = parse_fixed(c["text"])
            if exp is None or abs(exp) > H14:
                return None
            if out != f"ok {exp}":
                return f"tz_offset_parse({c['text']!r}): the offset is {exp} µs, implementation gave {out}"
            return None
        if k == "prim":
            y, m, d = civil_from_days(c["n"] - EPOCH_IDX)
            exp = f"{y} {m} {d} {(c['n'] - EPOCH_IDX + 3) % 7 + 1}"
            return None if out == exp else f"datetime.date.fromordinal({c['n'] + 1}) = {out}, proleptic Gregorian calendar says {exp}"
        if k == "prim2":
            exp = str(idx_from_civil(c["y"], c["m"], c["d"]))
            return None if out == exp else f"date({c['y']},{c['m']},{c['d']}).toordinal()-1 = {out}, expected {exp}"
        return None

    @staticmethod
    def _in(x):
        return 0 <= x <= MAX_LOC

    def _oracle_arith(self, c, out):
        op, l, o, d = c["op"], c["l"], c["o"], c["d"]
        what = f"{op} t=(local {l}µs, offset {o}µs) d={d}µs via {c['via']}"
        if op in ("dadd", "dsub"):
            s = l + d if op == "dadd" else l - d
            if abs(s) <= MAX_DUR:
                return None if out == f"dur {s}" else f"{what}: exact result {s} µs is in range, implementation gave {out}"
            return None if out == "err" else f"{what}: exact result {s} µs is outside ±315576000000 s, expected an evaluation error, got {out}"
        if op == "subt":
            e = (l - o) - (c["l2"] - c["o2"])
            return None if out == f"dur {e}" else f"{what} t2=({c['l2']},{c['o2']}): elapsed time is {e} µs, implementation gave {out}"
        r = l - d if op == "subd" else l + d
        loc_ok, utc_ok = self._in(r), self._in(r - o)
        if loc_ok and utc_ok:
            if op == "addsubt":
                return None if out == f"dur {d}" else f"{what}: (t+d)-t must be d={d}, implementation gave {out}"
            want = (l - o) if op == "addsubd" else (r - o)
            if out.startswith("ts "):
                gl, go = (int(x) for x in out.split()[1:])
                if gl - go == want:
                    return None
            return f"{what}: expected the instant {want} µs (UTC), implementation gave {out}"
        if not loc_ok and not utc_ok:
            return None if out == "err" else f"{what}: result is outside years 0001-9999, expected an evaluation error, got {out}"
        return None

    def _oracle_acc(self, c, out):
        tk = c["tzkind"]
        l, o = c["l"], c["o"]
        utc = l - o
        if tk == "none":
            off = 0
        elif tk == "fixed":
            off = parse_fixed(c["tz"])
            if off is None or abs(off) > H14:
                return None
        elif tk == "iana":
            if not self._in(utc):
                return None
            off = zone_offset_us(c["tz"], utc)
            if off is None:
                return None
        else:
            return None
        if not self._in(utc) or not self._in(utc + off):
            return None
        exp = spec_accessor(c["name"], utc + off)
        if out != f"int:{exp}":
            return (f"{c['name']}({c['tz']!r}) of local {l}µs offset {o}µs via {c['via']}: civil field is {exp}, "
                    f"implementation gave {out}")
        return None

    def _oracle_durparse(self, c, out):
        text, cls = c["text"], c["cls"]
        if cls == "quirk":
            return None
        val = spec_duration_us(text)
        is_value = out.startswith("dur ")
        if cls == "invalid" or val is None:
            if cls == "invalid" and val is None and is_value:
                return f"duration({text!r}) is not a duration text, expected an error, implementation gave {out}"
            return None
        if abs(val) > MAX_DUR:
            if is_value:
                return f"duration({text!r}) denotes {float(val) / 1e6} s, outside ±315576000000 s; expected an error, got {out}"
            return None
        if not is_value:
            return f"duration({text!r}) denotes {val} µs (in range), implementation gave {out}"
        got = int(out[4:])
        if abs(Fraction(got) - val) >= 1:
            return f"duration({text!r}) denotes exactly {val} µs, implementation gave {got} µs"
        return None

    # ------------------------------------------------------------------------------------------
    def nontrivial(self, c, out):
        k = c["kind"]
        edge = 2 * US_DAY
        if k == "arith":
            if not (out.startswith("ts ") or out.startswith("dur ")):
                return True
            vals = [c["l"], c["l"] + c["d"], c["l"] - c["d"]]
            return any(v < edge or v > MAX_LOC - edge for v in vals) or abs(c["d"]) > MAX_DUR - US_DAY
        if k == "accsum":
            return True
        if k == "acc":
            if not out.startswith("int:"):
                return True
            y, m, d = fields_of_loc(c["l"])[:3]
            return (m, d) in ((1, 1), (12, 31), (2, 28), (2, 29), (3, 1)) or c["tzkind"] in ("fixed", "iana")
        if k == "durparse":
            t = c["text"]
            return "." in t or sum(t.count(u) for u in "smhd") > 1 or not out.startswith("dur ")
        if k == "durget":
            return c["us"] % US_S != 0
        if k == "tzoff":
            return True
        if k == "prim":
            y, m, d = civil_from_days(c["n"] - EPOCH_IDX)
            return (m, d) in ((1, 1), (12, 31), (2, 28), (2, 29), (3, 1))
        return True


PROP = C11()
