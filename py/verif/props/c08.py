"""C08 — equality and ordering are coherent within each CEL type."""
from __future__ import annotations
import itertools
import random
from typing import Any, Dict, Iterable, List, Optional

from ..core import Prop
from .. import celrun
from .. import celvals as V

OPS = [("eq", "=="), ("ne", "!="), ("lt", "<"), ("le", "<="), ("gt", ">"), ("ge", ">=")]
ORDERED_NAMES = {"i": "int", "u": "uint", "d": "double", "b": "bool", "s": "string", "y": "bytes", "t": "timestamp", "r": "duration"}


def out_char(o: str) -> str:
    """one character per evaluation: T/F BoolType, t/f another class carrying the truth value, E error, X escape"""
    if o == "bool:true":
        return "T"
    if o == "bool:false":
        return "F"
    if o == "pybool:true":
        return "t"
    if o == "pybool:false":
        return "f"
    if o == "err":
        return "E"
    if o.startswith("EXC "):
        return "X"
    return "?"


def parse_matrix(s: str) -> Dict[tuple, str]:
    m = {}
    for cell in s.split():
        ij, vals = cell.split(":")
        m[(int(ij[0]), int(ij[1]))] = vals
    return m


class C08(Prop):
    pid = "C08"
    manifest = dict(
        technique=('Lean 4 theorems over an executable model of the six relations as cel-python composes them (type_matched, '
                   'inherited native comparisons, Python NotImplemented/reflected dispatch, ListType/MapType element-wise reductions '
                   'with TypeError capture, boolean() and the relation rule of both runners): reflexivity, symmetry, != = not ==, strict '
                   'total order / trichotomy / lt-gt duality / le = lt or eq for every ordered type, list and map equality pointwise by '
                   'induction on nesting, timestamp zone irrelevance. Which class defines which comparison dunder and the structure of the '
                   'container reductions are regenerated from celtypes.py/evaluation.py on every run and proved equal to the model\'s tables; '
                   'differential correspondence on pairs/triples through both runners; independent reference-semantics oracle'),
        text=('proof: for ALL same-typed values (any integers, code-point lists, instants, any nesting depth and size) == is reflexive and '
              'symmetric, != is its negation, < is a strict total order on each ordered type with the stated dualities, lists/maps are equal '
              'exactly when point-wise equal (== is also transitive at any nesting, <= a total preorder with == as its symmetric part, equal values '
              'interchangeable in every relation), timestamps compare by instant; the comparison-dunder table and container-reduction structure '
              'the theorems assume are re-read from the source and bridged on every run'),
        note=('Lean kernel; standard axioms; CPython rich-comparison dispatch, str/bytes/int/datetime/timedelta/float comparison and dict '
              'key lookup are modelled (IEEE order via the monotone sign-magnitude key), tied by correspondence only; lark'),
        ref='DESIGN.md §5 C08')
    lean_targets = ["Cel.Props.C08", "Cel.Bridge.Compare"]
    audit_namespaces = ["Cel.Props.C08", "Cel.Bridge.Compare"]
    gen_names = ["Compare"]
    trusted = ["CPython rich-comparison dispatch (NotImplemented, reflected method, identity default) as modelled in Cel.Model.Value.pyRelFlat",
               "native int/str/bytes/datetime/timedelta comparison = integer / lexicographic code-point / instant comparison; IEEE-754 order of "
               "non-NaN doubles = order of the sign-magnitude reading of the bit pattern (corresponded, not proved)",
               "dict key lookup finds a key iff an equal key of the same class was inserted (hash collisions between classes ignored)",
               "lark parsing / pendulum parsing of the generated literal texts"]
    rule = ("type-directed generator: a CEL type (10 scalar kinds, lists and maps nested to depth 4, keys int/uint/bool/string), a value of it, "
            "then one or two further values of the same type derived by small variations (±1, sign flip of doubles incl. ±0.0, prefix/extension/"
            "one-position change of strings and bytes incl. non-BMP code points, same or neighbouring instant written with another UTC offset, "
            "element change / append / drop / swap for lists, reorder / drop / add / re-key for maps); all ordered pairs of the 2–3 values × six "
            "relations are evaluated through `x OP y` on the interpreter or the compiled runner with the values bound as variables or spelled as "
            "literals; plus pairs of differently-typed values (model correspondence only); plus (round 2) values that differ but coincide under a "
            "coarser notion of sameness — Unicode normalisation forms / case mappings / padding / stripped marks of texts built from precomposed, "
            "decomposed, compatibility and case-odd characters (also inside lists, map values and map keys), integers modulo 2^32 / 2^63 / in "
            "absolute value, doubles within a relative tolerance or equal in binary32, equal wall-clock readings in other zones, instants and "
            "durations equal after truncation — and sequences inside one process on one shared program per operator: the same numerals compared "
            "as int, uint, double, bool, duration, timestamp one after the other, the same text as string and bytes. non-trivial = distinct case in which at least one pair "
            "is unequal-but-related (differs from its variation), or contains a container, or an extreme/boundary scalar")

    # -- generation -----------------------------------------------------------------------------------------------
    def generate(self, rng: random.Random, tier: str) -> Iterable[Dict[str, Any]]:
        quick = tier == "quick"
        cases: List[Dict[str, Any]] = []
        n = 650 if quick else 15000
        for i in range(n):
            r = rng.random()
            if r < 0.5:
                ty = rng.choice(V.SCALARS)
            else:
                ty = V.gen_type(rng, rng.choice([1, 2, 3, 4]))
            a = V.gen_val(rng, ty)
            b = V.gen_val(rng, ty, a)
            vals = [a, b]
            if rng.random() < 0.55:
                vals.append(V.gen_val(rng, ty, rng.choice([a, b])))
            runner = "I" if i % 2 == 0 else "C"
            via = "lit" if rng.random() < 0.2 else "var"
            cases.append({"kind": "laws", "vals": vals, "runner": runner, "via": via})
        # every ordered scalar type: exhaustive small pools (all triples)
        pools = {
            "i": [V.I_MIN, -1, 0, 1, V.I_MAX], "u": [0, 1, 2**63, V.U_MAX],
            "d": [V.bits_of(x) for x in (-float("inf"), -1.0, -0.0, 0.0, 5e-324, 1.0, float("inf"))],
            "b": [0, 1], "r": [-V.DUR_MAX, -1, 0, 1, V.DUR_MAX],
        }
        for t, pool in pools.items():
            trips = list(itertools.product(pool, repeat=3))
            if quick:
                trips = rng.sample(trips, min(len(trips), 40))
            for tr in trips:
                cases.append({"kind": "laws", "vals": [[t, x] for x in tr], "runner": rng.choice("IC"), "via": "var"})
        spool = [[], [0x61], [0x61, 0x61], [0x61, 0x62], [0x62], [0xFFFF], [0x10000], [0xE000], [0x1F431], [0x61, 0x10000], [0x61, 0xFFFF]]
        trips = list(itertools.product(spool, repeat=3))
        for tr in (rng.sample(trips, 60) if quick else trips):
            cases.append({"kind": "laws", "vals": [["s", x] for x in tr], "runner": rng.choice("IC"), "via": rng.choice(["var", "lit"])})
        ypool = [[], [0], [0x7F], [0x80], [0xFF], [0x61, 0x00], [0x61]]
        trips = list(itertools.product(ypool, repeat=3))
        for tr in (rng.sample(trips, 40) if quick else trips):
            cases.append({"kind": "laws", "vals": [["y", x] for x in tr], "runner": rng.choice("IC"), "via": rng.choice(["var", "lit"])})
        # the same instant in different zones, and neighbours
        base = 1234567890 * 10**6
        tpool = [["t", base, 0], ["t", base, 330], ["t", base, -480], ["t", base + 1, 60], ["t", base - 1, -60], ["t", base + 3600 * 10**6, 60]]
        trips = list(itertools.product(tpool, repeat=3))
        for tr in (rng.sample(trips, 40) if quick else trips):
            cases.append({"kind": "laws", "vals": list(tr), "runner": rng.choice("IC"), "via": rng.choice(["var", "lit"])})
        # differently-typed pairs: correspondence of the model only (the property is silent)
        m = 150 if quick else 4000
        for i in range(m):
            ta, tb = rng.sample(V.SCALARS + [("l", "i"), ("m", "s", "i"), ("l", ("l", "s"))], 2)
            a, b = V.gen_val(rng, ta), V.gen_val(rng, tb)
            if not self._model_covers(a, b):
                continue
            cases.append({"kind": "mixed", "vals": [a, b], "runner": "I" if i % 2 == 0 else "C", "via": "var"})
        # lists whose elements are of different classes position-wise (TypeError capture inside the reduction)
        for i in range(60 if quick else 1500):
            n1 = rng.randint(1, 3)
            xs = [V.gen_val(rng, rng.choice(["i", "s", "b", "z", "u"])) for _ in range(n1)]
            ys = [x if rng.random() < 0.5 else V.gen_val(rng, rng.choice(["i", "s", "b", "z", "u"])) for x in xs]
            if rng.random() < 0.2:
                ys = ys[:-1]
            cases.append({"kind": "mixed", "vals": [["l", xs], ["l", ys]], "runner": rng.choice("IC"), "via": "var"})
        cases += self._round2(random.Random(rng.random()), quick)
        return cases

    # -- round 2: inputs for whole classes of well-meant changes ------------------------------------------------------
    NUMERALS = [0, 1, 2, 3, 5, 7, 2**31, 2**32, 2**53, 2**62]

    def _round2(self, rng: random.Random, quick: bool) -> List[Dict[str, Any]]:
        """(a) values that differ but are "the same" under a coarser notion (Unicode normalisation forms, case mappings,
        padding, stripped marks; integers modulo 2^32/2^63, doubles within a tolerance or equal in binary32, equal wall-clock
        readings, instants/durations equal after truncation) — what a fast path, a normalisation or a tolerance in ONE
        operator gets wrong while the other operators keep comparing the raw values;
        (b) sequences in one process / one program: the same numerals (and the same text) compared in one CEL type after
        the other — what a cache, memo or interning keyed by Python equality/hash (IntType(5) == UintType(5) raises,
        hash(5) == hash(5.0) == hash(5u), hash('a') == hash(b'a')) gets wrong.
        These cases use `prog: shared` (one program per operator and runner, re-evaluated with new bindings) unless literal."""
        cases: List[Dict[str, Any]] = []
        def emit(vals, **kw):
            c = {"kind": "laws", "vals": vals, "runner": rng.choice("IC"), "via": "lit" if rng.random() < 0.25 else "var",
                 "prog": "fresh" if rng.random() < 0.2 else "shared"}
            c.update(kw)
            cases.append(c)
        # (a1) texts
        for _ in range(140 if quick else 4000):
            base = V.gen_text(rng)
            texts = [base] + V.equiv_texts(rng, base, rng.choice([1, 2]))
            vals = [V.str_spec(t) for t in texts]
            r = rng.random()
            if r < 0.12:
                vals = [["l", [v]] for v in vals]
            elif r < 0.2:
                vals = [["l", [["s", [0x61]], v, ["s", []]]] for v in vals]
            elif r < 0.3:
                vals = [["m", [[["s", [0x6B]], v]]] for v in vals]
            elif r < 0.36 and all(0 not in v[1] for v in vals):
                vals = [["m", [[v, ["i", 1]]]] for v in vals]
            elif r < 0.4:
                vals = [["l", [["m", [[["i", 1], ["l", [v]]]]]]] for v in vals]
            emit(vals)
        # (a2) every pair inside a few canonical-equivalence / compatibility / case groups, with an unrelated neighbour
        groups = [["\u00e9", "e\u0301", "e"], ["\u00c5", "\u212b", "A\u030a"], ["\uac00", "\u1100\u1161"], ["\ufb01", "fi"],
                  ["\u00df", "ss", "\u1e9e"], ["\u03c3", "\u03c2", "\u03a3"], ["\u212a", "K", "k"], ["q\u0307\u0323", "q\u0323\u0307"],
                  ["caf\u00e9", "cafe\u0301", "cafe"], ["\u0130", "i\u0307", "I"]]
        for g in (rng.sample(groups, 5) if quick else groups):
            for tr in (rng.sample(list(itertools.permutations(g + ["z"], 3)), 3) if quick else itertools.permutations(g + ["z"], 3)):
                emit([V.str_spec(t) for t in tr])
        # (a3) near-equal scalars of the other ordered types
        for _ in range(110 if quick else 3000):
            t = rng.choice(["i", "u", "d", "d", "t", "t", "r", "y"])
            base = V.gen_scalar(rng, t)
            if V.has_nan(base):
                continue
            near = V.near_equal_scalars(rng, base)
            if not near:
                continue
            vals = [base] + [rng.choice(near) for _ in range(rng.choice([1, 2]))]
            if rng.random() < 0.15:
                vals = [["l", [v]] for v in vals]
            emit(vals)
        # (b) the same numerals / the same text, one CEL type after the other, same runner, shared programs
        for _ in range(24 if quick else 400):
            n1, n2 = rng.choice(self.NUMERALS), rng.choice(self.NUMERALS)
            if rng.random() < 0.4:
                n2 = n1
            kinds = ["i", "u", "d"]
            if n1 < 2 and n2 < 2:
                kinds.append("b")
            if rng.random() < 0.5 and max(n1, n2) <= V.DUR_MAX:
                kinds.append("r")
            if rng.random() < 0.3 and max(n1, n2) <= V.TS_HI:
                kinds.append("t")
            rng.shuffle(kinds)
            if rng.random() < 0.5:
                kinds.append(kinds[0])               # and back to the first type
            runner = rng.choice("IC")
            for k in kinds:
                if k == "d":
                    vals = [["d", V.bits_of(float(n1))], ["d", V.bits_of(float(n2))]]
                elif k == "t":
                    vals = [["t", n1, 0], ["t", n2, 0]]
                else:
                    vals = [[k, n1], [k, n2]]
                emit(vals, runner=runner, via="var", prog="shared")
        for _ in range(10 if quick else 200):
            txt = [rng.choice([0x61, 0x62, 0x30, 0x7A, 0x00]) for _ in range(rng.choice([0, 1, 1, 2]))]
            txt2 = txt if rng.random() < 0.5 else txt + [0x61]
            runner = rng.choice("IC")
            order = ["s", "y", "s"] if rng.random() < 0.5 else ["y", "s", "y"]
            for k in order:
                emit([[k, txt], [k, txt2]], runner=runner, via="var", prog="shared")
        return cases

    @staticmethod
    def _model_covers(a, b) -> bool:
        """comparisons the Lean model answers: not an int-like against a double (CPython compares those exactly as numbers)"""
        num = {"i", "u", "b"}
        def flat(v):
            if v[0] == "l":
                return [x for y in v[1] for x in flat(y)] or [["z"]]
            if v[0] == "m":
                return [x for _, y in v[1] for x in flat(y)] or [["z"]]
            return [v]
        if a[0] in ("l", "m") or b[0] in ("l", "m"):
            ts = {x[0] for x in flat(a)} | {x[0] for x in flat(b)}
            return not ("d" in ts and ts & num)
        return not ((a[0] == "d" and b[0] in num) or (b[0] == "d" and a[0] in num))

    # -- implementation -------------------------------------------------------------------------------------------
    _progs: Dict[tuple, Any] = {}

    def _run_shared(self, sym: str, runner: str, x, y) -> str:
        """`x OP y` on ONE program per (operator, runner) for the whole run, evaluated with fresh bindings each time"""
        import celpy
        try:
            prog = self._progs.get((sym, runner))
            if prog is None:
                env = celpy.Environment(runner_class=celrun.RUNNERS[runner])
                prog = env.program(env.compile(f"x {sym} y"))
                self._progs[(sym, runner)] = prog
            return celrun.canon(prog.evaluate({"x": x, "y": y}))
        except celrun.CELEvalError:
            return "err"
        except RecursionError:
            return "EXC RecursionError"
        except Exception as ex:  # noqa
            return f"EXC {type(ex).__name__}"

    def impl(self, c):
        vals = c["vals"]
        runner, via = c["runner"], c["via"]
        lits = [V.to_lit(v) for v in vals] if via == "lit" else None
        if lits is not None and any(x is None for x in lits):
            lits = None
        objs = None if lits else [V.to_obj(v) for v in vals]
        shared = c.get("prog") == "shared"
        cells = []
        for i in range(len(vals)):
            for j in range(len(vals)):
                chars = []
                for _, sym in OPS:
                    if lits:
                        o = celrun.run(f"{lits[i]} {sym} {lits[j]}", runner)
                    elif shared:
                        o = self._run_shared(sym, runner, objs[i], objs[j])
                    else:
                        o = celrun.run(f"x {sym} y", runner, {"x": objs[i], "y": objs[j]})
                    chars.append(out_char(o))
                cells.append(f"{i}{j}:" + "".join(chars))
        return " ".join(cells)

    # -- model ----------------------------------------------------------------------------------------------------
    def model_line(self, c):
        vals = c["vals"]
        return f"laws {c['runner']} {len(vals)} " + " ".join(V.tokens(v) for v in vals)

    def model_expect(self, c, m):
        return m

    # -- oracle: the laws themselves + the reference semantics, on the implementation's outputs ---------------------
    def oracle(self, c, out):
        if c["kind"] != "laws":
            return None
        vals = c["vals"]
        n = len(vals)
        try:
            M = parse_matrix(out)
        except Exception:
            return f"unreadable outcome {out!r}"
        up = {k: v.upper() for k, v in M.items()}     # which class carries the truth value is C13's business
        def show(i, j, k):
            return f"`{V.to_lit(vals[i]) or V.tokens(vals[i])} {OPS[k][1]} {V.to_lit(vals[j]) or V.tokens(vals[j])}` on runner {c['runner']} ({c['via']})"
        for i in range(n):
            for j in range(n):
                a, b = vals[i], vals[j]
                if not (V.same_type(a, b) and V.same_type(b, a)):
                    continue
                cell, rcell = up[(i, j)], up[(j, i)]
                nan = V.has_nan(a) or V.has_nan(b)
                # `!=` is the negation of `==`
                neg = {"T": "F", "F": "T"}.get(cell[0])
                if neg is None:
                    if not nan:
                        return f"{show(i, j, 0)} gave {cell[0]!r}: == on same-typed values must be true or false"
                elif cell[1] != neg:
                    return f"{show(i, j, 1)} gave {cell[1]!r} but == gave {cell[0]!r}: != is not the negation of =="
                # symmetric
                if cell[0] != rcell[0]:
                    return f"{show(i, j, 0)} gave {cell[0]!r} but the swapped comparison gave {rcell[0]!r}: == is not symmetric"
                if nan:
                    continue
                # reflexive / point-wise equality / code points / instants: the reference semantics
                e = V.ref_eq(a, b)
                if e is not None and cell[0] != ("T" if e else "F"):
                    return f"{show(i, j, 0)} gave {cell[0]!r}; the reference semantics say {e}"
                if a[0] in V.ORDERED:
                    lt, le, gt, ge = cell[2], cell[3], cell[4], cell[5]
                    for k, x in ((2, lt), (3, le), (4, gt), (5, ge)):
                        if x not in "TF":
                            return f"{show(i, j, k)} gave {x!r}: ordering of {ORDERED_NAMES[a[0]]} values must be true or false"
                    if [cell[0], lt, gt].count("T") != 1:
                        return f"trichotomy fails for {show(i, j, 2)}: == {cell[0]}, < {lt}, > {gt}"
                    if lt != rcell[4]:
                        return f"{show(i, j, 2)} gave {lt} but {show(j, i, 4)} gave {rcell[4]}: a < b iff b > a fails"
                    if (le == "T") != (lt == "T" or cell[0] == "T"):
                        return f"{show(i, j, 3)} gave {le} but < gave {lt} and == gave {cell[0]}: a <= b iff a < b || a == b fails"
                    if (ge == "T") != (gt == "T" or cell[0] == "T"):
                        return f"{show(i, j, 5)} gave {ge} but > gave {gt} and == gave {cell[0]}: a >= b iff a > b || a == b fails"
                    rc = V.ref_cmp(a, b)
                    if rc is not None and (lt == "T") != (rc < 0):
                        return f"{show(i, j, 2)} gave {lt}; the reference order (integers / IEEE / code points / octets / instants) says {rc < 0}"
        # transitivity of < on triples of an ordered type
        if n == 3 and vals[0][0] in V.ORDERED and all(v[0] == vals[0][0] for v in vals) and not any(V.has_nan(v) for v in vals):
            for i, j, k in itertools.permutations(range(3), 3):
                if up[(i, j)][2] == "T" and up[(j, k)][2] == "T" and up[(i, k)][2] != "T":
                    return f"transitivity fails: {show(i, j, 2)} and {show(j, k, 2)} are true but {show(i, k, 2)} gave {up[(i, k)][2]}"
        return None

    def nontrivial(self, c, out):
        vals = c["vals"]
        if any(v[0] in ("l", "m") for v in vals):
            return True
        if c["kind"] == "mixed":
            return True
        extreme = {V.I_MIN, V.I_MAX, V.U_MAX, V.DUR_MAX, -V.DUR_MAX}
        for v in vals:
            if v[0] in ("i", "u", "r") and v[1] in extreme:
                return True
            if v[0] == "d" and v[1] in ("nan", V.bits_of(0.0), V.bits_of(-0.0), V.bits_of(float("inf")), V.bits_of(-float("inf"))):
                return True
            if v[0] == "s" and any(cp > 0xFFFF for cp in v[1]):
                return True
            if v[0] == "t" and v[2] != 0:
                return True
        return len({V.tokens(v) for v in vals}) > 1


PROP = C08()
