"""C19 — Translated value clauses keep their operator, operands and literals."""
from __future__ import annotations

import ast
import contextlib
import datetime
import io
import itertools
import random
from typing import Any, Dict, Iterable, List, Optional

from ..core import Prop, REPO

# ---------------------------------------------------------------------------------------------
# encodings shared with lean/Cel/Drv/C19.lean
# ---------------------------------------------------------------------------------------------

def enc(s: str) -> str:
    return "x" + ".".join("%x" % ord(c) for c in s)


def dec(t: str) -> str:
    return "".join(chr(int(h, 16)) for h in t[1:].split(".")) if len(t) > 1 else ""


def lean_ok_str(s: str) -> bool:
    """representable as a Lean `List Char` (no lone surrogates)"""
    return all(not (0xD800 <= ord(c) <= 0xDFFF) for c in s)


OPS = ["eq", "equal", "ne", "not-equal", "gt", "greater-than", "ge", "gte", "lt", "less-than", "le", "lte",
       "in", "ni", "not-in", "contains", "glob", "intersect", "difference"]
CANON = {"equal": "eq", "not-equal": "ne", "greater-than": "gt", "gte": "ge", "less-than": "lt", "lte": "le",
         "not-in": "ni"}
VTS = ["size", "integer", "normalize", "swap", "unique_size", "age", "expiration"]
DUR_MAX = 315576000000
EPOCH = datetime.datetime(1970, 1, 1, tzinfo=datetime.timezone.utc)

# adversarial alphabet for strings taken from the policy
ALPHA = ["a", "b", "Z", "0", "7", " ", '"', "'", "\\", "\n", "\r", "\t", "\x00", "\x07", "\x1f", "\x7f", "\x80",
         "\xe9", "\u2028", "\u0660", "\U0001F600", "\U0010FFFF", "x", "u", "U", "n", "{", "}", "(", ")", "[", "]",
         ".", ":", "*", "?", "4", "-", "8"]
TRICKY = ["a\\b", "a\nb", 'a"b', "a'b", "a\\", 'a\\"', "\\n", "\\x41", "\\101", "\\u0041", "\\U00000041", "\\", '"',
          "'", "", "\\\\", '\\"\\', "tab\there", "nul\x00", "\x7f", "é", "\U0001F600", "a\r\nb", '""', "'''", "\\u{4-8}",
          "\\ua{4-8}", "true", "false", "present", "absent", "a b", "5", "{0}", "{1}", "{}", "%s"]


def rand_str(rng: random.Random, maxlen: int = 6) -> str:
    if rng.random() < 0.25:
        return rng.choice(TRICKY)
    return "".join(rng.choice(ALPHA) for _ in range(rng.randint(0, maxlen)))


# ---------------------------------------------------------------------------------------------
# the property's own relations (reference computation, written from Custodian's OPERATORS table)
# ---------------------------------------------------------------------------------------------

def parse_glob(pat: str):
    """shell-style pattern -> items ('star',) | ('any',) | ('lit', c) | ('set', negated, [(lo, hi), ...]).
    Custodian's `glob` is Python's fnmatch: `*`, `?`, `[seq]`, `[!seq]` (ranges `a-z`; a `]` directly after
    `[` or `[!` is a member; a `[` that is never closed is an ordinary character). None where a class has
    no single agreed reading (regex-flavoured characters, reversed or chained ranges): nothing to hold the
    translation to."""
    items: List[tuple] = []
    i, n = 0, len(pat)
    while i < n:
        c = pat[i]
        i += 1
        if c == "*":
            items.append(("star",))
        elif c == "?":
            items.append(("any",))
        elif c == "[":
            j = i
            if j < n and pat[j] == "!":
                j += 1
            if j < n and pat[j] == "]":
                j += 1
            while j < n and pat[j] != "]":
                j += 1
            if j >= n:
                items.append(("lit", "["))
                continue
            body = pat[i:j]
            i = j + 1
            neg = body.startswith("!")
            if neg:
                body = body[1:]
            if not body:
                return None
            ranges: List[tuple] = []
            k = 0
            while k < len(body):
                ch = body[k]
                if ch in "\\^[&~|":
                    return None
                if k + 2 < len(body) and body[k + 1] == "-":
                    lo, hi = ch, body[k + 2]
                    if lo == "-" or hi in "\\^[&~|-" or lo > hi:
                        return None
                    if k + 3 < len(body) and body[k + 3] == "-":
                        return None
                    ranges.append((lo, hi))
                    k += 3
                else:
                    if ch == "-" and 0 < k < len(body) - 1:
                        return None
                    ranges.append((ch, ch))
                    k += 1
            items.append(("set", neg, ranges))
        else:
            items.append(("lit", c))
    return items


def glob_item_matches(it: tuple, ch: str) -> bool:
    if it[0] == "any":
        return True
    if it[0] == "lit":
        return it[1] == ch
    return any(lo <= ch <= hi for lo, hi in it[2]) != it[1]


def ref_glob(text: str, pat: str) -> Optional[bool]:
    """the glob relation, computed here (own matcher: no fnmatch, no regular expressions)"""
    items = parse_glob(pat)
    if items is None:
        return None
    memo: Dict[Any, bool] = {}

    def go(i: int, j: int) -> bool:
        k = (i, j)
        if k in memo:
            return memo[k]
        if i == len(items):
            r = j == len(text)
        elif items[i][0] == "star":
            r = any(go(i + 1, jj) for jj in range(j, len(text) + 1))
        else:
            r = j < len(text) and glob_item_matches(items[i], text[j]) and go(i + 1, j + 1)
        memo[k] = r
        return r
    return go(0, 0)


GLOB_FILL = ["a", "b", "x", "0", "5", "9", "-", "z", "A", ".", "1", "c", "]", "[", "!", "\u00e9", "\n", "*", "?"]


def glob_texts(rng: random.Random, pat: str, n_inst: int = 2) -> List[str]:
    """resource texts on both sides of what the pattern accepts: instances built piece by piece (a member
    for every class, a run for every `*`), instances with ONE piece violated (a non-member of a class, a
    changed literal), the pattern's own text (its literal reading), an instance with a character
    added at either end, the empty text"""
    items = parse_glob(pat)
    if items is None:
        return [pat, ""]

    def pick(it: tuple, member: bool) -> Optional[str]:
        pool = [c for c in GLOB_FILL if glob_item_matches(it, c) == member]
        if it[0] == "set" and member and not it[1]:
            pool += [lo for lo, _ in it[2]] + [hi for _, hi in it[2]]
        return rng.choice(pool) if pool else None

    def inst(violate: Optional[int] = None) -> Optional[str]:
        out = []
        for i, it in enumerate(items):
            if it[0] == "star":
                out.append("".join(rng.choice(GLOB_FILL[:12]) for _ in range(rng.choice([0, 0, 1, 3]))))
            else:
                ch = pick(it, i != violate)
                if ch is None:
                    return None
                out.append(ch)
        return "".join(out)

    texts: List[str] = [pat, ""]
    for _ in range(n_inst):
        t = inst()
        if t is not None:
            texts += [t, t + "a", "a" + t]
    singles = [i for i, it in enumerate(items) if it[0] != "star"]
    for i in (singles if len(singles) <= 3 else rng.sample(singles, 3)):
        t = inst(violate=i)
        if t is not None:
            texts.append(t)
    return list(dict.fromkeys(texts))


def glob_patterns(rng: random.Random, quick: bool) -> List[str]:
    """every shape of pattern around a stem: literal, one-sided and two-sided `*`, an inner `*`, `?`, a
    class / negated class / range at the start, in the middle, at the end, classes that quote a wildcard
    (`[*]`, `[?]`), an unclosed `[`, characters that are special to regular expressions but not to glob"""
    stems = ["i-[0-9]", "db[12]", "-az[1-3]-", "[ab]", "web-??", "a.b", "x+y(z)$", "^a|b", "v[!0-9]", "[a-c]x[!a-c]",
             "a[*]b", "q[?]", "[]]", "[!]]x", "a[b", "[", "[!]", "lit", "w?b", "a*z", "[0-9][0-9]", "n[-a]", "n[a-]", "{0}",
             "\\d", "\u00e9[\u00e0-\u00ff]"]
    if not quick:
        stems += ["[!ab]", "[.]", "[0-9a-f]", "x[y", "[[]", "a]b", "[a-c-e]", "[z-a]", "[\\]]", "[^a]", "[!!]", "[!-]"]
    pats: List[str] = []
    for st in stems:
        pats += [st, st + "*", "*" + st, "*" + st + "*"]
    pats += ["*", "**", "?", "??", "", "*?", "?*", "*[0-9]*[a-z]", "a*[0-9]", "[ab]*[cd]", "*.py", "*-prod-*"]
    alpha = ["a", "b", "0", "-", ".", "*", "*", "?", "[0-9]", "[ab]", "[!a]", "[a-c]", "[", "]", "!", "x"]
    for _ in range(12 if quick else 400):
        pats.append("".join(rng.choice(alpha) for _ in range(rng.randint(1, 5))))
    return list(dict.fromkeys(pats))


def kind_of(x: Any) -> str:
    if isinstance(x, bool):
        return "bool"
    if isinstance(x, int):
        return "int"
    if isinstance(x, str):
        return "str"
    if isinstance(x, list):
        ks = {kind_of(e) for e in x}
        if not ks:
            return "list:"
        if len(ks) == 1 and next(iter(ks)) in ("int", "str"):
            return "list:" + next(iter(ks))
        return "list:?"
    if x is None:
        return "null"
    return "?"


def ref_rel(op: str, r: Any, v: Any) -> Optional[bool]:
    """OPERATORS[op](r, v) on operand kinds where it has one meaning; None elsewhere"""
    op = CANON.get(op, op)
    kr, kv = kind_of(r), kind_of(v)
    if op in ("eq", "ne"):
        same = (kr == kv and kr in ("str", "int", "bool")) or \
               (kr.startswith("list:") and kv.startswith("list:") and "?" not in kr + kv
                and (kr == kv or kr == "list:" or kv == "list:"))
        if not same:
            return None
        return (r == v) if op == "eq" else (r != v)
    if op in ("gt", "ge", "lt", "le"):
        if not (kr == kv and kr in ("str", "int")):
            return None
        return {"gt": r > v, "ge": r >= v, "lt": r < v, "le": r <= v}[op]
    if op in ("in", "ni", "contains"):
        x, c = (r, v) if op != "contains" else (v, r)
        kx, kc = kind_of(x), kind_of(c)
        if kx == "str" and kc == "str":
            res = x in c
        elif kx in ("str", "int") and kc in ("list:" + kx, "list:"):
            res = x in c
        else:
            return None
        return (not res) if op == "ni" else res
    if op == "glob":
        if kr == "str" and kv == "str":
            return ref_glob(r, v)
        return None
    if op in ("intersect", "difference"):
        if not (kr.startswith("list:") and kv.startswith("list:") and "?" not in kr + kv
                and (kr == kv or kr == "list:" or kv == "list:")):
            return None
        if op == "intersect":
            return any(a in v for a in r)
        return any(a not in v for a in r)
    return None


def parse_ts(s: str) -> int:
    d = datetime.datetime.strptime(s, "%Y-%m-%dT%H:%M:%SZ").replace(tzinfo=datetime.timezone.utc)
    return int((d - EPOCH).total_seconds())


def fmt_ts(t: int) -> str:
    return (EPOCH + datetime.timedelta(seconds=t)).strftime("%Y-%m-%dT%H:%M:%SZ")


def ref_operands(vt: Optional[str], r: Any, v: Any, now: int):
    """Custodian's process_value_type: the (r', v') that are compared; None where it has no single meaning"""
    if vt is None:
        return r, v
    if vt == "size":
        return (len(r), v) if isinstance(r, (list, str)) else None
    if vt == "unique_size":
        return (len(set(r)), v) if isinstance(r, list) and "?" not in kind_of(r) else None
    if vt == "integer":
        if isinstance(r, bool):
            return None
        if isinstance(r, int):
            return r, v
        if isinstance(r, str):
            t = r.strip(" \t\n\r\x0b\x0c")
            body = t[1:] if t[:1] in "+-" else t
            if body and all(c in "0123456789" for c in body):
                return int(t), v
        return None
    if vt == "normalize":
        if isinstance(r, str) and all(ord(c) < 128 for c in r):
            return r.strip(" \t\n\r\x0b\x0c").lower(), v
        return None
    if vt == "swap":
        return v, r
    if vt in ("age", "expiration"):
        if isinstance(v, bool) or not isinstance(v, (int, float)) or v < 0 or v * 86400 > DUR_MAX or not isinstance(r, str):
            return None
        try:
            t = parse_ts(r)
        except ValueError:
            return None
        from fractions import Fraction
        secs = Fraction(v) * 86400
        if secs.denominator != 1:
            # whole seconds of a fractional day count (the translator's documented truncation); counts whose
            # product sits within 1e-9 of a whole second are left out (float rounding of the product)
            fl = int(secs)
            if (fl + 1 - secs) <= secs * Fraction(1, 10 ** 9):
                return None
            secs = Fraction(fl)
        secs = int(secs)
        return (now - secs, t) if vt == "age" else (t, now + secs)
    return None


# ---------------------------------------------------------------------------------------------
# running the real translator and the real evaluator
# ---------------------------------------------------------------------------------------------

class Real:
    """lazy handles on the implementation under test (imported from VERIF_REPO/src)"""
    _env = None
    _progs: Dict[str, Any] = {}

    @classmethod
    def R(cls):
        from xlate.c7n_to_cel import C7N_Rewriter
        return C7N_Rewriter

    @classmethod
    def env(cls):
        if cls._env is None:
            import celpy
            cls._env = celpy.Environment()
        return cls._env

    @classmethod
    def parse(cls, text: str):
        """lark tree or None"""
        import celpy
        try:
            return cls.env().compile(text)
        except celpy.CELParseError:
            return None

    @classmethod
    def evaluate(cls, text: str, activation: Dict[str, Any], functions=None) -> Any:
        """value | ('err',) | ('parse-error',) | ('exc', class name)"""
        import celpy
        import celpy.c7nlib as c7nlib
        from celpy.evaluation import CELEvalError
        try:
            tree = cls.parse(text)
            if tree is None:
                return ("parse-error",)
            fns = dict(c7nlib.FUNCTIONS)
            if functions:
                fns.update(functions)
            prog = cls.env().program(tree, functions=fns)
            v = prog.evaluate(activation)
            if isinstance(v, CELEvalError):
                return ("err",)
            return v
        except CELEvalError:
            return ("err",)
        except RecursionError:
            return ("exc", "RecursionError")
        except Exception as ex:  # noqa
            return ("exc", type(ex).__name__)


def activation(resource: Any, now: int) -> Dict[str, Any]:
    from celpy import celtypes
    from celpy.adapter import json_to_cel
    return {"resource": json_to_cel(resource),
            "now": celtypes.TimestampType(EPOCH + datetime.timedelta(seconds=now))}


def decision(v: Any) -> str:
    from celpy import celtypes
    if isinstance(v, tuple):
        return v[0] if v[0] != "exc" else "exc:" + v[1]
    if isinstance(v, (bool, celtypes.BoolType)):
        return "true" if v else "false"
    return "other:" + type(v).__name__


def call_quiet(f, *a):
    with contextlib.redirect_stdout(io.StringIO()):
        return f(*a)


MACROS = {"map": 2, "filter": 2, "all": 2, "exists": 2, "exists_one": 2}


def macro_arity_problem(tree) -> Optional[str]:
    import lark
    for t in tree.iter_subtrees():
        if t.data == "member_dot_arg" and len(t.children) >= 2 and isinstance(t.children[1], lark.Token):
            name = str(t.children[1])
            if name in MACROS:
                n = 0
                for c in t.children[2:]:
                    if isinstance(c, lark.Tree) and c.data == "exprlist":
                        n = len(c.children)
                if n != MACROS[name]:
                    return f"macro {name}() called with {n} argument(s)"
    return None


# representative filters per table-driven rewriter (every resource type of the table goes through each)
TABLES = {
    "age": ("type_age_rewrite", "attribute_map",
            [{"type": "age", "days": 21, "op": "gt"}]),
    "security-group": ("type_security_group_rewrite", "attribute_map",
                       [{"type": "security-group", "key": "GroupId", "op": "eq", "value": "sg-1"},
                        {"type": "security-group", "key": "tag:Owner", "op": "in", "value": ["a", "b"]}]),
    "vpc": ("type_vpc_rewrite", "attribute_map",
            [{"type": "vpc", "key": "VpcId", "op": "eq", "value": "vpc-1"},
             {"type": "vpc", "key": "VpcId", "op": "in", "value_from": {"url": "s3://b/k.json", "expr": "a.b"}}]),
    "kms-key": ("type_kms_key_rewrite", "attribute_map",
                [{"type": "kms-key", "key": "c7n:AliasName", "op": "regex", "value": "^(alias/aws/)"},
                 {"type": "kms-key", "key": "KeyState", "op": "eq", "value": "Enabled"}]),
    "cross-account": ("cross_account_rewrite", "resource_type_map",
                      [{"type": "cross-account"},
                       {"type": "cross-account", "whitelist": ["123456789012"]},
                       {"type": "cross-account", "whitelist_from": {"url": "http://h/p.json", "expr": "a.*.b"}}]),
    "used": ("used_rewrite", "resource_type_map", [{"type": "used"}, {"type": "used", "value": False}]),
}


def table_resources(table: str) -> List[str]:
    """resource types listed in the table, read from the source (dict literal of the rewriter)"""
    fn, var, _ = TABLES[table]
    src = (REPO / "src/xlate/c7n_to_cel.py").read_text()
    mod = ast.parse(src)
    for cls in mod.body:
        if isinstance(cls, ast.ClassDef) and cls.name == "C7N_Rewriter":
            for f in cls.body:
                if isinstance(f, ast.FunctionDef) and f.name == fn:
                    for st in ast.walk(f):
                        if isinstance(st, ast.Assign) and isinstance(st.targets[0], ast.Name) and st.targets[0].id == var \
                                and isinstance(st.value, ast.Dict):
                            return [k.value for k in st.value.keys if isinstance(k, ast.Constant)]
    return []


# ---------------------------------------------------------------------------------------------

class C19(Prop):
    pid = "C19"
    manifest = dict(
        technique='Lean 4 theorems over the operator / value_type / resource tables REGENERATED from c7n_to_cel.py on every run (decide over the whole table + soundness lemma for all operands), q/celstr/STRING_LIT round trip for all strings by induction, divmod-loop vs. DurationType grammar for all n; differential correspondence of emitted text (Lean valueToCel vs. real translator) and of decisions (Lean denotation vs. real parser+evaluator+c7nlib) plus an independent Python relation oracle',
        text='proof: every atomic_op_map entry denotes the relation its op names (all operands), every value_type lambda yields Custodian\'s operands, q(s) lexes as one token and decodes to s for ALL strings, seconds/age durations denote n / d*86400 s for ALL n incl. 0, key literals recompose the key; every resource-table entry (bare and in the smallest clause of its rewriter) lexes and is accepted by the parser of the grammar model (decide +kernel over the regenerated tables), every emitted table text is also parsed by the real parser on every run; glob: literal / prefix / suffix / infix patterns and stem+class patterns accept exactly what they should for ALL texts (glob_literal, glob_prefix, glob_suffix, glob_infix, glob_stem_class); list values: celstr(repr(s)) = s for ALL strings and every set of non-printable characters (list_literal_decodes_partial); intersect/difference decide membership only - repeats, order and lengths of the lists play no part (difference_membership, difference_same_members), a longer resource list is bound to match only when it has no repeated entry (difference_longer_nodup)',
        note='Lean kernel; propext/Quot.sound/Classical.choice only; source extractor gen_c19.py; the CEL evaluator on emitted TEXT is not modelled (lark, celpy evaluation, c7nlib functions compared by correspondence); Python float arithmetic in DurationType exact below 2^53',
        ref='DESIGN.md §5 C19, notes/C19.md')
    lean_targets = ["Cel.Props.C19", "Cel.Bridge.XlateTables"]
    audit_namespaces = ["Cel.Props.C19", "Cel.Bridge.XlateTables"]
    gen_names = ["XlateTables"]
    trusted = [
        "the meaning of emitted CEL *text* is the real parser + evaluator + celpy.c7nlib.FUNCTIONS (not modelled on text); "
        "Lean's `denoteTemplate`/`Xf.apply` are tied to it by the `clause` correspondence stream",
        "CEL `size/unique_size/int/normalize/timestamp` are identified with Custodian's len/len(set)/int/strip().lower()/parse_date (structure `Prims`), checked by correspondence only",
        "lark's lexer applies the STRING_LIT regex as Python `re` does (lazy loop, ordered alternatives); modelled by `lexGo`, corresponded on q outputs and random literal texts",
        "DurationType's float arithmetic (`float(n) * scale`, `fsum`) is exact for the integers below 2^53 that occur",
        "tables_are_cel is proved against the token-level grammar model of C06 (Cel.Model.Grammar.parse, sound by Cel.Props.C06.parse_sound) behind this property's own text-level lexer model (Cel.Model.XlateCel.lexCel, incl. lark's contextual `in`-prefix quirk); lexer model and real parser are compared on every table text and on single-character perturbations (`cel` stream)",
        "PyYAML / the policy loader are not involved: clauses are given to the rewriter as Python dicts",
        "Python's str.isprintable (Unicode database) is a parameter of the model's repr (`pyRepr np`): the harness passes the non-printable characters that occur",
        "the model's glob is a direct matcher over parsed pattern pieces, not fnmatch's translation to a regular expression; classes with regex-flavoured members, reversed or chained ranges answer `none` (no opinion); compared with the real c7nlib.glob by the `clause` stream",
    ]
    rule = ("clause: every op name x value kind (str over an adversarial alphabet, int, bool, list of str/int) x value_type "
            "(none, size, integer, normalize, swap, unique_size, age, expiration) x resource values on both sides of the "
            "comparison boundary (equal, one below/above, prefix/extension, member/non-member, +-1 s around now-+days); "
            "emit: same clauses, text only; q/key: strings from the adversarial alphabet (quotes, backslashes, newline, tab, NUL, "
            "DEL, non-ASCII, astral) as values, keys, tag names; dur: day/second counts 0..200, powers of ten to 10^7, unit "
            "boundaries +-1, randoms; table: every (rewriter, resource type) entry of the six tables through representative "
            "filters; cel: every table entry and emitted table text plus single-character deletions/insertions/replacements "
            "(lexer+grammar model vs. real parser); seq: sequences of 2-6 translator calls in one process sharing a key / text / "
            "count across entry points and contexts (value, security-group, kms-alias, credential, event, key_to_cel with "
            "and without context, q with either quote, secs vs age, value_to_cel with different op / value_type), every "
            "ordered pair plus random longer histories, each output compared with the same call on a freshly executed "
            "copy of the module; dur also takes fractional and textual counts (below one second, around whole seconds); "
            "vfrom: value_from url/format/expr strings; glob clauses: every pattern shape (literal, one-/two-sided and inner *, ?, "
            "[seq] / [!seq] / ranges at the start, middle, end, classes quoting a wildcard, unclosed [, regex-special characters) x texts "
            "built from the pattern (instances, instances with one piece violated, the pattern's own text, one character added at either "
            "end, empty); list values with elements over the whole adversarial alphabet (either/both quotes, backslash-escape look-alikes, "
            "controls, C1, separators, combining, astral) x resource = each element / a neighbour / the whole list; set relations (intersect, difference, in/ni, contains, size/unique_size) on every multiset shape: all lists of length 0..3 over a three-letter "
            "alphabet plus longer ones (repeated entries, any order, shorter / as long / longer than the value list, members a subset / equal / "
            "superset / disjoint) x value lists with and without repeats, str and int. non-trivial = a clause whose resource value is on the "
            "boundary (reference decision flips within the generated neighbourhood), a string containing a character q must "
            "escape, a count that is 0 or a multiple of a unit, any table entry")

    # ---- generation ---------------------------------------------------------------------------
    def generate(self, rng: random.Random, tier: str) -> Iterable[Dict[str, Any]]:
        quick = tier == "quick"
        cases: List[Dict[str, Any]] = []
        # -- q ----------------------------------------------------------------------------------
        strs = list(TRICKY) + [c for c in ALPHA] + [rand_str(rng, 8) for _ in range(250 if quick else 6000)]
        for s in strs:
            cases.append({"kind": "q", "s": s, "quote": "dq"})
            if rng.random() < 0.3:
                cases.append({"kind": "q", "s": s, "quote": "sq"})
        # -- literal texts (model of the lexer/decoder only) ------------------------------------------
        esc = ["\\n", "\\\\", '\\"', "\\'", "\\x41", "\\x4", "\\101", "\\10", "\\u0041", "\\u004", "\\U0001F600",
               "\\q", "\\", "\\ua{4-8}", "\\u{4-8}", "\\400", "\\777", "\\999", "\\xe9", "\\u00e9"]
        for _ in range(150 if quick else 3000):
            body = "".join(rng.choice(esc) if rng.random() < 0.4 else rng.choice(ALPHA[:20]) for _ in range(rng.randint(0, 6)))
            cases.append({"kind": "lit", "text": '"' + body + '"'})
        # -- keys --------------------------------------------------------------------------------------
        keys = ["k", "Key.Subkey", "a.b.c", "tag:Name", "tag:app.owner", "tag:a\"b", "tag:", "tag:x.y.z", "length(Items)",
                "a\\b", "a\"b.c'd", "tag:é", "a..b", ".a", "a.", "tag:tag:x", "weird key", "tag:new\nline",
                # look-alikes of the special forms: only the exact lower-case `tag:` prefix and `name(arg)` are special
                "Tag:Name", "TAG:x", "tags:x", "tag", "tag.x", "xtag:y", "length(a)", "length(a).b", "Length(a)", "size(a)",
                "length (a)", "length()", "a(b)c", "true", "None", "0"]
        for _ in range(60 if quick else 1500):
            s = rand_str(rng, 5).replace("(", "")
            form = rng.choice(["plain", "tag", "dotted"])
            keys.append(s if form == "plain" else ("tag:" + s if form == "tag" else s + "." + rand_str(rng, 3).replace("(", "")))
        for k in keys:
            cases.append({"kind": "key", "key": k})
        # -- durations -----------------------------------------------------------------------------------
        ns = set(range(0, 130 if quick else 1000)) | {10 ** e for e in range(2, 8)} | {10 ** e - 1 for e in range(2, 8)}
        for u in (60, 3600, 86400):
            for m in (1, 2, 7, 24, 59, 60, 61, 365, 1000):
                ns |= {u * m - 1, u * m, u * m + 1}
        for _ in range(200 if quick else 20000):
            ns.add(rng.randint(0, 10 ** 7))
        for _ in range(40 if quick else 2000):
            ns.add(rng.randint(0, 4 * DUR_MAX // 3))
        ns |= {DUR_MAX - 1, DUR_MAX, DUR_MAX + 1, DUR_MAX // 86400, DUR_MAX // 86400 + 1}
        for n in sorted(ns):
            cases.append({"kind": "dur", "unit": "secs", "n": n})
            if n <= 10 ** 7 or rng.random() < 0.2:
                cases.append({"kind": "dur", "unit": "age", "n": n})
        # fractional counts: the translator keeps whole seconds (`int(float(period))`); a positive count
        # below one second, and counts just below / above a whole second, must still give a valid literal
        fracs = [0.4, 0.5, 0.999999, 1e-05, 1e-09, 0.1, 1.0000001, 1.5, 59.999, 60.4, 3599.9999, 86399.5, 86400.5,
                 "0.4", "0", "0.0", "1e-05", "7", "7.9", " 12 "]
        dfracs = [1e-05, 2e-05, 1e-06, 1e-09, 0.001, 0.011, 0.084, 0.25, 0.5, 1.5, 29.99999, 1 / 86400, 0.9999 / 86400,
                  1.0001 / 86400, 2 / 86400, "0.5", "1e-05", "0.0", "30"]
        for _ in range(30 if quick else 2000):
            fracs.append(round(rng.choice([0, 1, 59, 60, 3599, 86399, rng.randint(0, 10 ** 6)]) + rng.random(), rng.choice([1, 3, 6, 9])))
            dfracs.append(round(rng.choice([0, 0, 1, 30, rng.randint(0, 4000)]) + rng.random() * rng.choice([1, 1e-3, 1e-5, 1e-7]), 12))
        for x in fracs:
            cases.append({"kind": "dur", "unit": "secs", "n": x})
        for x in dfracs:
            cases.append({"kind": "dur", "unit": "age", "n": x})
        # -- clauses -------------------------------------------------------------------------------------
        cases += self.clause_cases(rng, quick)
        # -- tables --------------------------------------------------------------------------------------
        for table, (_, _, filters) in TABLES.items():
            for res in table_resources(table):
                for i in range(len(filters)):
                    cases.append({"kind": "table", "table": table, "resource": res, "filter": i})
        # -- text-level lexer + grammar model vs. the real parser -----------------------------------------
        texts: List[str] = []
        R = Real.R()
        for table, (fn, _, filters) in TABLES.items():
            for res in table_resources(table):
                for f in filters:
                    try:
                        texts.append(call_quiet(getattr(R, fn), res, dict(f)))
                    except Exception:
                        pass
        texts += list(dict.fromkeys(self.table_entries()))
        seen = set()
        for t in texts:
            if t not in seen:
                seen.add(t)
                cases.append({"kind": "cel", "text": t})
        pert = "()[]{}.,\"' !=<>&|x1"
        for _ in range(400 if quick else 8000):
            t = rng.choice(texts)
            i = rng.randrange(len(t) + 1)
            how = rng.random()
            if how < 0.4 and t:
                t2 = t[:i] + t[i + 1:]
            elif how < 0.8:
                t2 = t[:i] + rng.choice(pert) + t[i:]
            else:
                t2 = t[:i] + rng.choice(pert) + t[i + 1:]
            if t2 not in seen:
                seen.add(t2)
                cases.append({"kind": "cel", "text": t2})
        # -- history independence: sequences of translator calls in ONE process ---------------------------
        cases += self.seq_cases(rng, quick)
        # -- value_from ----------------------------------------------------------------------------------
        for _ in range(40 if quick else 1500):
            c = {"kind": "vfrom", "url": "s3://b/" + rand_str(rng, 5), "op": rng.choice(["in", "ni", "not-in", "intersect", None])}
            if rng.random() < 0.6:
                c["format"] = rng.choice(["json", "txt", "csv2dict", rand_str(rng, 3)])
            if rng.random() < 0.7:
                c["expr"] = rng.choice(["a.b", "a[?b==`x\\y`].c", "it's", "x{account_id}", "a\nb"] + [rand_str(rng, 6)])
            cases.append(c)
        return cases

    def seq_cases(self, rng: random.Random, quick: bool) -> List[Dict[str, Any]]:
        """the same key / text / count handed to different entry points and contexts, in every order"""
        keys = ["GroupId", "tag:Owner", "a.b", "VpcId", "k", "GroupName", "length(Items)", "tag:app.owner"]
        vals: List[Any] = ["team-a", "x\\y", 5, ["a", "b"], "True", 0]

        def steps_for(key: str) -> List[Dict[str, Any]]:
            v = rng.choice(vals)
            op = rng.choice(["eq", "ne", "in", "le", "gt"]) if not isinstance(v, list) else rng.choice(["in", "ni", "intersect"])
            if op == "in" and isinstance(v, int):
                op = "eq"
            pool = [
                {"call": "primitive", "resource": "ec2", "filter": {"type": "value", "key": key, "op": op, "value": v}},
                {"call": "primitive", "resource": "ec2", "filter": {"type": "security-group", "key": key, "op": op, "value": v}},
                {"call": "primitive", "resource": "ec2", "filter": {"type": "value", "key": key, "value": "present"}},
                {"call": "primitive", "resource": "ec2", "filter": {"type": "value", "key": key, "op": "eq", "value": "other"}},
                {"call": "key", "key": key, "ctx": None},
                {"call": "key", "key": key, "ctx": "sg"},
                {"call": "key", "key": key, "ctx": "event"},
                {"call": "rewrite", "resource": "ec2", "filters": [{"type": "value", "key": key, "op": op, "value": v}]},
                {"call": "rewrite", "resource": "rds", "filters": [{"type": "security-group", "key": key, "op": "eq", "value": "sg-1"},
                                                                     {"type": "value", "key": key, "op": "eq", "value": "sg-1"}]},
                {"call": "primitive", "resource": "ec2", "filter": {"type": "kms-alias", "key": key, "op": "eq", "value": "a"}},
                {"call": "primitive", "resource": "iam-user", "filter": {"type": "credential", "key": key, "op": "eq", "value": "a"}},
                {"call": "primitive", "resource": "ec2", "filter": {"type": "event", "key": key, "op": "eq", "value": "a"}},
            ]
            return pool

        shared = ["abc", 'q"uote', "it's", "back\\slash", "1d", "0s"]
        nums: List[Any] = [0, 1, 30, 0.5, 86400, "7"]

        def misc_steps() -> List[Dict[str, Any]]:
            t = rng.choice(shared)
            n = rng.choice(nums)
            return [
                {"call": "q", "s": t, "quote": "dq"}, {"call": "q", "s": t, "quote": "sq"},
                {"call": "secs", "n": n}, {"call": "age", "n": n},
                {"call": "value_to_cel", "key": "key", "op": "eq", "value": t, "vt": None},
                {"call": "value_to_cel", "key": "key", "op": "eq", "value": t, "vt": "swap"},
                {"call": "value_to_cel", "key": "key", "op": "ne", "value": t, "vt": None},
                {"call": "value_to_cel", "key": "other", "op": "eq", "value": t, "vt": None},
                {"call": "value_to_cel", "key": "key", "op": "gt", "value": n if not isinstance(n, str) else 7, "vt": "age"},
                {"call": "value_to_cel", "key": "key", "op": "gt", "value": n if not isinstance(n, str) else 7, "vt": "expiration"},
                {"call": "value_to_cel", "key": "key", "op": "gt", "value": n if not isinstance(n, str) else 7, "vt": "size"},
            ]

        out: List[Dict[str, Any]] = []
        # every ordered pair over one key's pool (the shortest histories), then longer random ones
        for key in keys[: 3 if quick else len(keys)]:
            pool = steps_for(key)
            for a in pool[:7]:
                for b in pool[:7]:
                    if a is not b:
                        out.append({"kind": "seq", "steps": [a, b]})
        for _ in range(120 if quick else 3000):
            key = rng.choice(keys)
            pool = steps_for(key) + misc_steps() + (steps_for(rng.choice(keys)) if rng.random() < 0.3 else [])
            out.append({"kind": "seq", "steps": [rng.choice(pool) for _ in range(rng.randint(2, 6))]})
        return out

    # one translator call, on a given rewriter class
    @staticmethod
    def run_step(R, st: Dict[str, Any]) -> str:
        try:
            c = st["call"]
            if c == "primitive":
                t = call_quiet(R.primitive, st["resource"], dict(st["filter"]))
            elif c == "rewrite":
                import yaml
                doc = yaml.safe_dump({"name": "p", "resource": st["resource"], "filters": st["filters"]})
                t = call_quiet(R.c7n_rewrite, doc)
            elif c == "key":
                t = R.key_to_cel(st["key"], st["ctx"]) if st["ctx"] is not None else R.key_to_cel(st["key"])
            elif c == "q":
                t = R.q(st["s"], '"' if st["quote"] == "dq" else "'")
            elif c == "secs":
                t = R.seconds_to_duration(st["n"])
            elif c == "age":
                t = R.age_to_duration(st["n"])
            elif c == "value_to_cel":
                t = R.value_to_cel(st["key"], st["op"], st["value"], st["vt"])
            else:
                return "bad-step"
            return enc(t)
        except Exception as ex:  # noqa
            return "raise:" + type(ex).__name__

    _alone: Dict[str, str] = {}

    def alone(self, st: Dict[str, Any]) -> str:
        """the same call on a freshly executed copy of the translator module: no earlier call has touched it"""
        import importlib.util
        import json
        k = json.dumps(st, sort_keys=True, default=str)
        if k not in self._alone:
            path = REPO / "src/xlate/c7n_to_cel.py"
            spec = importlib.util.spec_from_file_location("c7n_to_cel_fresh", path)
            mod = importlib.util.module_from_spec(spec)
            spec.loader.exec_module(mod)
            self._alone[k] = self.run_step(mod.C7N_Rewriter, st)
        return self._alone[k]

    def table_entries(self) -> List[str]:
        """the bare entries of the six tables, read from the source"""
        src = (REPO / "src/xlate/c7n_to_cel.py").read_text()
        out: List[str] = []
        wanted = {(fn, var) for fn, var, _ in TABLES.values()}
        for cls in ast.parse(src).body:
            if isinstance(cls, ast.ClassDef) and cls.name == "C7N_Rewriter":
                for f in cls.body:
                    if isinstance(f, ast.FunctionDef):
                        for st in ast.walk(f):
                            if isinstance(st, ast.Assign) and isinstance(st.targets[0], ast.Name) \
                                    and (f.name, st.targets[0].id) in wanted and isinstance(st.value, ast.Dict):
                                try:
                                    out += [v for v in ast.literal_eval(st.value).values() if isinstance(v, str)]
                                except Exception:
                                    pass
        return out

    def clause_cases(self, rng: random.Random, quick: bool) -> List[Dict[str, Any]]:
        out: List[Dict[str, Any]] = []
        NOW = 1577836800  # 2020-01-01T00:00:00Z

        def add(op, v, r, vt=None, now=NOW, key="k", **kw):
            base = {"op": op, "value": v, "r": r, "vt": vt, "now": now, "key": key}
            base.update(kw)
            out.append(dict(base, kind="clause"))
            out.append(dict(base, kind="emit"))

        def str_neighbours(v: str) -> List[str]:
            ns = [v, v + "a", v[:-1], "", v + "\x00", "a" + v, v.upper(), v + v]
            if v:
                ns += [v[:-1] + chr(max(0, ord(v[-1]) - 1)), v[:-1] + chr(min(0x10FFFF, ord(v[-1]) + 1))]
            return [x for x in dict.fromkeys(ns) if lean_ok_str(x)]

        svals = ["abc", "", "a b", 'q"uote', "back\\slash", "new\nline", "é", "\U0001F600z", "a'b", "*", "a*c", "a?c", "{0}", "5"]
        svals += [rand_str(rng, 5) for _ in range(6 if quick else 120)]
        ivals = [0, 1, 5, -3, 42, 10 ** 12] + [rng.randint(-100, 100) for _ in range(2 if quick else 40)]
        # strings that look like booleans / null / numbers in some spelling: they are strings, and must be
        # compared as strings (only the exact lower-case "true"/"false" are documented as booleans)
        lookalikes = ["True", "False", "TRUE", "FALSE", "tRuE", "fAlse", "None", "null", "NULL", "1", "0", "1.0", "-1",
                      "yes", "no", "[]", "{}", "absent", "present", "true ", " false", "1e3", "0x10", "nan"]
        for v in lookalikes:
            for op in ("eq", "ne", "equal", "not-equal", "lt", "le", "ge", "in", "ni", "contains", "glob"):
                for r in dict.fromkeys([v, v.lower(), v + "a"]):
                    add(op, v, r, _keep=True)
                if op in ("eq", "ne"):
                    add(op, v, v, vt="swap", _keep=True)
                    add(op, v, " " + v.upper() + " ", vt="normalize", _keep=True)
        # glob: the whole pattern language (`*`, `?`, `[seq]`, `[!seq]`, ranges, quoted wildcards, unclosed `[`)
        # in every position relative to leading / trailing / inner `*`, against texts on both sides of
        # what each pattern accepts — including the pattern's own text (its reading as a plain string)
        for pat in glob_patterns(rng, quick):
            if not lean_ok_str(pat):
                continue
            for i, r in enumerate(glob_texts(rng, pat, 2 if quick else 4)):
                base = {"op": "glob", "value": pat, "r": r, "vt": None, "now": NOW, "key": "k", "_keep": True}
                out.append(dict(base, kind="clause"))
                if i == 0:
                    out.append(dict(base, kind="emit"))
        # list values: every element is a policy string and must come back exactly. Elements over the
        # whole adversarial alphabet (either quote, both quotes, backslashes and backslash-escape look-alikes,
        # controls, DEL, C1 controls, line/paragraph separators, combining and astral characters), compared
        # with resources holding exactly that element, a neighbour of it, and the whole list
        lists: List[List[str]] = [["\U0001F680", "team-\U0001F40D"], ["\U00020BB7\u91ce\u5bb6"],
                                  ["\x85", "\u2028", "\u2029", "\xa0"],
                                  ["\\u00e9", "\\x41", "\\101", "\\U0001F600"], ["\x7f", "\x00", "\x1b[0m"],
                                  ["e\u0301", "\xe9"], ["\u0660", "\uffff", "\U0010FFFF"],
                                  ["it's", 'say "hi"', "both'\""], ["\ud7ff", ""]]
        for _ in range(8 if quick else 300):
            lists.append([rand_str(rng, 5) for _ in range(rng.randint(1, 3))])
        for v in lists:
            if not all(lean_ok_str(e) for e in v):
                continue
            for op in ("in", "ni", "not-in"):
                for e in v:
                    for r in dict.fromkeys([e, e + "a", e[:-1]]):
                        add(op, v, r, _keep=True)
            for op in ("intersect", "difference", "eq", "ne"):
                for r in (v, v[:1], v[1:], [v[-1], "zz"], ["zz"], list(reversed(v)), [e + "a" for e in v]):
                    add(op, v, r, _keep=True)
        # set-valued relations are about MEMBERSHIP, not about the shape of the list that carries the members: resource
        # lists (and policy lists) with repeated entries, in any order, shorter than / as long as / longer than the
        # other operand, whose distinct members are a subset of / equal to / a superset of / disjoint from it.
        # Every list of length 0..3 over a three-letter alphabet (all multiset shapes: aa, aba, aab, aaa, ...) plus
        # longer ones, against values with and without repeats; the same over ints.
        for alpha, zz in ((["a", "b", "c"], "zz"), ([1, 2, 3], 99)):
            small = alpha if alpha[0] == "a" else alpha[:2]
            rs: List[List[Any]] = [list(t) for n in range(0, 4) for t in itertools.product(small, repeat=n)]
            a, b, c3 = alpha
            rs += [[a, a, a, a], [a, b, a, b], [a, b, c3, a], [c3, c3, b, a, a], [b, b, b, b, b, b], [a, zz, a], [zz, zz]]
            for _ in range(4 if quick else 60):
                rs.append([rng.choice(alpha) for _ in range(rng.randint(4, 7))])
            vs: List[List[Any]] = [[a], [a, b], [b, c3], [a, b, c3], [a, a], [a, a, b], [b, a, b, a], []]
            if alpha[0] != "a":
                vs = [[a], [a, b], [b, b], [a, a, b]]
            for v in vs:
                for op in ("intersect", "difference"):
                    for i, r in enumerate(rs):
                        base = {"op": op, "value": v, "r": r, "vt": None, "now": NOW, "key": "k", "_keep": True}
                        out.append(dict(base, kind="clause"))
                        if i == 0:
                            out.append(dict(base, kind="emit"))
                for op in ("in", "ni", "not-in"):
                    for r in alpha + [zz]:
                        add(op, v, r, _keep=True)
            for r in rs:
                if len(r) != len(set(r)):
                    for x in (a, c3):
                        out.append({"kind": "clause", "op": "contains", "value": x, "r": r, "vt": None, "now": NOW,
                                    "key": "k", "_keep": True})
                    for n in (len(set(r)), len(r)):
                        for vt in ("size", "unique_size"):
                            out.append({"kind": "clause", "op": "eq", "value": n, "r": r, "vt": vt, "now": NOW,
                                        "key": "k", "_keep": True})
        for op in OPS:
            # strings
            for v in (svals if not quick else rng.sample(svals, 9) + ["abc", "back\\slash"]):
                if not lean_ok_str(v):
                    continue
                if op in ("intersect", "difference"):
                    continue
                if op == "contains":
                    for r in (str_neighbours(v)[:4] + [[v], [v + "x"], [], [v, "zz"]]):
                        add(op, v, r)
                    continue
                for r in str_neighbours(v):
                    add(op, v, r)
                if op in ("eq", "ne", "lt", "le", "gt", "ge", "in", "ni") and rng.random() < (0.3 if quick else 1.0):
                    add(op, v, v, vt="swap")
                    add(op, v, v + "a", vt="swap")
            # ints
            for v in ivals:
                if op in ("glob", "intersect", "difference"):
                    continue
                if op == "contains":
                    for r in ([v], [v + 1], [], [v - 1, v, v + 1]):
                        add(op, v, r)
                    continue
                for r in (v - 1, v, v + 1):
                    add(op, v, r)
                    if op not in ("in", "ni", "not-in"):
                        add(op, v, str(r) if rng.random() < 0.7 else f" {r} ", vt="integer")
                if op in ("in", "ni", "not-in"):
                    add(op, v, [v], vt="swap")
                    add(op, v, [v + 1], vt="swap")
            # lists
            lvals = [["a", "b"], [], ["x"], [1, 2, 3], ["q\"", "b\\s", "n\nl"], ["é", "a'b", 'a"b', "a'\"b"], [0], ["a", "a"]]
            for v in lvals:
                if op in ("in", "ni", "not-in"):
                    pool = (v + ["zz", ""]) if kind_of(v) != "list:int" else (v + [99, 0])
                    for r in pool:
                        add(op, v, r)
                elif op in ("intersect", "difference", "eq", "ne", "equal", "not-equal"):
                    others = [v, v[:1], v[1:], [], v + (["zz"] if kind_of(v) != "list:int" else [99]),
                              (["zz"] if kind_of(v) != "list:int" else [99]), list(reversed(v))]
                    for r in others:
                        add(op, v, r)
        # booleans
        for op in ("eq", "equal", "ne", "not-equal", "gt", "in"):
            for v in (True, False, "true", "false"):
                for r in (True, False):
                    add(op, v, r)
        # value types with their own operand shapes
        for op in ("eq", "ne", "gt", "ge", "lt", "le", "gte", "lte", "less-than", "greater-than", "equal", "not-equal"):
            for n in (0, 1, 2, 3):
                for r in ([], ["a"], ["a", "b"], ["a", "b", "c"], ["a", "a"], ["a", "a", "b"], "ab", ""):
                    add(op, n, r, vt="size")
                    if isinstance(r, list):
                        add(op, n, r, vt="unique_size")
            for v in ("abc", "a b", ""):
                for r in (v, " " + v.upper() + " ", v + "d", "\t" + v + "\n", v.title()):
                    add(op, v, r, vt="normalize")
            days = [0, 1, 30, 365, 3652] + ([rng.randint(0, 5000)] if quick else [rng.randint(0, 20000) for _ in range(8)])
            # fractional day counts keep their whole seconds; a count below one second is still a valid (zero) duration
            days += [1e-05, 0.5, 1.5, 0.084] if op in ("gt", "le", "eq") else []
            for d in days:
                whole = int(d * 86400)
                for delta in (-1, 0, 1, -86400, 86400):
                    add(op, d, fmt_ts(NOW - whole + delta), vt="age")
                    add(op, d, fmt_ts(NOW + whole + delta), vt="expiration")
        # present / absent (no op)
        for val in ("present", "absent", "not-null", "empty"):
            for r in ("x", "", None, [], ["a"], 0, 5, False, True, {"a": 1}, {}):
                out.append({"kind": "clause", "op": None, "value": val, "r": r, "vt": None, "now": NOW, "key": "k"})
            out.append({"kind": "clause", "op": None, "value": val, "r": None, "vt": None, "now": NOW, "key": "k", "missing": True})
            out.append({"kind": "emit", "op": None, "value": val, "r": None, "vt": None, "now": NOW, "key": "k"})
        # keys other than the plain one, through the whole pipeline
        for key in ("tag:app.owner", "a.b", "tag:Na\"me", "we\\ird"):
            for op in ("eq", "le", "in"):
                v = ["v1", "v2"] if op == "in" else "v1"
                for r in ("v1", "v0", "v2"):
                    add(op, v, r, key=key)
        if quick and len(out) > 10300:
            keep = [c for c in out if c.get("vt") in ("age", "expiration") or c["op"] is None or c["op"] in ("le", "lte")
                    or c.get("_keep")]
            rest = [c for c in out if c not in keep]
            out = keep + rng.sample(rest, 10300 - min(10300, len(keep)))
        return out

    # ---- implementation -----------------------------------------------------------------------
    def build_clause(self, c) -> Dict[str, Any]:
        cl: Dict[str, Any] = {"type": "value", "key": c["key"], "value": c["value"]}
        if c["op"] is not None:
            cl["op"] = c["op"]
        if c.get("vt"):
            cl["value_type"] = c["vt"]
        return cl

    def resource_for(self, key: str, r: Any, missing: bool = False) -> Any:
        if missing:
            return {"other": 1}
        if key.startswith("tag:"):
            return {"Tags": [{"Key": "zz-other", "Value": "no"}, {"Key": key[4:], "Value": r}]}
        if "." in key:
            parts = key.split(".")
            d: Any = r
            for p in reversed(parts):
                d = {p: d}
            return d
        return {key: r}

    def impl(self, c):
        out = self._impl(c)
        c["_impl"] = out
        return out

    def _impl(self, c):
        R = Real.R()
        k = c["kind"]
        try:
            if k == "q":
                q = R.q(c["s"], '"' if c["quote"] == "dq" else "'")
                v = Real.evaluate(q, {})
                val = enc(str(v)) if isinstance(v, str) else decision(v)
                return f"{enc(q)} {val}"
            if k == "lit":
                v = Real.evaluate(c["text"], {})
                return ("val " + enc(str(v))) if isinstance(v, str) else decision(v)
            if k == "key":
                key = c["key"]
                try:
                    t = R.key_to_cel(key)
                except KeyError:
                    return "raise KeyError"
                probe = self.key_probe(key)
                if probe is None:
                    return f"ok {enc(t)} -"
                res, want = probe
                v = Real.evaluate(t, activation(res, 0))
                got = "hit" if (type(v) is type(want) and v == want) else "miss:" + decision(v)
                return f"ok {enc(t)} {got}"
            if k == "dur":
                t = R.seconds_to_duration(c["n"]) if c["unit"] == "secs" else R.age_to_duration(c["n"])
                v = Real.evaluate(f"duration({t})", {})
                if isinstance(v, datetime.timedelta):
                    us = (v.days * 86400 + v.seconds) * 1000000 + v.microseconds
                    d = f"ok {us // 1000000}" if us % 1000000 == 0 else f"ok-us {us}"
                else:
                    d = "error" if v == ("err",) else decision(v)
                return f"{enc(t)} {d}"
            if k in ("clause", "emit"):
                try:
                    t = call_quiet(R.type_value_rewrite, "ec2", self.build_clause(c))
                except ValueError:
                    return "raise ValueError"
                except KeyError:
                    return "raise KeyError"
                if k == "emit":
                    return "ok " + enc(t)
                res = self.resource_for(c["key"], c["r"], c.get("missing", False))
                return decision(Real.evaluate(t, activation(res, c["now"])))
            if k == "table":
                fn, _, filters = TABLES[c["table"]]
                try:
                    t = call_quiet(getattr(R, fn), c["resource"], dict(filters[c["filter"]]))
                except KeyError:
                    return "raise KeyError"
                except ValueError:
                    return "raise ValueError"
                tree = Real.parse(t)
                if tree is None:
                    return "noparse " + enc(t)
                prob = macro_arity_problem(tree)
                return ("badmacro " if prob else "ok ") + enc(t)
            if k == "vfrom":
                return self.impl_vfrom(c)
            if k == "cel":
                return "cel" if Real.parse(c["text"]) is not None else "notcel"
            if k == "seq":
                return "seq " + " ".join(self.run_step(R, st) for st in c["steps"])
        except Exception as ex:  # anything else escaping the translator is an outcome, not a harness failure
            return "EXC " + type(ex).__name__
        return "bad-kind"

    def key_probe(self, key: str):
        """(resource, value the key expression must evaluate to) — built from the key by the
        property's reading of it (Custodian: tag:NAME is the tag NAME; dotted = nested path)"""
        from celpy import celtypes
        if "(" in key:
            import re
            m = re.match(r"length\((\w+)\)$", key)
            if not m:
                return None
            return {m.group(1): [1, 2, 3]}, celtypes.IntType(3)
        want = celtypes.StringType("SENTINEL")
        if key.startswith("tag:"):
            return {"Tags": [{"Key": key[4:] + "x", "Value": "no"}, {"Key": key[4:], "Value": "SENTINEL"},
                             {"Key": key[4:], "Value": "second"}]}, want
        if "." in key:
            d: Any = "SENTINEL"
            for p in reversed(key.split(".")):
                d = {p: d}
            return d, want
        return {key: "SENTINEL", key + "x": "no"}, want

    def impl_vfrom(self, c):
        from celpy import celtypes
        R = Real.R()
        vf: Dict[str, Any] = {"url": c["url"]}
        for f in ("format", "expr"):
            if f in c:
                vf[f] = c[f]
        try:
            t = R.value_from_to_cel('resource["k"]', c["op"], vf)
        except (KeyError, ValueError) as ex:
            return "raise " + type(ex).__name__

        def value_from(url, fmt=None):
            return celtypes.ListType([celtypes.StringType("U:" + url)] +
                                     ([celtypes.StringType("F:" + fmt)] if fmt is not None else []))

        def jmes_path(src, expr):
            return celtypes.ListType(list(src) + [celtypes.StringType("E:" + expr)])

        def subst(x):
            return x
        fns = {"value_from": value_from, "jmes_path": jmes_path, "subst": subst}
        probes = ["U:" + c["url"]]
        if "format" in c:
            probes.append("F:" + c["format"].strip())
        if "expr" in c:
            probes.append("E:" + c["expr"])
        probes.append("U:" + c["url"] + "~")
        op = c["op"] or "in"
        outs = []
        for p in probes:
            r = [p] if op == "intersect" else p
            outs.append(decision(Real.evaluate(t, activation({"k": r}, 0), functions=fns)))
        return f"ok {enc(t)} " + ",".join(outs)

    # ---- model ------------------------------------------------------------------------------------
    @staticmethod
    def emit_value(v) -> Optional[str]:
        if isinstance(v, bool):
            return "B1" if v else "B0"
        if isinstance(v, int):
            return f"I{v}"
        if isinstance(v, str):
            return "S" + enc(v) if lean_ok_str(v) else None
        if isinstance(v, list):
            k = kind_of(v)
            if k == "list:int" or (k == "list:" and True):
                return f"LI {len(v)}" + "".join(f" {x}" for x in v) if k == "list:int" else "LS 0"
            if k == "list:str":
                if not all(lean_ok_str(s) for s in v):
                    return None
                if all(all(ord(ch) < 128 for ch in s) for s in v):
                    return f"LS {len(v)}" + "".join(" " + enc(s) for s in v)
                # Python repr of non-ASCII characters needs the Unicode database (`str.isprintable`): the
                # model takes the non-printable characters that occur as a parameter (`pyRepr np`)
                np = sorted({ch for s in v for ch in s if ord(ch) > 127 and not ch.isprintable()})
                return (f"LU {len(np)}" + "".join(" %x" % ord(ch) for ch in np) + f" {len(v)}"
                        + "".join(" " + enc(s) for s in v))
        return None

    @staticmethod
    def val_token(x, ts: bool = False) -> Optional[str]:
        def atom(a):
            if a is None:
                return "N"
            if isinstance(a, bool):
                return "B1" if a else "B0"
            if isinstance(a, int):
                return f"I{a}"
            if isinstance(a, str) and lean_ok_str(a):
                return "S" + enc(a)
            return None
        if ts:
            try:
                return f"I{parse_ts(x)}"
            except Exception:
                return None
        if isinstance(x, list):
            ats = [atom(a) for a in x]
            if any(a is None for a in ats):
                return None
            return f"L {len(x)}" + "".join(" " + a for a in ats)
        if isinstance(x, dict):
            return None
        return atom(x)

    def model_line(self, c):
        k = c["kind"]
        if k == "q":
            return f"qv {c['quote']} {enc(c['s'])}" if lean_ok_str(c["s"]) else None
        if k == "lit":
            # the model's `\d` is ASCII-only (Python's matches every Unicode Nd digit, which needs the
            # Unicode database); q never writes a lone backslash, so this only limits this stream
            import unicodedata
            if any(ord(ch) > 127 and unicodedata.category(ch) == "Nd" for ch in c["text"]):
                return None
            return f"lit {enc(c['text'])}" if lean_ok_str(c["text"]) else None
        if k == "key":
            key = c["key"]
            if not lean_ok_str(key) or ("(" in key and any(ord(ch) > 127 for ch in key)):
                return None
            return f"key {enc('resource')} {enc(key)}"
        if k == "dur":
            n = c["n"]
            if isinstance(n, int) and not isinstance(n, bool):
                return f"{c['unit']} {n}"
            # fractional / textual counts: the model takes over after the code's own `int(float(...))`
            try:
                secs = int(float(n) * 24 * 60 * 60) if c["unit"] == "age" else int(float(n))
            except (ValueError, OverflowError):
                return None
            return f"secs {secs}" if secs >= 0 else None
        if k == "cel":
            return f"cel {enc(c['text'])}" if lean_ok_str(c["text"]) else None
        if k == "emit":
            if c["op"] is None:
                return None
            if not lean_ok_str(c["key"]) or "(" in c["key"]:
                return None
            v = self.emit_value(c["value"])
            if v is None:
                return None
            if c.get("vt") in ("age", "expiration") and not (isinstance(c["value"], int) and not isinstance(c["value"], bool) and c["value"] >= 0):
                return None
            key_text = self.model_key_text(c["key"])
            if key_text is None:
                return None
            return f"emit {enc(key_text)} {c['op']} {c.get('vt') or '-'} {v}"
        if k == "clause":
            if c.get("missing"):
                return None
            op = c["op"]
            if op is None:
                op = "__present__" if c["value"] in ("present", "not-null") else "__absent__"
                r = self.val_token(c["r"])
                return None if r is None else f"dec {op} - {c['now']} {r} N"
            if isinstance(c["value"], bool) or c["value"] in ("true", "false"):
                return None   # rewritten to `key` / `! key`, no operator template involved
            vt = c.get("vt")
            r = self.val_token(c["r"], ts=vt in ("age", "expiration"))
            v = self.val_token(c["value"])
            if r is None or v is None:
                return None
            return f"dec {op} {vt or '-'} {c['now']} {r} {v}"
        return None

    def model_key_text(self, key: str) -> Optional[str]:
        """key_to_cel is modelled by the `key` stream; here the emitted key text is taken as given by
        the same construction (tag / dotted / plain) so that `emit` checks value_to_cel itself"""
        def q(s):
            return '"' + "".join({"\\": "\\\\", "\n": "\\n", "\r": "\\r", "\t": "\\t", '"': '\\"'}.get(ch) or
                                 ("\\x%02x" % ord(ch) if ord(ch) < 32 or ord(ch) == 127 else ch) for ch in s) + '"'
        if key.startswith("tag:"):
            return f'resource["Tags"].filter(x, x["Key"] == {q(key[4:])})[0]["Value"]'
        if "." in key:
            return "resource" + "".join(f"[{q(p)}]" for p in key.split("."))
        return f"resource[{q(key)}]"

    def model_expect(self, c, m):
        k = c["kind"]
        impl = c.get("_impl", "")
        if k == "q":
            return m
        if k == "lit":
            if m == "nolex":
                return "parse-error"
            toks = m.split(" ")
            # tok <t> rest <r> val <v>
            if len(toks) == 6 and toks[3] == "x":
                if toks[5] == "none":
                    # the real celstr raises (-> evaluation error) or builds a lone surrogate (not representable)
                    return impl if impl.startswith("val ") else "err"
                return "val " + toks[5]
            return impl          # text continues after the literal: not a single-literal program; no opinion
        if k == "key":
            if m.startswith("ok "):
                return m + " " + impl.split(" ")[-1] if impl.startswith("ok ") else m
            return m
        if k == "dur":
            text, rest = m.split(" ", 1)
            if rest == "unmodelled":
                return impl
            return f"{text} {rest}"
        if k == "emit":
            return m
        if k == "cel":
            return impl if m == "nolex" else m     # nolex: a lexical error, or a token kind the lexer model leaves out
        if k == "clause":
            return m if m in ("true", "false") else impl
        return impl

    # ---- oracle -----------------------------------------------------------------------------------
    def oracle(self, c, out):
        k = c["kind"]
        if out.startswith("EXC "):
            return f"{k}: the translator raised {out[4:]}"
        if k == "q":
            text, val = out.split(" ", 1)
            if val != enc(c["s"]):
                shown = dec(val) if val.startswith("x") and " " not in val else val
                return f"q({c['s']!r}) = {dec(text)!r} evaluates to {shown!r}, not to the policy string"
            return None
        if k == "key":
            if out == "raise KeyError":
                return None     # unknown function name: no CEL emitted, the statement says nothing
            got = out.split(" ")[-1]
            if got == "-" or got == "hit":
                return None
            return (f"key {c['key']!r} -> {dec(out.split(' ')[1])!r} does not select the attribute the key names "
                    f"(evaluation gave {got})")
        if k == "dur":
            from fractions import Fraction
            raw = c["n"]
            try:
                exact = Fraction(float(raw)) if not isinstance(raw, int) else Fraction(raw)
            except (ValueError, OverflowError):
                return None
            exact *= (86400 if c["unit"] == "age" else 1)
            if exact < 0 or exact > DUR_MAX:
                return None     # outside the property (negative) / outside what a CEL duration can hold
            text, res = out.split(" ", 1)
            if exact.denominator == 1:
                if res != f"ok {int(exact)}":
                    return f"{c['unit']} count {raw!r} -> duration({dec(text)}) is {res}, not {int(exact)} seconds"
                return None
            # fractional count: the translator's contract is whole seconds ("Integer periods are seconds",
            # tests pin age 0.084 -> "2h57s"): a valid duration of floor(count) seconds (the float product
            # may round up across a whole second within 1e-9 relative)
            if not res.startswith("ok "):
                return f"{c['unit']} count {raw!r} -> duration({dec(text)}) is {res}: not a valid CEL duration"
            d = int(res[3:])
            lo = int(exact)          # floor, exact >= 0
            if not (d == lo or (d == lo + 1 and (lo + 1 - exact) <= exact * Fraction(1, 10 ** 9))):
                return f"{c['unit']} count {raw!r} -> duration({dec(text)}) is {d} s, not the whole seconds ({lo}) of the count"
            return None
        if k == "emit":
            if out.startswith("ok "):
                t = dec(out[3:])
                if Real.parse(t) is None:
                    return f"emitted text is not CEL: {t!r}"
            return None
        if k == "clause":
            if out.startswith("raise "):
                return None     # no CEL emitted
            if c["op"] is None:
                # Custodian's ValueFilter.match: absent <=> None, present <=> not None, not-null <=> truthy,
                # empty <=> falsy (a missing key reads as None)
                r = None if c.get("missing") else c["r"]
                want = {"present": r is not None, "absent": r is None, "not-null": bool(r), "empty": not r}[c["value"]]
                exp = "true" if want else "false"
                if out != exp:
                    return (f"value: {c['value']} on resource {'without the key' if c.get('missing') else repr(c['r'])}: "
                            f"relation says {exp}, emitted CEL evaluates to {out}")
                return None
            v, r = c["value"], c["r"]
            if isinstance(v, bool) or v in ("true", "false"):
                if c["op"] not in ("eq", "equal", "ne", "not-equal") or not isinstance(r, bool) or c.get("vt"):
                    return None
                b = v in (True, "true")
                want = (r == b) if c["op"] in ("eq", "equal") else (r != b)
            else:
                ops = ref_operands(c.get("vt"), r, v, c["now"])
                if ops is None:
                    return None
                want = ref_rel(c["op"], ops[0], ops[1])
                if want is None:
                    return None
            exp = "true" if want else "false"
            if out != exp:
                return (f"op {c['op']} value {v!r} value_type {c.get('vt')} on resource value {r!r}: the relation "
                        f"gives {exp}, the emitted CEL evaluates to {out}")
            return None
        if k == "table":
            if out.startswith("noparse "):
                return f"{c['table']} / {c['resource']}: not CEL: {dec(out[8:])!r}"
            if out.startswith("badmacro "):
                return f"{c['table']} / {c['resource']}: {macro_arity_problem(Real.parse(dec(out[9:])))}: {dec(out[9:])!r}"
            if out.startswith("raise "):
                return f"{c['table']} / {c['resource']}: listed resource type raised {out[6:]}"
            return None
        if k == "seq":
            got = out.split(" ")[1:]
            for i, (st, g) in enumerate(zip(c["steps"], got)):
                want = self.alone(st)
                if g != want:
                    show = lambda t: repr(dec(t)) if t.startswith("x") else t   # noqa
                    return (f"step {i} {st} translated after {i} earlier call(s) in the same process gives {show(g)}, "
                            f"translated alone it gives {show(want)}: the emitted CEL depends on the translator's history")
            return None
        if k == "vfrom":
            if not out.startswith("ok "):
                return None
            _, text, res = out.split(" ", 2)
            outs = res.split(",")
            neg = (c["op"] in ("ni", "not-in"))
            want = [("false" if neg else "true")] * (len(outs) - 1) + [("true" if neg else "false")]
            if outs != want:
                return (f"value_from {{url: {c['url']!r}, format: {c.get('format')!r}, expr: {c.get('expr')!r}}} -> "
                        f"{dec(text)!r}: membership of the policy strings in the fetched list is not what op {c['op'] or 'in'} names "
                        f"(literal round trip or negation/orientation of the template; probes {outs}, expected {want})")
            return None
        return None

    def nontrivial(self, c, out):
        k = c["kind"]
        if k == "q":
            return any(ch in '\\"\'\n\r\t' or ord(ch) < 32 or ord(ch) == 127 for ch in c["s"])
        if k == "key":
            return c["key"].startswith("tag:") or "." in c["key"] or any(ch in '\\"\n' for ch in c["key"])
        if k == "dur":
            n = c["n"]
            if not isinstance(n, int):
                return True
            return n == 0 or any(n % u == 0 for u in (60, 3600, 86400)) or n >= DUR_MAX - 1
        if k == "clause":
            return out in ("true", "false")
        if k == "table":
            return True
        if k == "seq":
            return len({st.get("key") or str(st.get("filter", {}).get("key")) for st in c["steps"]}) < len(c["steps"])
        if k == "vfrom":
            return "expr" in c
        return k == "emit" and out.startswith("ok ")

    def known_preds(self):
        return {
            "glacier_pinned": lambda c: c.get("kind") == "table" and c.get("table") == "cross-account"
            and c.get("resource") == "glacier",
            "valueless_missing_key": lambda c: c.get("kind") == "clause" and c.get("op") is None and bool(c.get("missing")),
            # an attribute that is there but falsy ("", 0, false, [], {}): present/absent are translated like not-null/empty
            "present_is_truthiness": lambda c: c.get("kind") == "clause" and c.get("op") is None and not c.get("missing")
            and c.get("value") in ("present", "absent") and c.get("r") is not None and not c.get("r"),
        }


PROP = C19()
