"""C15 — JSON documents convert to CEL values and back without loss."""
from __future__ import annotations
import datetime
import json
import random
import re
import struct
from typing import Any, Dict, Iterable, List, Optional, Tuple

from ..core import Prop

I_MIN, I_MAX = -2**63, 2**63 - 1
DUR_EXACT_US = 2**34 * 10**6       # below this many microseconds int(total_seconds()) is provably the exact truncation
DUR_MAX_S = 315576000000           # CEL's duration range, seconds
RESERVED = {"as", "break", "const", "continue", "else", "false", "for", "function", "if", "import", "in", "let",
            "loop", "package", "namespace", "null", "return", "true", "var", "void", "while"}
IDENT = re.compile(r"^[_a-zA-Z][_a-zA-Z0-9]*$")


# --------------------------------------------------------------------------------------------------
# token formats shared with lean/Cel/Drv/C15.lean
# --------------------------------------------------------------------------------------------------

def enc_str(s: str) -> str:
    return ".".join("%X" % ord(c) for c in s)


def dec_str(t: str) -> str:
    return "".join(chr(int(h, 16)) for h in t.split(".")) if t else ""


def fbits(x: float) -> int:
    return struct.unpack("<Q", struct.pack("<d", x))[0]


def bits_f(b: int) -> float:
    return struct.unpack("<d", struct.pack("<Q", b))[0]


def json_tokens(d: Any) -> str:
    """a Python-native JSON document as tokens (exact types: bool before int)"""
    if d is None:
        return "n"
    if d is True:
        return "T"
    if d is False:
        return "F"
    if type(d) is int:
        return f"i:{d}"
    if type(d) is float:
        return f"d:{fbits(d)}"
    if type(d) is str:
        return "s:" + enc_str(d)
    if type(d) is list:
        return " ".join([f"a:{len(d)}"] + [json_tokens(x) for x in d])
    if type(d) is dict:
        out = [f"o:{len(d)}"]
        for k, v in d.items():
            if type(k) is not str:
                return f"?key:{type(k).__name__}"
            out.append("s:" + enc_str(k))
            out.append(json_tokens(v))
        return " ".join(out)
    return f"?{type(d).__name__}"


def pv_tokens(v: Any) -> str:
    """a value on the CEL side as tokens, tagged with its exact Python class"""
    from celpy import celtypes as ct
    t = type(v)
    if v is None:
        return "N"
    if t is bool:
        return "pb:1" if v else "pb:0"
    if t is int:
        return f"pi:{v}"
    if t is float:
        return f"pf:{fbits(v)}"
    if t is str:
        return "ps:" + enc_str(v)
    if t is list:
        return " ".join([f"pl:{len(v)}"] + [pv_tokens(x) for x in v])
    if t is dict:
        return " ".join([f"pd:{len(v)}"] + [pv_tokens(k) + " " + pv_tokens(x) for k, x in v.items()])
    if t is ct.BoolType:
        return "cb:1" if v else "cb:0"
    if t is ct.IntType:
        return f"ci:{int(v)}"
    if t is ct.UintType:
        return f"cu:{int(v)}"
    if t is ct.DoubleType:
        return f"cd:{fbits(float(v))}"
    if t is ct.StringType:
        return "cs:" + enc_str(str(v))
    if t is ct.BytesType:
        return "cy:" + bytes(v).hex()
    if t is ct.ListType:
        return " ".join([f"cl:{len(v)}"] + [pv_tokens(x) for x in v])
    if t is ct.MapType:
        return " ".join([f"cm:{len(v)}"] + [pv_tokens(k) + " " + pv_tokens(x) for k, x in v.items()])
    if t is ct.TimestampType:
        off = v.utcoffset()
        offm = int(off.total_seconds() // 60) if off is not None else 0
        return f"ct:{v.year}.{v.month}.{v.day}.{v.hour}.{v.minute}.{v.second}.{v.microsecond}.{offm}"
    if t is ct.DurationType:
        return "cD:" + str((v.days * 86400 + v.seconds) * 1000000 + v.microseconds)
    return f"?{t.__module__}.{t.__name__}"


def pv_build(toks: List[str], i: int = 0) -> Tuple[Any, int]:
    """tokens → celtypes object (the CEL-side classes only)"""
    from celpy import celtypes as ct
    tok = toks[i]
    tag, _, a = tok.partition(":")
    if tok == "N":
        return None, i + 1
    if tag == "cb":
        return ct.BoolType(a == "1"), i + 1
    if tag == "ci":
        return ct.IntType(int(a)), i + 1
    if tag == "cu":
        return ct.UintType(int(a)), i + 1
    if tag == "cd":
        return ct.DoubleType(bits_f(int(a))), i + 1
    if tag == "cs":
        return ct.StringType(dec_str(a)), i + 1
    if tag == "cy":
        return ct.BytesType(bytes.fromhex(a)), i + 1
    if tag == "ct":
        y, mo, d, h, mi, s, us, off = (int(x) for x in a.split("."))
        tz = datetime.timezone(datetime.timedelta(minutes=off))
        return ct.TimestampType(datetime.datetime(y, mo, d, h, mi, s, us, tzinfo=tz)), i + 1
    if tag == "cD":
        return ct.DurationType(datetime.timedelta(microseconds=int(a))), i + 1
    if tag == "cl":
        n, i, xs = int(a), i + 1, []
        for _ in range(n):
            x, i = pv_build(toks, i)
            xs.append(x)
        return ct.ListType(xs), i
    if tag == "cm":
        n, i, m = int(a), i + 1, {}
        for _ in range(n):
            k, i = pv_build(toks, i)
            x, i = pv_build(toks, i)
            m[k] = x
        return ct.MapType(m), i
    raise ValueError(tok)


# --------------------------------------------------------------------------------------------------
# independent references (the property's own notions; no use of adapter.py, no use of the Lean model)
# --------------------------------------------------------------------------------------------------

def ref_cel_tokens(d: Any) -> str:
    """the CEL value a JSON document must convert to, by kind, as tokens"""
    if d is None:
        return "N"
    if d is True or d is False:
        return "cb:1" if d else "cb:0"
    if type(d) is int:
        return f"ci:{d}"
    if type(d) is float:
        return f"cd:{fbits(d)}"
    if type(d) is str:
        return "cs:" + enc_str(d)
    if type(d) is list:
        return " ".join([f"cl:{len(d)}"] + [ref_cel_tokens(x) for x in d])
    if type(d) is dict:
        return " ".join([f"cm:{len(d)}"] + ["cs:" + enc_str(k) + " " + ref_cel_tokens(x) for k, x in d.items()])
    raise ValueError(type(d))


B64 = "ABCDEFGHIJKLMNOPQRSTUVWXYZabcdefghijklmnopqrstuvwxyz0123456789+/"


def ref_b64(b: bytes) -> str:
    """RFC 4648 §4, written from the RFC"""
    out = []
    for i in range(0, len(b), 3):
        chunk = b[i:i + 3]
        n = int.from_bytes(chunk + b"\0" * (3 - len(chunk)), "big")
        quad = [B64[(n >> 18) & 63], B64[(n >> 12) & 63], B64[(n >> 6) & 63], B64[n & 63]]
        if len(chunk) == 1:
            quad[2] = quad[3] = "="
        elif len(chunk) == 2:
            quad[3] = "="
        out += quad
    return "".join(out)


def ref_encode(toks: List[str], i: int = 0) -> Tuple[Any, int]:
    """the JSON document a CEL value must serialise to (bool → true/false, ints → numbers, timestamps RFC 3339,
    durations whole seconds + 's', bytes base64, map keys as JSON strings)"""
    tok = toks[i]
    tag, _, a = tok.partition(":")
    if tok == "N":
        return None, i + 1
    if tag == "cb":
        return a == "1", i + 1
    if tag in ("ci", "cu"):
        return int(a), i + 1
    if tag == "cd":
        return bits_f(int(a)), i + 1
    if tag == "cs":
        return dec_str(a), i + 1
    if tag == "cy":
        return ref_b64(bytes.fromhex(a)), i + 1
    if tag == "ct":
        y, mo, d, h, mi, s, us, off = (int(x) for x in a.split("."))
        z = "Z" if off == 0 else "%s%02d:%02d" % ("-" if off < 0 else "+", abs(off) // 60, abs(off) % 60)
        return "%04d-%02d-%02dT%02d:%02d:%02d%s" % (y, mo, d, h, mi, s, z), i + 1
    if tag == "cD":
        us = int(a)
        q = abs(us) // 1000000                      # truncation toward zero of the duration, in whole seconds
        if abs(us) >= DUR_EXACT_US and us % 1000000:
            # from 2^34 s on a binary64 number of seconds no longer separates microseconds: "the seconds" of such a duration
            # are the double nearest to µs/10^6 (Python's int/int true division is correctly rounded), truncated
            q = int(abs(us) / 1000000)
        return "%ds" % (-q if us < 0 else q), i + 1
    if tag == "cl":
        n, i, xs = int(a), i + 1, []
        for _ in range(n):
            x, i = ref_encode(toks, i)
            xs.append(x)
        return xs, i
    if tag == "cm":
        n, i, m = int(a), i + 1, {}
        for _ in range(n):
            ktok = toks[i]
            ktag, _, ka = ktok.partition(":")
            k = {"cb": lambda: "true" if ka == "1" else "false", "ci": lambda: str(int(ka)), "cu": lambda: str(int(ka)),
                 "cs": lambda: dec_str(ka)}[ktag]()
            x, i = ref_encode(toks, i + 1)
            m[k] = x
        return m, i
    raise ValueError(tok)


def strict_eq(a: Any, b: Any) -> bool:
    """document equality that distinguishes bool / int / float (and -0.0 from 0.0); objects unordered"""
    if type(a) is not type(b):
        return False
    if type(a) is float:
        return fbits(a) == fbits(b)
    if type(a) is list:
        return len(a) == len(b) and all(strict_eq(x, y) for x, y in zip(a, b))
    if type(a) is dict:
        return a.keys() == b.keys() and all(strict_eq(a[k], b[k]) for k in a)
    return a == b


def ints_in_range(d: Any) -> bool:
    if type(d) is int:
        return I_MIN <= d <= I_MAX
    if type(d) is list:
        return all(ints_in_range(x) for x in d)
    if type(d) is dict:
        return all(ints_in_range(x) for x in d.values())
    return True


# --------------------------------------------------------------------------------------------------
# generators
# --------------------------------------------------------------------------------------------------

INT_EDGES = [0, 1, -1, 2, 7, 255, 256, -256, 2**31 - 1, 2**31, -2**31, 2**32, 2**53 - 1, 2**53, 2**53 + 1,
             -(2**53) - 1, I_MAX, I_MAX - 1, I_MIN, I_MIN + 1, 10**18, -10**18]
FLOAT_EDGES = [0.0, -0.0, 1.0, -1.0, 0.1, 0.5, 1.5, 1e308, -1e308, 1.7976931348623157e308, 5e-324, -5e-324,
               2.2250738585072014e-308, 1e-320, 1e21, 1e22, 1e16, 123456789012345680.0, 9.223372036854776e18,
               -9.223372036854776e18, 1e-7, 1e-5, 0.30000000000000004, 3.141592653589793, 2.5e-300, 6.02e23]
STR_POOL = ["", "a", "abc", "true", "null", "1", "0", " ", "a b", "\u00e9", "e\u0301", "\u00df", "\u65e5\u672c\u8a9e", "\U0001F431",
            "\U0001F431\U0001F436", "\U00010000", "\U0010FFFF", "\uffff", "\ud7ff", "\ue000", "\x00", "\x01\x1f", "\x7f",
            "\"", "\\", "\\\"", "/", "\n", "\r\n", "\t", "\u2028", "\u00a0", "'", "a'b\"c", "{}", "[1]", "\\u0041",
            "A", "a ", " a", "aa", "key", "Key", "KEY", "x_1", "_", "_x", "camelCase", "with-dash", "with.dot", "0x10"]
KEY_POOL = ["a", "b", "c", "name", "value", "items", "x_1", "_", "_y", "A", "a ", "aa", "Key", "key", "\u00e9", "e\u0301",
            "\u65e5\u672c", "\U0001F431", "", " ", "1", "01", "true", "false", "null", "in", "as", "for", "with-dash", "with.dot",
            "a\"b", "a\\b", "a\nb", "\x00", "\U0010FFFF", "has", "size", "map", "type", "int", "jq", "doc", "k k",
            # keys that exercise CEL string-literal decoding when written as ["key"]: backslashes, quotes, escape look-alikes spelled literally
            "C:\\temp", "\\", "\\\\", "a\\nb", "\\u0041", "\\x41", "\\101", "tab\there", "q\"uote", "it's", "\\'", "\\\"", "end\\", "\\U0001F431", "a\\\\b"]


def gen_str(rng: random.Random) -> str:
    r = rng.random()
    if r < 0.55:
        return rng.choice(STR_POOL)
    n = rng.randint(1, 8)
    out = []
    for _ in range(n):
        c = rng.random()
        if c < 0.4:
            out.append(chr(rng.randint(32, 126)))
        elif c < 0.5:
            out.append(chr(rng.randint(0, 31)))
        elif c < 0.75:
            cp = rng.randint(128, 0xFFFF)
            while 0xD800 <= cp <= 0xDFFF:
                cp = rng.randint(128, 0xFFFF)
            out.append(chr(cp))
        else:
            out.append(chr(rng.randint(0x10000, 0x10FFFF)))
    return "".join(out)


def gen_float(rng: random.Random) -> float:
    r = rng.random()
    if r < 0.5:
        return rng.choice(FLOAT_EDGES)
    if r < 0.8:
        while True:
            x = bits_f(rng.getrandbits(64))
            if x == x and x not in (float("inf"), float("-inf")):
                return x
    return rng.uniform(-1e6, 1e6)


def gen_int(rng: random.Random, allow_big: bool) -> int:
    r = rng.random()
    if r < 0.45:
        return rng.choice(INT_EDGES)
    if r < 0.75:
        return rng.randint(-1000, 1000)
    if allow_big and r > 0.985:
        return rng.choice([2**63, -2**63 - 1, 2**64, 10**30])
    return rng.randint(I_MIN, I_MAX)


def gen_doc(rng: random.Random, depth: int, allow_big: bool = False) -> Any:
    kinds = ["null", "bool", "int", "float", "str"]
    if depth > 0:
        kinds += ["arr", "obj", "arr", "obj", "obj"]
    k = rng.choice(kinds)
    if k == "null":
        return None
    if k == "bool":
        return rng.random() < 0.5
    if k == "int":
        return gen_int(rng, allow_big)
    if k == "float":
        return gen_float(rng)
    if k == "str":
        return gen_str(rng)
    if k == "arr":
        return [gen_doc(rng, depth - 1, allow_big) for _ in range(rng.choice([0, 1, 2, 3, 4]))]
    d = {}
    for _ in range(rng.choice([0, 1, 2, 3, 4, 5])):
        key = rng.choice(KEY_POOL) if rng.random() < 0.8 else gen_str(rng)
        d[key] = gen_doc(rng, depth - 1, allow_big)
    return d


def deep_chain(rng: random.Random, depth: int) -> Any:
    """a document that is exactly `depth` levels deep, alternating objects and arrays"""
    d: Any = rng.choice([True, 1, 1.0, "x", None, False, 0])
    for i in range(depth):
        d = {rng.choice(KEY_POOL): d, "z": i} if rng.random() < 0.5 else [i % 2 == 0, d]
    return d


def all_paths(d: Any, prefix=()) -> List[Tuple]:
    out = [prefix]
    if type(d) is dict:
        for k, v in d.items():
            out += all_paths(v, prefix + (("k", k),))
    elif type(d) is list:
        for i, v in enumerate(d):
            out += all_paths(v, prefix + (("x", i),))
    return out


def style_path(rng: random.Random, p: Tuple) -> List[List[Any]]:
    """choose `.f` for identifier-shaped keys (at random), `["k"]` otherwise"""
    out = []
    for tag, a in p:
        if tag == "k" and IDENT.match(a) and a not in RESERVED and rng.random() < 0.6:
            out.append(["f", a])
        elif tag == "k":
            out.append([tag, a, rng.choice(["u", "n", "n", "s", "r"])])
        else:
            out.append([tag, a])
    return out


def cel_string(s: str, style: str = "u") -> str:
    """a CEL string literal for `s`.
    style "u": everything but plain ASCII as \\uXXXX / \\UXXXXXXXX in double quotes (independent of the escape table);
    style "n": the natural spelling — `\\\\` for a backslash, `\\"` for the quote, \\n \\r \\t \\a \\b \\f \\v, other printable characters
               (incl. non-ASCII) verbatim, remaining controls as \\xHH — in double quotes;
    style "s": as "n" in single quotes (`\\'` escaped, `"` verbatim);
    style "r": a raw literal r"..." / r'...' when the text allows it (no newline, not both quote kinds, no control characters),
               else style "n"."""
    if style == "r":
        if all(ch >= " " and ch != "\x7f" for ch in s) and not ('"' in s and "'" in s) and not s.endswith("\\"):
            q = "'" if '"' in s else '"'
            return "r" + q + s + q
        style = "n"
    if style in ("n", "s"):
        q = '"' if style == "n" else "'"
        named = {"\\": "\\\\", "\n": "\\n", "\r": "\\r", "\t": "\\t", "\a": "\\a", "\b": "\\b", "\f": "\\f", "\v": "\\v"}
        out = [q]
        for ch in s:
            o = ord(ch)
            if ch == q:
                out.append("\\" + q)
            elif ch in named:
                out.append(named[ch])
            elif o < 32 or o == 127:
                out.append("\\x%02x" % o)
            else:
                out.append(ch)
        out.append(q)
        return "".join(out)
    out = ['"']
    for ch in s:
        o = ord(ch)
        if ch.isascii() and (ch.isalnum() or ch in " _-.,:;!?()[]{}<>@#$%^&*+=|~/"):
            out.append(ch)
        elif o <= 0xFFFF:
            out.append("\\u%04x" % o)
        else:
            out.append("\\U%08x" % o)
    out.append('"')
    return "".join(out)


def path_expr(path: List[List[Any]]) -> str:
    e = "doc"
    for tag, a, *st in path:
        if tag == "f":
            e += "." + a
        elif tag == "k":
            e += "[" + cel_string(a, st[0] if st else "u") + "]"
        else:
            e += f"[{a}]"
    return e


def navigate(d: Any, path: List[List[Any]]) -> Tuple[bool, Any]:
    for tag, a, *_ in path:
        try:
            if tag in ("f", "k"):
                if type(d) is not dict:
                    return False, None
                d = d[a]
            else:
                if type(d) is not list or a < 0:
                    return False, None
                d = d[a]
        except (KeyError, IndexError):
            return False, None
    return True, d


def gen_pv(rng: random.Random, depth: int) -> str:
    """a CEL value (as tokens) built directly from celtypes, incl. timestamps, durations, bytes, uints and
    maps with int / uint / bool / string keys"""
    kinds = ["N", "cb", "ci", "cu", "cd", "cs", "cy", "cy", "ct", "ct", "cD", "cD"]
    if depth > 0:
        kinds += ["cl", "cm", "cm"]
    k = rng.choice(kinds)
    if k == "N":
        return "N"
    if k == "cb":
        return f"cb:{rng.randint(0, 1)}"
    if k == "ci":
        v = gen_int(rng, False)
        return f"ci:{v}"
    if k == "cu":
        return f"cu:{rng.choice([0, 1, 2**63, 2**64 - 1, rng.randint(0, 2**64 - 1), rng.randint(0, 100)])}"
    if k == "cd":
        return f"cd:{fbits(gen_float(rng))}"
    if k == "cs":
        return "cs:" + enc_str(gen_str(rng))
    if k == "cy":
        n = rng.choice([0, 1, 2, 3, 4, 5, 6, 7, 8, 9, 10, 16, 31, 32, 33, 57, 58, rng.randint(0, 80)])
        r = rng.random()
        b = bytes(rng.getrandbits(8) for _ in range(n)) if r < 0.7 else (bytes([0xFF] * n) if r < 0.8 else (bytes(n) if r < 0.9 else bytes((i * 37) % 256 for i in range(n))))
        return "cy:" + b.hex()
    if k == "ct":
        y = rng.choice([1, 2, 9, 10, 99, 100, 999, rng.randint(1, 999), 1000, 1001, 1582, 1899, 1900, 1969, 1970, 1999, 2000, 2004, 2024, 2038, 2100, 9999, rng.randint(1000, 9999)])
        mo = rng.randint(1, 12)
        d = rng.randint(1, 28) if rng.random() < 0.8 else (29 if (mo != 2 or (y % 4 == 0 and (y % 100 != 0 or y % 400 == 0))) else 28)
        h, mi, s = rng.choice([0, 23, rng.randint(0, 23)]), rng.choice([0, 59, rng.randint(0, 59)]), rng.choice([0, 59, rng.randint(0, 59)])
        us = rng.choice([0, 0, 1, 999999, 500000, rng.randint(0, 999999)])
        off = rng.choice([0, 0, 0, 60, -60, 330, -330, 345, 840, -720, 1, -1, 59, -59, 1439, -1439, rng.randint(-1439, 1439)])
        return f"ct:{y}.{mo}.{d}.{h}.{mi}.{s}.{us}.{off}"
    if k == "cD":
        r = rng.random()
        if r < 0.4:   # whole seconds over the full CEL range
            secs = rng.choice([0, 1, -1, 59, 60, 3600, 86400, -86400, 315576000000, -315576000000, 315575999999,
                               rng.randint(-315576000000, 315576000000)])
            return f"cD:{secs * 1000000}"
        if r < 0.85:   # fractional, |d| < 2^34 s: the exact truncation (Props.C15.duration_seconds_truncate)
            us = rng.choice([1, -1, 999999, -999999, 1000001, -1000001, 1999999, -1999999, 500000, -1500000,
                             rng.randint(-2**33 * 10**6, 2**33 * 10**6), rng.randint(-10**7, 10**7),
                             rng.choice([1, -1]) * (rng.randint(2**33, 2**34 - 1) * 10**6 + rng.choice([1, 999999, rng.randint(1, 999999)]))])
            return f"cD:{us}"
        # fractional up to the end of the CEL range: the float quotient of total_seconds() is modelled exactly (Cel.Time.totalSeconds)
        secs = rng.choice([2**34, 2**34 + 1, 2**35, 2**36 - 1, 2**37 + 5, 2**38, DUR_MAX_S - 1, rng.randint(2**34, DUR_MAX_S - 1)])
        frac = rng.choice([1, 2, 499999, 500000, 500001, 999998, 999999, rng.randint(1, 999999), rng.randint(999900, 999999)])
        return f"cD:{rng.choice([1, -1]) * (secs * 10**6 + frac)}"
    if k == "cl":
        n = rng.randint(0, 3)
        return " ".join([f"cl:{n}"] + [gen_pv(rng, depth - 1) for _ in range(n)])
    n = rng.randint(0, 4)
    keys, seen = [], set()
    for _ in range(n):
        kk = rng.choice(["cs", "cs", "cs", "ci", "cu", "cb"])
        if kk == "cs":
            s = rng.choice(KEY_POOL)
            tok, js, py = "cs:" + enc_str(s), s, ("s", s)
        elif kk == "cb":
            b = rng.randint(0, 1)
            tok, js, py = f"cb:{b}", "true" if b else "false", ("n", b)
        else:
            z = rng.choice([0, 1, 2, 5, 42, 2**63 - 1]) if kk == "cu" else rng.choice([0, 1, -1, 7, 42, I_MIN, I_MAX])
            tok, js, py = f"{kk}:{z}", str(z), ("n", z)
        if js in seen or py in seen:      # keys that collide as Python keys or as JSON member names: one of them only
            continue
        seen |= {js, py}
        keys.append(tok)
    return " ".join([f"cm:{len(keys)}"] + [k + " " + gen_pv(rng, depth - 1) for k in keys])


# ---- systematic families (each stands for a class of change, see notes/C15.md "round 2") ---------------------------------------

PAIR_POOL = [True, False, 0, 1, -1, 2, 0.0, 1.0, -0.0, "1", "", None, [], {}]
TRIPLE_POOL = [True, 1, 1.0, "1", None]
CONTEXT_SCALARS = [True, False, 0, 1, 1.0, -0.0, "", "true", None, I_MIN, I_MAX]


def mixed_arrays() -> List[Any]:
    """arrays over EVERY ordered pair / triple of scalar kinds (a conversion that is right item by item but takes a short cut for
    arrays that look homogeneous from their first item is wrong on exactly one order of one pair), bare and nested"""
    out: List[Any] = []
    for a in PAIR_POOL:
        for b in PAIR_POOL:
            out.append([a, b])
    for a in TRIPLE_POOL:
        for b in TRIPLE_POOL:
            for c in TRIPLE_POOL:
                out.append({"k": [a, b, c]} if (len(out) % 2) else [[a, b, c]])
    for a in [True, False, 1, 0, 1.0]:
        for b in [True, False, 1, 0, 1.0]:
            out.append({"flags": [a, a, a, b]})          # the odd one out comes last
            out.append([[a, b], {"x": [b, a]}])
    return out


def contexts(x: Any) -> List[Any]:
    """one scalar in every position a document can hold it: bare, array item (first / not first), member value, and the nine
    two-level combinations (a walk that treats "direct item of a list" differently from "value of a member" differs on one of these)"""
    return [x, [x], [0, x], [x, "s"], {"k": x}, {"a": 0, "k": x}, [[x]], [{"k": x}], {"k": [x]}, {"k": {"j": x}},
            [[0, [x]]], {"k": [{"j": [x]}]}, [[], [x]], {"k": [], "j": [x, x]}]


PV_CONTEXT_SCALARS = ["cb:1", "cb:0", "ci:1", "ci:0", "cu:1", "cd:4607182418800017408", "N", "cy:fbff", "cs:74",
                      "ct:2009.2.13.23.31.30.999999.0", "ct:999.1.1.0.0.0.0.-330", "cD:-1500000", "cD:1500000"]


def pv_contexts(x: str) -> List[str]:
    """the same for CEL values handed to the encoder (bool / uint / timestamp / duration / bytes in every position)"""
    return [x, f"cl:1 {x}", f"cl:2 ci:0 {x}", f"cl:2 {x} cs:74", f"cm:1 cs:6B {x}", f"cm:2 cs:61 ci:0 cs:6B {x}",
            f"cl:1 cl:1 {x}", f"cl:1 cm:1 cs:6B {x}", f"cm:1 cs:6B cl:1 {x}", f"cm:1 cs:6B cm:1 cs:6A {x}",
            f"cl:2 cl:0 cl:1 {x}", f"cm:1 cs:6B cl:1 cm:1 cs:6A cl:2 {x} {x}"]


def duration_grid() -> List[int]:
    """sign × whole seconds × sub-second part (the text is value-dependent: int() truncates, // floors, round() rounds, and the
    float quotient behind total_seconds() changes regime at 2^34 s)"""
    out = []
    for whole in [0, 1, 2, 59, 60, 3599, 3600, 86399, 86400, 2**31 - 1, 2**31, 2**33, 2**34 - 1, 2**34, 2**34 + 1, 2**35 + 1,
                  2**38, DUR_MAX_S - 1]:
        for frac in [0, 1, 499999, 500000, 500001, 999999]:
            for sign in (1, -1):
                us = sign * (whole * 10**6 + frac)
                if us not in out:
                    out.append(us)
    out += [DUR_MAX_S * 10**6, -DUR_MAX_S * 10**6]
    return out


LADDER_CLASSES = ["NoneType", "bool", "int", "float", "str", "bytes", "list", "tuple", "dict", "datetime", "timedelta", "object",
                  "BoolType", "IntType", "UintType", "DoubleType", "StringType", "BytesType", "ListType", "MapType",
                  "TimestampType", "DurationType"]


def ladder_instance(name: str) -> Any:
    from celpy import celtypes as ct
    now = datetime.datetime(2020, 1, 2, 3, 4, 5, tzinfo=datetime.timezone.utc)
    return {
        "NoneType": None, "bool": True, "int": 5, "float": 1.5, "str": "s", "bytes": b"b", "list": [], "tuple": (), "dict": {},
        "datetime": now, "timedelta": datetime.timedelta(seconds=3), "object": object(),
        "BoolType": ct.BoolType(True), "IntType": ct.IntType(5), "UintType": ct.UintType(5), "DoubleType": ct.DoubleType(1.5),
        "StringType": ct.StringType("s"), "BytesType": ct.BytesType(b"b"), "ListType": ct.ListType([]), "MapType": ct.MapType({}),
        "TimestampType": ct.TimestampType(now), "DurationType": ct.DurationType(datetime.timedelta(seconds=3)),
    }[name]


def depth_of(d: Any) -> int:
    if type(d) is list:
        return 1 + max([depth_of(x) for x in d], default=0)
    if type(d) is dict:
        return 1 + max([depth_of(x) for x in d.values()], default=0)
    return 0


def has_kind(d: Any, pred) -> bool:
    if pred(d):
        return True
    if type(d) is list:
        return any(has_kind(x, pred) for x in d)
    if type(d) is dict:
        return any(pred(k) or has_kind(x, pred) for k, x in d.items())
    return False


class C15(Prop):
    pid = "C15"
    manifest = dict(
        technique='Lean 4 theorems by structural induction over ALL JSON documents (mutual recursion over nested arrays/objects): json_to_cel = kind-directed specification, encode∘json_to_cel = id, navigation commutes with conversion for every valid path, base64 round trip for every byte string; over ALL CEL values (any nesting, bool/int/uint/string keys): CELJSONEncoder = kind-directed specification (booleans true/false in every position, timestamps/durations/bytes as text at any depth); int(total_seconds()) through an exact binary64 model = truncation toward zero for every |d| < 2^34 s; the isinstance ladders of json_to_cel / to_python / default (normalised: early returns, loops vs comprehensions, aliases, hoisted sub-expressions, one-expression helpers), encode, CELJSONDecoder.decode, DurationType.__str__, the wrapper base classes and valid_key_type regenerated from the source + bridge (bool tested before int); differential correspondence + independent oracle on generated documents, paths and CEL values through both runners',
        text='proof: for every document with int64 integers the model of adapter.json_to_cel (walking the ladder regenerated from adapter.py) yields the corresponding CEL types at every depth (booleans never integers), CELJSONEncoder writes back the original document, every valid .f / ["k"] / [i] path reaches the conversion of the same element, base64 decoding inverts the encoder for all byte strings, every well-formed CEL value encodes to its kind-directed document, and the seconds text of a duration is its exact truncation below 2^34 s (the float quotient modelled exactly beyond); float/string text is json\'s (trusted, corresponded)',
        note='Lean kernel; standard axioms; ladder extractor with a meaning-preserving normaliser; json text formatting/parsing, CPython dict/str/float, datetime.strftime, base64 compared through correspondence; evaluator navigation hand-modelled and tied by correspondence; lark',
        ref='DESIGN.md §5 C15')
    lean_targets = ["Cel.Props.C15", "Cel.Bridge.Json"]
    audit_namespaces = ["Cel.Props.C15", "Cel.Bridge"]
    gen_names = ["JsonLadder"]
    trusted = ["`json` (text formatting of floats/strings, parsing, the encoder's own isinstance ladder as modelled in jsonEnc), CPython dict ordering and str/int equality",
               "`datetime.strftime` (modelled by tsStr) and `timedelta.total_seconds` being the correctly rounded binary64 quotient µs/10^6 (modelled exactly by Cel.Time.totalSeconds, compared over the whole CEL duration range)",
               "`base64.b64encode` (modelled by b64encode, proved against its decoder, compared on generated byte strings)",
               "Evaluator.member_dot / member_index and the transpiled equivalents are hand-modelled (navCel) and tied by correspondence on both runners; lark parsing of the generated path expressions"]
    rule = ("random JSON documents (depth<=6; null/bool/int incl. int64 edges/float incl. -0.0, subnormals, 1e308/str incl. astral, control, quote "
            "characters/arrays/objects with keys from an adversarial pool incl. look-alikes, empty and reserved words) + exact-depth chains; each document: "
            "round trip through json_to_cel + CELJSONEncoder + json.loads, converted value with exact classes, the CELJSONDecoder path, and its valid paths "
            "(all if <=8, else a sample) evaluated as CEL on both runners, plus a few invalid paths; CEL values with timestamps/durations/bytes/uints and "
            "non-string keys through the encoder; byte strings through base64; one instance per class through the ladder; systematic families: arrays over every "
            "ordered pair/triple of scalar kinds (bare and nested), every scalar in every one- and two-level position (JSON side and CEL side), durations on a grid "
            "sign x whole seconds (0 .. 2^38, around 2^34) x sub-second part, fractional durations over the whole CEL range. "
            "non-trivial = distinct case whose document contains a bool, a float, a non-ASCII/control character or is nested >= 2 deep; a path of >= 2 steps; any enc/b64/ladder case")

    # ---- generation --------------------------------------------------------------------------------
    def generate(self, rng: random.Random, tier: str) -> Iterable[Dict[str, Any]]:
        quick = tier == "quick"
        cases: List[Dict[str, Any]] = []
        docs: List[Any] = []
        # every scalar edge once, bare and inside containers
        for v in [None, True, False] + INT_EDGES + FLOAT_EDGES + STR_POOL:
            docs.append(v)
        docs.append({k: i for i, k in enumerate(KEY_POOL)})
        docs.append({k: (i % 2 == 0) for i, k in enumerate(KEY_POOL)})
        docs.append([True, 1, 1.0, "1", False, 0, 0.0, -0.0, "", None, [], {}])
        docs.append({"a": {"a": {"a": [[[{"a": True}]]]}}})
        docs += [[], {}, [[]], [{}], {"": {}}, {"": []}, [[], [[]], {}], {"a": None}]
        for d in range(1, 7):
            docs.append(deep_chain(rng, d))
        n_docs = 600 if quick else 30000
        for i in range(n_docs):
            docs.append(gen_doc(rng, rng.choice([1, 2, 2, 3, 3, 4, 5, 6]), allow_big=True))
        npaths = 0
        # systematic families: conversion + round trip only (their paths are short and of the shapes navigated elsewhere)
        light: List[Any] = mixed_arrays()
        for x in CONTEXT_SCALARS:
            light += contexts(x)
        for d in light:
            cases.append({"kind": "rt", "doc": d})
            cases.append({"kind": "conv", "doc": d})
        for i, d in enumerate(light):
            if i % 7 == 0:
                cases.append({"kind": "dec", "doc": d, "ascii": i % 2 == 0})
        # a random document whose arrays mix scalar kinds in random order, at random depth
        for i in range(60 if quick else 3000):
            arr = [rng.choice(PAIR_POOL[:12]) for _ in range(rng.randint(2, 6))]
            d = arr
            for _ in range(rng.randint(0, 3)):
                d = {rng.choice(KEY_POOL): d} if rng.random() < 0.5 else [rng.choice(PAIR_POOL[:12]), d]
            cases.append({"kind": "rt", "doc": d})
            cases.append({"kind": "conv", "doc": d})
        for d in docs:
            cases.append({"kind": "rt", "doc": d})
            cases.append({"kind": "conv", "doc": d})
            if rng.random() < 0.5:
                cases.append({"kind": "dec", "doc": d, "ascii": rng.random() < 0.5})
            if not ints_in_range(d):
                continue
            paths = [p for p in all_paths(d) if p]
            if len(paths) > 8:
                paths = rng.sample(paths, 8 if quick else min(16, len(paths)))
            for p in paths:
                sp = style_path(rng, p)
                cases.append({"kind": "nav", "doc": d, "path": sp, "runner": rng.choice("IC")})
                npaths += 1
            if paths and rng.random() < 0.3:
                # an invalid continuation: missing key / index past the end / field on a non-object
                p = list(style_path(rng, rng.choice(paths)))
                p[-1] = rng.choice([["k", "no such key"], ["x", 99], ["f", "nosuch"]])
                cases.append({"kind": "nav", "doc": d, "path": p, "runner": rng.choice("IC")})
        # every key of the pool through ["key"] in every literal style (u: \\u escapes, n: natural escapes, s: single quotes, r: raw)
        pool_doc = {k: i for i, k in enumerate(KEY_POOL)}
        for i, k in enumerate(KEY_POOL):
            for st in "unsr":
                cases.append({"kind": "nav", "doc": pool_doc, "path": [["k", k, st]], "runner": "IC"[(i + ord(st)) % 2]})
        for i in range(250 if quick else 5000):
            cases.append({"kind": "enc", "pv": gen_pv(rng, rng.choice([0, 0, 1, 2, 3]))})
        for x in PV_CONTEXT_SCALARS:
            for pv in pv_contexts(x):
                cases.append({"kind": "enc", "pv": pv})
        for us in duration_grid():
            cases.append({"kind": "enc", "pv": f"cD:{us}"})
        for n in list(range(0, 14)) + [31, 32, 33, 57, 58, 255, 256]:
            for fill in (0x00, 0xFF, None):
                b = bytes(rng.getrandbits(8) for _ in range(n)) if fill is None else bytes([fill] * n)
                cases.append({"kind": "b64", "hex": b.hex()})
        for i in range(100 if quick else 3000):
            b = bytes(rng.getrandbits(8) for _ in range(rng.randint(0, 64)))
            cases.append({"kind": "b64", "hex": b.hex()})
        for c in LADDER_CLASSES:
            cases.append({"kind": "ladder", "cls": c})
        return cases

    # ---- implementation ------------------------------------------------------------------------------
    def impl(self, c: Dict[str, Any]) -> str:
        from celpy.adapter import json_to_cel, CELJSONEncoder, CELJSONDecoder
        import celpy
        from celpy.evaluation import CELEvalError
        k = c["kind"]
        try:
            if k == "rt":
                text = json.dumps(json_to_cel(c["doc"]), cls=CELJSONEncoder)
                return "ok " + json_tokens(json.loads(text))
            if k == "conv":
                return "ok " + pv_tokens(json_to_cel(c["doc"]))
            if k == "dec":
                text = json.dumps(c["doc"], ensure_ascii=c.get("ascii", True))
                return "ok " + pv_tokens(json.loads(text, cls=CELJSONDecoder))
            if k == "enc":
                v, _ = pv_build(c["pv"].split(" "))
                return "ok " + json_tokens(json.loads(json.dumps(v, cls=CELJSONEncoder)))
            if k == "b64":
                from celpy import celtypes as ct
                text = json.dumps(ct.BytesType(bytes.fromhex(c["hex"])), cls=CELJSONEncoder)
                return "ok " + json.loads(text)
            if k == "ladder":
                r = json_to_cel(ladder_instance(c["cls"]))
                return "ok " + type(r).__name__
            if k == "nav":
                v = json_to_cel(c["doc"])
                runner = {"I": celpy.InterpretedRunner, "C": celpy.CompiledRunner}[c["runner"]]
                env = celpy.Environment(annotations={"doc": celpy.celtypes.MapType}, runner_class=runner)
                prog = env.program(env.compile(path_expr(c["path"])))
                try:
                    r = prog.evaluate({"doc": v})
                except CELEvalError:
                    return "raise CELEvalError"
                if isinstance(r, CELEvalError):
                    return "raise CELEvalError"
                return "ok " + pv_tokens(r)
        except Exception as ex:  # noqa
            return "raise " + type(ex).__name__
        return "bad-kind"

    # ---- model -------------------------------------------------------------------------------------------
    def model_line(self, c):
        k = c["kind"]
        if k == "rt":
            return "rt " + json_tokens(c["doc"])
        if k in ("conv", "dec"):
            return "conv " + json_tokens(c["doc"])
        if k == "enc":
            return "enc " + c["pv"]
        if k == "b64":
            return "b64 " + (c["hex"] or "-")
        if k == "ladder":
            return "ladder " + c["cls"]
        if k == "nav":
            steps = " ".join((f"{t}:{enc_str(a)}" if t in ("f", "k") else f"x:{a}") for t, a, *_ in c["path"])
            return "nav " + json_tokens(c["doc"]) + (" " + steps if steps else "")
        return None

    def model_expect(self, c, m):
        if c["kind"] == "b64" and m == "ok":
            return "ok "
        return m

    # ---- oracle --------------------------------------------------------------------------------------------
    def oracle(self, c, out):
        k = c["kind"]
        if k in ("rt", "conv", "dec", "nav"):
            d = c["doc"]
            if not ints_in_range(d):
                return None           # outside the statement ("integers within int64")
        if k == "rt":
            if not out.startswith("ok "):
                return f"json_to_cel + CELJSONEncoder failed on an in-range document: {out}"
            if out[3:] != json_tokens(c["doc"]):
                return f"round trip changed the document: {json.dumps(c['doc'])[:200]} came back as tokens {out[3:][:200]}"
            return None
        if k in ("conv", "dec"):
            exp = "ok " + ref_cel_tokens(c["doc"])
            if out != exp:
                return f"json_to_cel gave {out[:200]}; the kinds of the document require {exp[:200]}"
            return None
        if k == "nav":
            ok, sub = navigate(c["doc"], c["path"])
            if not ok:
                return None           # the statement is about valid paths
            exp = "ok " + ref_cel_tokens(sub)
            if out != exp:
                return (f"runner {c['runner']}: {path_expr(c['path'])} on the converted document gave {out[:200]}; the same path in the "
                        f"JSON document reaches {json.dumps(sub)[:120]} = {exp[:200]}")
            return None
        if k == "enc":
            want, _ = ref_encode(c["pv"].split(" "))
            exp = "ok " + json_tokens(want)
            if out != exp:
                return f"CELJSONEncoder wrote {out[:200]} for {c['pv'][:120]}; expected {exp[:200]}"
            return None
        if k == "b64":
            b = bytes.fromhex(c["hex"])
            if out != "ok " + ref_b64(b):
                return f"bytes {c['hex'][:60]} encoded as {out[:80]}; RFC 4648 gives {ref_b64(b)[:80]}"
            return None
        if k == "ladder":
            if c["cls"] == "bool" and out != "ok BoolType":
                return f"a Python bool converts to {out}, not BoolType"
            return None
        return None

    def nontrivial(self, c, out):
        k = c["kind"]
        if k in ("rt", "conv", "dec"):
            d = c["doc"]
            return (depth_of(d) >= 2 or has_kind(d, lambda x: type(x) in (bool, float))
                    or has_kind(d, lambda x: type(x) is str and any(ord(ch) > 126 or ord(ch) < 32 for ch in x)))
        if k == "nav":
            return len(c["path"]) >= 2
        return True


PROP = C15()
