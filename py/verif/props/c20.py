"""C20 — CLI output and exit status reflect the evaluation result."""
from __future__ import annotations
import contextlib
import io
import json
import os
import random
import re
import subprocess
import zlib
import sys
from typing import Any, Dict, Iterable, List, Optional, Tuple

from ..core import Prop, REPO

LOC = re.compile(r"ERROR: <input>:(\d+|\?):(\d+|\?)")      # `?` = the report of an error that carries no source position


# --------------------------------------------------------------------------------------------------
# running the real CLI
# --------------------------------------------------------------------------------------------------

def argv_of(c: Dict[str, Any]) -> List[str]:
    argv: List[str] = []
    if c["mode"] == "n":
        argv.append("-n")
    elif c["mode"] == "s":
        argv.append("-s")
    if c.get("b"):
        argv.append("-b")
    pd = c.get("pd")
    if pd:
        for flag, name in (pd if isinstance(pd[0], list) else [pd]):
            argv += ["-p" if flag == "p" else "-d", name]
    for name, typ, text in c.get("args", []):
        a = name
        if typ is not None:
            a += ":" + typ
        if text is not None:
            a += "=" + text
        argv += ["-a", a]
    argv.append("--")
    if c.get("expr") is not None:
        argv.append(c["expr"])
    return argv


def canon(status: Any, out_text: str, err_text: str) -> str:
    m = LOC.search(err_text or "")
    lines = out_text.split("\n")
    if lines and lines[-1] == "":
        lines.pop()
    return f"status={status}|loc={m.group(1) + ':' + m.group(2) if m else '-'}|out={json.dumps(lines)}"


def run_inprocess(argv: List[str], stdin_text: str) -> str:
    import celpy.__main__ as cm
    out, err = io.StringIO(), io.StringIO()
    old_in = sys.stdin
    sys.stdin = io.StringIO(stdin_text)
    status: Any
    try:
        with contextlib.redirect_stdout(out), contextlib.redirect_stderr(err):
            try:
                status = cm.main(argv)
            except SystemExit as ex:
                status = ex.code
            except Exception as ex:  # noqa
                status = "raise " + type(ex).__name__
    finally:
        sys.stdin = old_in
    return canon(status, out.getvalue(), err.getvalue())


def run_subprocess(argv: List[str], stdin_text: str) -> str:
    env = dict(os.environ)
    env["PYTHONPATH"] = str(REPO / "src")
    env["PYTHONIOENCODING"] = "utf-8"
    p = subprocess.run(["/venv/bin/python", "-m", "celpy"] + argv, input=stdin_text.encode("utf-8"),
                       capture_output=True, env=env, timeout=60, cwd="/tmp")
    out, err = p.stdout.decode("utf-8"), p.stderr.decode("utf-8")
    status: Any = p.returncode
    if "Traceback (most recent call last)" in err:
        last = [l for l in err.strip().splitlines() if l and not l.startswith(" ")][-1]
        status = "raise " + last.split(":")[0].split(".")[-1]
    return canon(status, out, err)


def run_split(text: str) -> str:
    """the documents the REAL `main` cuts stdin into (NDJSON mode): `process_json_doc` is replaced by a recorder, so the lengths are
    those of the `document` strings the loop of main() hands over"""
    import celpy.__main__ as cm
    seen: List[int] = []

    def recorder(display, prgm, activation, variable, document, boolean_to_status=False):
        seen.append(len(document))
        return 0
    old, old_in = cm.process_json_doc, sys.stdin
    cm.process_json_doc = recorder
    sys.stdin = io.StringIO(text)
    try:
        with contextlib.redirect_stdout(io.StringIO()), contextlib.redirect_stderr(io.StringIO()):
            try:
                cm.main(["--", "true"])
            except SystemExit as ex:
                return f"exit {ex.code}"
            except Exception as ex:  # noqa
                return "raise " + type(ex).__name__
    finally:
        cm.process_json_doc, sys.stdin = old, old_in
    if not seen and text:
        return "unobserved"          # main() did not go through the module-level process_json_doc (renamed / inlined): no observation point
    return " ".join(str(n) for n in seen)


def split_lines(text: str) -> List[str]:
    """the way `for document in sys.stdin` cuts the input"""
    return re.findall(r"[^\n]*\n|[^\n]+", text)


# --------------------------------------------------------------------------------------------------
# the library-API view of a case (independent of celpy.__main__)
# --------------------------------------------------------------------------------------------------

def arg_converters():
    """the documented `--arg` type names → conversion of the text, written against celtypes (not CLI_ARG_TYPES)"""
    import ast as pyast
    from celpy import celtypes as ct
    conv = {
        "int": ct.IntType, "uint": ct.UintType, "double": ct.DoubleType, "bool": ct.BoolType, "string": ct.StringType,
        "bytes": ct.BytesType, "list": lambda t: ct.ListType(pyast.literal_eval(t)), "map": lambda t: ct.MapType(pyast.literal_eval(t)),
        "null_type": lambda t: None, "single_duration": ct.DurationType, "single_timestamp": ct.TimestampType,
        "int64_value": ct.IntType, "uint64_value": ct.UintType, "double_value": ct.DoubleType, "bool_value": ct.BoolType,
        "string_value": ct.StringType, "bytes_value": ct.BytesType, "number_value": ct.DoubleType, "null_value": lambda t: None,
    }
    return conv


def ref_to_cel(d: Any) -> Any:
    """the CEL value of a JSON document, by kind — the oracle's own conversion (adapter.json_to_cel is part of the code under
    test here: a conversion that carries state between documents breaks line independence)"""
    from celpy import celtypes as ct
    if d is None:
        return None
    if d is True or d is False:
        return ct.BoolType(d)
    if type(d) is int:
        return ct.IntType(d)
    if type(d) is float:
        return ct.DoubleType(d)
    if type(d) is str:
        return ct.StringType(d)
    if type(d) is list:
        return ct.ListType([ref_to_cel(x) for x in d])
    if type(d) is dict:
        return ct.MapType({ct.StringType(k): ref_to_cel(v) for k, v in d.items()})
    raise TypeError(type(d))


def ref_key_text(k: Any) -> str:
    """member name json gives a map key, by kind (json: str as is, bool -> true/false, None -> null, int/float -> their repr)"""
    from celpy import celtypes as ct
    if k is None:
        return "null"
    if isinstance(k, (ct.BoolType, bool)):
        return "true" if k else "false"
    if isinstance(k, int):
        return int.__repr__(k)
    if isinstance(k, float):
        return json.dumps(float(k))
    if isinstance(k, str):
        return str.__str__(k)
    raise TypeError(f"keys must be str, int, float, bool or None, not {type(k).__name__}")


def ref_json_text(v: Any) -> str:
    """the JSON text of a CEL value, by kind — the oracle's own serialiser (adapter.CELJSONEncoder is code under test:
    `celpy EXPR` must print the JSON serialisation of the value).  Only scalars go through `json.dumps` (native str / float);
    the layout is json's default one (`, ` and `: `)."""
    import base64
    from celpy import celtypes as ct
    if v is None:
        return "null"
    if isinstance(v, (ct.BoolType, bool)):
        return "true" if v else "false"
    if isinstance(v, int):
        return int.__repr__(v)
    if isinstance(v, float):
        return json.dumps(float(v))
    if isinstance(v, (ct.TimestampType, ct.DurationType)):
        return json.dumps(str(v))
    if isinstance(v, (bytes, bytearray)):
        return json.dumps(base64.b64encode(bytes(v)).decode("ascii"))
    if isinstance(v, str):
        return json.dumps(str.__str__(v))
    if isinstance(v, (list, tuple)):
        return "[" + ", ".join(ref_json_text(x) for x in v) + "]"
    if isinstance(v, dict):
        return "{" + ", ".join(json.dumps(ref_key_text(k)) + ": " + ref_json_text(x) for k, x in v.items()) + "}"
    raise TypeError(f"Object of type {type(v).__name__} is not JSON serializable")


def analyse(c: Dict[str, Any]) -> Dict[str, Any]:
    """argsOk / compiles / per-line outcome tokens and texts, through Environment / program / evaluate"""
    import celpy
    from celpy import celtypes as ct
    from celpy.evaluation import CELEvalError
    res: Dict[str, Any] = {"argsOk": True, "compiles": True, "loc": "-", "tokens": [], "texts": {}, "var": "jq"}
    pd = c.get("pd")
    flags = (pd if pd and isinstance(pd[0], list) else ([pd] if pd else []))
    pk = [n for f, n in flags if f == "p"]
    dc = [n for f, n in flags if f == "d"]
    if (pk and dc) or not c.get("expr"):       # `if not options.expr: parser.error("No expression provided")`
        res["argsOk"] = False
        return res
    package = pk[0] if pk else (None if dc else "jq")
    var = dc[0] if dc else package
    res["var"] = var
    conv = arg_converters()
    activation: Dict[str, Any] = {}
    annotations: Dict[str, Any] = {}
    for name, typ, text in c.get("args", []):
        if typ is None:
            activation[name] = ct.StringType(text or "")
            annotations[name] = ct.StringType
            continue
        if typ not in conv:
            res["argsOk"] = False
            return res
        try:
            activation[name] = conv[typ](text)
        except ValueError:
            res["argsOk"] = False
            return res
        annotations[name] = conv[typ] if isinstance(conv[typ], type) else ct.FunctionType
    null_in = c["mode"] == "n"

    def fresh():
        env = celpy.Environment(package=None if null_in else package, annotations=dict(annotations))
        return env, env.program(env.compile(c["expr"]))

    try:
        fresh()
    except celpy.CELParseError as ex:
        res["compiles"] = False
        res["loc"] = f"{ex.line}:{ex.column}"
        return res
    except Exception as ex:  # noqa  -- compile()/program() let something else escape: the model has no say, the oracle decides
        res["compiles"] = False
        res["compile_escape"] = type(ex).__name__
        return res

    def outcome(act: Dict[str, Any], i: int) -> str:
        env, prog = fresh()           # a fresh environment and program for every document
        try:
            v = prog.evaluate(act)
        except CELEvalError as ex:
            res["eloc"] = f"{ex.line or '?'}:{ex.column or '?'}"      # an error built without a parse-tree node has no position: reported as ?:?
            return "E"
        except Exception as ex:  # noqa
            return "R:" + type(ex).__name__
        if isinstance(v, (ct.BoolType, bool)):
            return "T" if v else "F"
        try:
            res["texts"][f"V{i}"] = ref_json_text(v)
        except Exception as ex:  # noqa
            # a value JSON cannot spell (a type, a function): serialising it raises — but `-n -b` never serialises, it only
            # asks whether the value is a boolean, so there the value is an ordinary non-boolean value (status 2)
            if null_in and c.get("b"):
                res["texts"][f"V{i}"] = ""
                return f"V{i}"
            return "R:" + type(ex).__name__
        return f"V{i}"

    if null_in:
        res["tokens"] = [outcome(dict(activation), 0)]
        return res
    texts = [c["stdin"]] if c["mode"] == "s" else split_lines(c["stdin"])
    for i, t in enumerate(texts):
        try:
            doc = json.loads(t)
        except json.JSONDecodeError:
            res["tokens"].append("M")
            continue
        try:
            v = ref_to_cel(doc)
        except Exception as ex:  # noqa
            res["tokens"].append("X:" + type(ex).__name__)
            continue
        act = dict(activation)
        act[var] = v
        res["tokens"].append(outcome(act, i))
    return res


# --------------------------------------------------------------------------------------------------
# generators
# --------------------------------------------------------------------------------------------------

FIELDS = ["a", "b", "s", "l", "f", "o"]
# characters some line-splitting primitive other than "cut after \\n" treats as a line boundary (str.splitlines: VT FF FS GS RS NEL LS PS),
# other Unicode blanks, a BOM.  U+0085 / U+2028 / U+2029 are legal RAW inside a JSON string (what any encoder with
# ensure_ascii=False emits); the C0 ones are legal only escaped (json.dumps always escapes them).
SEP_CHARS = ["\u0085", "\u2028", "\u2029", "\x0b", "\x0c", "\x1c", "\x1d", "\x1e"]
ODD_STRINGS = ["a\u2028b", "\u2029", "x\u0085y", "\u2028\u2029\u0085", "nb\u00a0sp", "\ufeffbom", "wide\u3000space", "v\x0bt", "f\x0cf", "\x1c\x1d\x1e",
               "del\x7f", "tab\there", "cr\rlf", "\u00e9\u2028"]


def gen_obj(rng: random.Random) -> Any:
    d: Dict[str, Any] = {}
    for k in FIELDS:
        r = rng.random()
        if r < 0.06:
            continue                                    # missing field: the expression errors on this document
        if r < 0.1:                                     # wrong kind
            d[k] = rng.choice([None, "str", 1.5, [], {}, True, 7])
            continue
        if k in ("a", "b"):
            d[k] = rng.choice([0, 1, 2, 3, -1, 10, 2**31, 2**62, -2**63, 2**63 - 1, rng.randint(-100, 100)])
        elif k == "s":
            d[k] = rng.choice(["", "hi", "hello", "a b", "\u00e9", "\U0001F431", "x\"y", "line\nbreak", "h"] if rng.random() < 0.8 else ODD_STRINGS)
        elif k == "l":
            d[k] = [rng.randint(-3, 9) for _ in range(rng.choice([0, 1, 2, 3, 5]))]
        elif k == "f":
            d[k] = rng.random() < 0.5
        else:
            d[k] = {"x": rng.randint(0, 5)} if rng.random() < 0.8 else {}
            if rng.random() < 0.08:
                d[k][rng.choice(ODD_STRINGS)] = rng.choice(ODD_STRINGS)
    return d


def gen_doc(rng: random.Random) -> Any:
    r = rng.random()
    if r < 0.9:
        return gen_obj(rng)
    return rng.choice([[1, 2], [], 7, "text", None, True, 1.5, {}, [{"a": 1}], {"a": {"b": 2}}])


MALFORMED = ["not json", "{", "[1,", "{'a': 1}", "{\"a\": }", "tru", "}{", "\"open", "1 2", "{\"a\": 1} trailing", "[1 2]", "01", "--1", "{\"a\":1,}",
             # a complete value followed by something; values glued with a character that is NOT a JSON blank / line end for `for line in stdin`
             "{\"a\": 1}{\"a\": 2}", "{\"a\": 1},", "{\"a\": 1}]", "2 3", "[1] x", "{\"a\": 1}\u2028{\"a\": 2}", "{\"a\": 1}\x0c{\"a\": 2}",
             "{\"a\": 1}\u0085", "1\x1e2", "{\"a\": 1}\u2029", "\ufeff{\"a\": 1}", "{\"s\": \"raw\x0cff\"}", "{\"s\": \"raw\x1ers\"}", "\u00a0{\"a\": 1}"]
BLANK = ["", " ", "\t", "   "]

BOOL_T = ["{P}a > {P}b", "{P}a == 1", "{P}f", "!{P}f", "{P}f && {P}a > 0", "{P}f || {P}b < 0", "{P}s == \"hi\"", "{P}s.startsWith(\"h\")",
          "{P}l.size() > 1", "size({P}l) == 0", "{P}l.all(x, x >= 0)", "{P}l.exists(x, x > 5)", "2 in {P}l", "has({Q}a)", "has({Q}o.x)",
          "{P}a / {P}b > 0", "{P}l[0] == 1", "{P}o.x < 3", "{P}a > 0 ? {P}f : false", "{P}a + {P}b == 3", "{P}s.size() == 2",
          "{P}s.contains(\"l\")", "{P}l.exists_one(x, x == 2)", "{P}a != {P}b && {P}s != \"\"", "true", "false", "1 < 2", "{P}zz", "{P}a >= 9223372036854775807"]
OTHER_T = ["{P}a + {P}b", "{P}a * 2", "{P}a - {P}b", "{P}a % 3", "{P}a / {P}b", "-{P}a", "{P}s", "{P}s + \"!\"", "{P}s + {P}s", "{P}l", "{P}l.map(x, x * 2)",
           "{P}l.filter(x, x > 1)", "{P}l + [0]", "[{P}a, {P}b]", "{P}l[0]", "{P}l[1] + {P}a", "{P}o", "{P}o.x", "{P}s.size()", "size({P}l)",
           "{P}a > 0 ? \"pos\" : \"neg\"", "{P}f ? {P}a : {P}b", "{{\"k\": {P}a}}", "{P}zz", "{P}a + 9223372036854775807", "string({P}a)", "int({P}s)",
           "1 + 2", "\"lit\"", "[1, 2, 3]", "1 / 0", "{P}a + 1.5", "{P}l.map(x, x / {P}a)", "null", "{D}",
           # values of every kind in every position of the result (map key, map value, list element, nested)
           "{{{P}f: {P}a}}", "{{{P}a: {P}s}}", "{{{P}s: {P}o}}", "{P}l.map(x, {{x: x > 1}})", "{P}l.map(x, {{x > 1: x}})", "{{\"k\": {{{P}f: [{P}f, !{P}f]}}}}",
           "{{!{P}f: null, {P}s: {P}f}}", "[{{true: {P}s}}, {{1: {P}f}}, {{2u: {P}a}}]", "{{1.5: {P}a, {P}a + 0.5: {P}b}}", "[{P}s, bytes({P}s), double({P}a), uint({P}l.size())]",
           "{{{P}f: {{{P}f: {{{P}f: {P}l}}}}}}", "{{\"t\": timestamp(\"2020-01-02T03:04:05Z\") + duration(string({P}l.size()) + \"s\")}}", "{VAL}", "{VAL}", "{VAL}", "{VAL}"]
NULL_BOOL = ["1 < 2", "2 < 1", "true", "false", "!true", "1 == 1 && 2 == 2", "\"a\" < \"b\"", "[1, 2].all(x, x > 0)", "[1, 2].exists(x, x > 5)",
             "2 in [1, 2]", "\"abc\".startsWith(\"a\")", "size([1]) == 1", "1 / 0 > 1", "[1][5] == 1", "1 > 2 || 3 > 2", "true ? false : true"]
NULL_OTHER = ["1 + 2", "6 * 7", "7 / 2", "-7 % 3", "\"a\" + \"b\"", "[1, 2] + [3]", "[1, 2, 3].map(x, x * x)", "[3, 1, 2].filter(x, x > 1)", "size(\"abc\")",
              "\"x\"", "[]", "[[1], []]", "1 / 0", "[1][3]", "9223372036854775807 + 1", "1 > 0 ? \"y\" : \"n\"", "3u + 4u", "1.5", "2.0 * 3.0", "null",
              "{\"a\": 1}", "{}.a", "int(\"12\")", "string(42)", "\"\\u00e9\"", "b\"abc\"", "duration(\"90s\")", "timestamp(\"2020-01-02T03:04:05Z\")", "-(-9223372036854775807 - 1)"]
SYNTAX_ERRORS = ["1 +", "(1", "1 2", "[1,", "a b", ".a ..b", "1 ? 2", "\"open", "{1:}", "1 + * 2", ")", "", " ", "x.", "1 +\n", "a.map(", "&& true", "1 = 2", "'a' 'b'", "[1, 2,, 3]",
                 "true &&\n  (1 <", "f(,)",
                 # lexer level: characters no terminal starts with, unterminated literals
                 "1 + @", "#", "$", "`", "|", "1 | 2", "1 & 2", "a $ b", "~1", "1 + \\", "'open", "\"unterminated", "b\"open", "r'open",
                 "\"\"\"never closed", ".a @ .b", "1 ^ 2", "x = = 1", "1 + \u00e9@"]

# evaluation errors by ORIGIN.  What `main` does with a CELEvalError (report it, status 2) must not depend on where the error object was made:
# at a parse-tree node (operators, member / index access, unknown names: the error carries line:column), inside a function body that RETURNS an
# error value, inside a macro that folds error values (all / exists), in `in`, in a conversion, in map construction; such errors may carry no
# source position, a different message type, a cause.  Kernels are grouped by origin; ERR_CONTEXTS put a kernel where the error is
# propagated, absorbed (short circuit) or re-made by an enclosing node.
ERR_KERNELS = [
    # operator / access at a tree node
    "1 / 0", "1 % 0", "9223372036854775807 + 1", "1u - 2u", "-(-9223372036854775807 - 1)", "zz", "{\"a\": 1}.b", "[1][5]", "{\"a\": 1}[1]", "[1][\"a\"]",
    "1 + \"a\"", "-\"a\"", "!1", "1 ? 2 : 3", "1 in 2", "nosuch(1)", "\"a\" % 1", "duration(\"1s\") + 1", "timestamp(\"9999-12-31T23:59:59Z\") + duration(\"1h\")",
    # function body (the function returns / raises the error itself)
    "has()", "size(1)", "\"a\".startsWith(1)", "\"a\".size(1)", "\"abc\".matches(1)", "\"a\".matches(\"(\")", "bytes(1)", "getDate{}",
    "timestamp(\"2020-01-01T00:00:00Z\").getHours(\"Nowhere/Zone\")",
    # conversions
    "int(\"x\")", "uint(-1)", "int(1e100)", "double(\"x\")", "bool(\"x\")", "timestamp(\"x\")", "duration(\"x\")",
    # macro bodies: the error is made inside the fold over the elements
    "[1, 2].all(x, x / 0 > 1)", "[1, 2].exists(x, x / 0 > 1)", "[1, 2].exists_one(x, x / 0 > 1)", "[1, 2].map(x, x / 0)", "[1, 2].filter(x, x / 0 > 1)",
    "[1, 2].all(x, y)", "[1, 2].exists(x, x + \"a\" == \"a\")", "[1].all(x, zz)", "{1: 2}.all(k, k / 0 > 0)", "[[1]].all(x, x.all(y, y / 0 > 1))",
    "[0, 1].exists(x, 1 / x > 5)", "[1, 0].all(x, 1 / x > 5)",
    # membership
    "\"a\" in {1: 2}", "1 in {\"a\": 1}", "[1] in {1: 2}",
    # map construction
    "{1: 2, 1: 3}", "{[1]: 2}",
]
ERR_CONTEXTS = ["$K", "($K)", "[$K]", "[1, $K]", "{\"k\": $K}", "{$K: 1}", "true ? $K : 1", "false ? 1 : $K", "($K) == ($K)", "true && ($K)", "false || ($K)",
                "false && ($K)", "true || ($K)", "($K) || true", "($K) && false", "($K) > 1 ? 1 : 2", "type($K)", "size([$K])", "[1].map(x, $K)",
                "[1, 2].all(x, $K)", "[1, 2].exists(x, $K)", "[1].all(x, [1].all(y, $K))", "[$K].size() == 1", "has({\"a\": $K}.a)", "dyn($K)",
                "($K) in [1]", "1 in [$K]"]
# the same on documents: the expression errors (position-less) on some documents of the stream only
ERR_DOC_T = ["{P}l.all(x, x / 0 > 1)", "{P}l.exists(x, x / {P}a > 1)", "{P}l.all(x, 10 / x > 1)", "{P}s in {{1: 2}}", "{P}a in {{\"a\": 1}}", "{P}l.all(x, x + {P}s == {P}s)",
             "{P}a > 0 ? has() : {P}f", "{P}s.startsWith({P}a)", "size({P}a) > 0", "{P}l.map(x, x / {P}b)", "{P}l.exists(x, y)", "{P}a in {P}o"]

ARG_SAMPLES = [
    ("int", ["5", "-3", "0", "9223372036854775807", "0x10"]), ("uint", ["5", "0", "18446744073709551615"]), ("double", ["1.5", "-0.0", "1e10", "3"]),
    ("bool", ["true", "false", "True", "f", "t"]), ("string", ["hi", "", "a b", "x=y", "\u00e9"]), ("bytes", ["abc", ""]),
    ("list", ["[1, 2]", "[]", "['a', 'b']"]), ("map", ["{'a': 1}", "{}"]), ("null_type", ["x", ""]), ("single_duration", ["90s", "1h", "1.5s", "-2m"]),
    ("single_timestamp", ["2020-01-02T03:04:05Z", "2009-02-13T23:31:30+05:30"]), ("int64_value", ["7"]), ("uint64_value", ["7"]), ("double_value", ["2.5"]),
    ("bool_value", ["true", "false"]), ("string_value", ["s"]), ("bytes_value", ["xyz"]), ("number_value", ["4", "4.5"]), ("null_value", ["x"]),
    (None, ["plain", "", "a=b"]),
]
BAD_ARGS = [("nosuch", "1"), ("Int", "1"), ("int", "abc"), ("int", "1.5"), ("uint", "-1"), ("int", "9223372036854775808"), ("double", "x"),
            ("single_duration", "forever"), ("uint", "18446744073709551616"), ("int", "")]
ARG_EXPR = {
    "int": ["x + 1", "x > 0", "x", "x * x"], "uint": ["x", "x + 1u", "x > 0u"], "double": ["x", "x * 2.0", "x > 0.0"], "bool": ["x", "!x", "x && true"],
    "string": ["x", "x + \"!\"", "x.size()", "x == \"hi\""], "bytes": ["x", "size(x)"], "list": ["x", "size(x)"], "map": ["x", "size(x)"],
    "null_type": ["x", "x == null"], "single_duration": ["x", "x > duration(\"1s\")"], "single_timestamp": ["x", "x > timestamp(\"2000-01-01T00:00:00Z\")"],
    "int64_value": ["x + 1"], "uint64_value": ["x"], "double_value": ["x"], "bool_value": ["x", "!x"], "string_value": ["x"], "bytes_value": ["x"],
    "number_value": ["x"], "null_value": ["x"], None: ["x", "x + \"?\"", "x == \"plain\""],
}


def cel_str(t: str) -> str:
    """a CEL string literal denoting t"""
    out = []
    for ch in t:
        o = ord(ch)
        if ch in "\\\"":
            out.append("\\" + ch)
        elif 0x20 <= o < 0x7f:
            out.append(ch)
        elif o <= 0xffff:
            out.append("\\u%04x" % o)
        else:
            out.append("\\U%08x" % o)
    return '"' + "".join(out) + '"'


VAL_STRINGS = ["", "a", "hi there", "x\"y", "back\\slash", "\u00e9", "\U0001F431", "line\nbreak", "nul\x00", "true", "1", "</script>"] + ODD_STRINGS[:6]
VAL_INTS = ["0", "1", "-1", "42", "-7", "9223372036854775807", "-9223372036854775807", "1099511627776"]
VAL_UINTS = ["0u", "1u", "7u", "18446744073709551615u"]
VAL_DOUBLES = ["1.5", "-0.0", "0.0", "1e100", "2.5e-7", "3.0", "-123.456", "1.0 / 0.0", "-1.0 / 0.0", "1e22", "0.1 + 0.2"]
VAL_BYTES = ['b""', 'b"abc"', 'b"\\xff\\x00"', 'b"\u00e9"']
VAL_TIMES = ['timestamp("2020-01-02T03:04:05Z")', 'timestamp("2009-02-13T23:31:30.5+05:30")', 'timestamp("0001-01-01T00:00:00Z")',
             'duration("90s")', 'duration("0s")', 'duration("-1.5s")', 'duration("1h30m")']
# map keys: one pool per key kind; pools are disjoint as Python dict keys (True == 1, hash("") == hash(0)), so every literal is a valid map
KEY_POOLS = {"bool": ["true", "false"], "int": ["2", "3", "-7", "1099511627776", "9223372036854775807"], "uint": ["5u", "11u", "18446744073709551615u"],
             "string": None, "double": ["1.5", "-2.25", "1e100"]}


def gen_value(rng: random.Random, depth: int, leaf: Optional[List[str]] = None, bool_leaf: Optional[str] = None) -> str:
    """CEL text of a value of a random kind: every scalar kind, lists, maps keyed by bool / int / uint / string (/ double), nested.
    `leaf`: extra sub-expressions (document fields) used as elements, values and keys."""
    r = rng.random()
    if depth <= 0 or r < 0.45:
        k = rng.choice(["bool", "int", "uint", "double", "string", "string", "bytes", "null", "time"] + (["leaf", "leaf", "leaf"] if leaf else []))
        if k == "bool":
            return rng.choice(["true", "false"])
        if k == "int":
            return rng.choice(VAL_INTS)
        if k == "uint":
            return rng.choice(VAL_UINTS)
        if k == "double":
            return rng.choice(VAL_DOUBLES)
        if k == "string":
            return cel_str(rng.choice(VAL_STRINGS))
        if k == "bytes":
            return rng.choice(VAL_BYTES)
        if k == "null":
            return "null"
        if k == "leaf":
            return rng.choice(leaf)
        return rng.choice(VAL_TIMES)
    if r < 0.68:
        return "[" + ", ".join(gen_value(rng, depth - 1, leaf, bool_leaf) for _ in range(rng.choice([0, 1, 2, 3]))) + "]"
    kinds = rng.choice([["bool"], ["int"], ["uint"], ["string"], ["string"], ["bool", "string"], ["int", "string"], ["bool", "int", "uint", "string"], ["double"]])
    keys: List[str] = []
    for kk in kinds:
        pool = KEY_POOLS[kk] or [cel_str(x) for x in VAL_STRINGS]
        keys += rng.sample(pool, rng.choice([1, 2]) if len(pool) >= 2 else 1)
    if bool_leaf and kinds[0] == "bool" and rng.random() < 0.5:      # the key computed from the document: {.f: …, !.f: …}
        keys = [bool_leaf, "!" + bool_leaf] + keys[2:]
    rng.shuffle(keys)
    if not rng.randrange(6):
        keys = []
    return "{" + ", ".join(k + ": " + gen_value(rng, depth - 1, leaf, bool_leaf) for k in keys) + "}"


FIXED_VALUES = ['{true: "yes", false: "no"}', '[{"k": {true: [false]}}, {1: true}]', '{1: {2u: {"s": {false: null}}}}', '{1.5: [1.5, {2.5e-7: -0.0}]}',
                '[1, 2, 3].map(x, {x > 1: x})', '[true, false].map(f, {f: !f})', '{"b": b"\\xff", "t": timestamp("2020-01-02T03:04:05Z"), "d": duration("90s")}',
                '[1.0 / 0.0, -1.0 / 0.0]', '{18446744073709551615u: 18446744073709551615u, 5u: -9223372036854775807}', '{"": "", "\\u2028": "\\u2029\\u0085"}',
                '{b"k": 1}', '{timestamp("2020-01-02T03:04:05Z"): 1}', '{null: 1}', '[[], {}, [{}], {"a": []}]', '{"a": {"a": {"a": {true: {false: 1}}}}}']


def render(t: str, prefix: str, docname: str) -> str:
    q = prefix if prefix != "" else ""
    return t.replace("{P}", prefix).replace("{Q}", q if q else "jq.").replace("{D}", docname).replace("{{", "{").replace("}}", "}")


def gen_expr(rng: random.Random, pd: Optional[List[str]], want_bool: bool) -> str:
    if pd and pd[0] == "d":
        prefix, docname = pd[1] + ".", pd[1]
    else:
        pkg = pd[1] if pd else "jq"
        prefix, docname = rng.choice([".", ".", pkg + ".", ""]), pkg
    t = rng.choice(BOOL_T if want_bool else OTHER_T)
    if prefix == "" and "{Q}" in t:
        prefix = "."
    e = render(t, prefix, docname)
    if "{VAL}" in e:
        e = e.replace("{VAL}", gen_value(rng, 3, [prefix + f for f in ("a", "s", "f", "l", "o", "l[0]", "o.x")], prefix + "f"))
    return e


def gen_stream(rng: random.Random, n: int) -> str:
    bad = rng.choice([0.0, 0.0, 0.0, 0.08, 0.15, 0.3])          # per-stream rate of non-JSON / blank lines
    raw = rng.random() < 0.5                                     # non-ASCII text raw (ensure_ascii=False) or as \\uXXXX escapes
    lines = []
    for _ in range(n):
        r = rng.random()
        if r >= bad:
            lines.append(json.dumps(gen_doc(rng), separators=rng.choice([(",", ":"), (", ", ": ")]), ensure_ascii=not raw))
        elif r < bad * 0.65:
            lines.append(rng.choice(MALFORMED))
        else:
            lines.append(rng.choice(BLANK))
    eol = "\r\n" if rng.random() < 0.06 else "\n"              # CRLF input: the \\r is a JSON blank at the end of each line
    text = eol.join(lines)
    if lines and rng.random() < 0.8:
        text += eol
    return text


def gen_args(rng: random.Random, k: int) -> List[List[Any]]:
    out = []
    for i in range(k):
        typ, samples = rng.choice(ARG_SAMPLES)
        out.append([f"v{i}", typ, rng.choice(samples)])
    return out


class C20(Prop):
    pid = "C20"
    manifest = dict(
        technique='Lean 4 theorems over the model of celpy.__main__ (main / process_json_doc / the --null-input branch / the NDJSON max-fold with the activation dict threaded through the loop): -b status table, syntax error = 1, usage error = 2, the stream equals the per-document specification for ALL streams (induction over the stream, any length) hence line independence, status = worst status, malformed = 3; the cutting of the input TEXT into documents (splitLines: one document per \\n-terminated physical line whatever else it contains, nothing lost) and line independence on the text; behaviour tables of process_json_doc and main (trace of bind / evaluate / display effects and status for every option x result-class x malformed x parse-error scenario, one step of the NDJSON loop for every (carried status, document status), source of the lines) regenerated by running the current source text of __main__.py in a small interpreter and proved equal (decide) to the tables computed from the model, CLI_ARG_TYPES and the default package + bridge; correspondence by calling main(argv) in-process (and `python -m celpy` for a sample) against per-line evaluation through the library API and an independent JSON serialiser in the oracle; the documents main() hands to process_json_doc against splitLines',
        text='proof: for every program (evaluation as a function of the activation) and every stream of documents / erroring documents / malformed lines the model of the CLI prints exactly what each line prints on its own and returns the maximum per-document status (3 iff a malformed line), with the -n/-b status table and parse error = 1; the input text is cut into its physical lines; the behaviour tables are re-derived from __main__.py on every run; the tie to the real CLI is differential (main(argv) in-process + subprocess sample) with an independent per-line oracle',
        note='Lean kernel; standard axioms; the C20 interpreter of py/verif/translate/c20_interp.py (extractor); argparse, json, real process exit codes (sampled) compared through correspondence; evaluation itself abstracted as a function of the activation (C05, C04)',
        ref='DESIGN.md §5 C20')
    lean_targets = ["Cel.Props.C20", "Cel.Bridge.Cli"]
    audit_namespaces = ["Cel.Props.C20", "Cel.Bridge"]
    gen_names = ["CliStatus"]
    trusted = ["argparse (option parsing, `SystemExit(2)` on usage errors), `print`; text-mode line iteration of the real sys.stdin (modelled by splitLines, compared in-process on io.StringIO and through the `python -m celpy` sample)",
               "the C20 interpreter (py/verif/translate/c20_interp.py) that runs process_json_doc / main on the scenario space to regenerate the behaviour tables",
               "evaluation is a function of the activation (property C05) and raises only CELEvalError on the stated fragment (C04); the expression enters the model as its per-document outcome, computed through Environment/program/evaluate with a fresh environment per document",
               "json.loads for deciding well-formedness of a line; the JSON text of scalars (json.dumps of a native str / float) inside the oracle's own serialiser; TimestampType/DurationType.__str__ (C10/C11)",
               "real process exit codes are sampled through `python -m celpy` (the rest runs main(argv) in-process)"]
    rule = ("generated command lines: -n (boolean / other expressions, --arg bindings of every CLI type, syntax errors, rejected --arg), NDJSON streams "
            "(length <= 12: objects with int/string/list/bool/object fields, missing or ill-typed fields so that the expression errors, non-object documents, "
            "non-JSON lines incl. a complete value followed by text, blank lines, with/without trailing newline, LF / CRLF, non-ASCII text raw or escaped, strings and member names holding "
            "U+0085 / U+2028 / U+2029 / VT / FF / FS / GS / RS / NBSP / BOM) and slurped multi-line documents, result values of every kind in every position (maps keyed by bool / int / uint / "
            "double / string, nested containers, bytes, timestamps, durations, non-finite doubles, boundary integers) as literals and computed from the document, the cutting of the input text into documents, "
            "evaluation errors of every origin (operator / member / index at a tree node, function bodies, conversions, all / exists / exists_one / map / filter bodies, `in`, map construction: with and "
            "without a source position) as the whole -n expression and inside propagating / absorbing contexts, with and without -b, and on some documents of a stream, x expressions of the boolean/int/string/list fragment "
            "written with `.f`, `pkg.f`, bare `f` or `doc.f`, x with/without -b, x default package / -p NAME / -d NAME; every case through main(argv) in-process, "
            "a sample through `python -m celpy`. non-trivial = distinct case with a stream of >= 2 lines containing an erroring or malformed line, or -b, or a syntax/usage error, or an --arg binding")

    def __init__(self):
        self._cache: Dict[str, Dict[str, Any]] = {}

    def _an(self, c):
        k = json.dumps({x: c[x] for x in c if not x.startswith("_") and x not in ("sub", "solo")}, sort_keys=True, default=str)
        if k not in self._cache:
            if len(self._cache) > 20000:
                self._cache.clear()
            self._cache[k] = analyse(c)
        return self._cache[k]

    # ---- generation ------------------------------------------------------------------------------------
    def generate(self, rng: random.Random, tier: str) -> Iterable[Dict[str, Any]]:
        quick = tier == "quick"
        cases: List[Dict[str, Any]] = []
        # --null-input: every expression of the closed fragment, with and without -b
        for e in NULL_BOOL + NULL_OTHER:
            for b in (False, True):
                cases.append({"kind": "null", "mode": "n", "b": b, "expr": e, "args": [], "stdin": ""})
        # values of every kind in every position (map keys of each key kind, nested containers, odd strings, boundary numbers): the printed text
        # must be the JSON serialisation of the value (oracle: its own serialiser)
        for e in FIXED_VALUES:
            cases.append({"kind": "null", "mode": "n", "b": False, "expr": e, "args": [], "stdin": ""})
        for i in range(150 if quick else 3000):
            cases.append({"kind": "null", "mode": "n", "b": i % 7 == 0, "expr": gen_value(rng, 3), "args": [], "stdin": ""})
        # syntax errors in every mode
        for e in SYNTAX_ERRORS:
            mode = rng.choice(["n", "j", "s"])
            cases.append({"kind": "syntax", "mode": mode, "b": rng.random() < 0.5, "expr": e, "args": [],
                          "stdin": "" if mode == "n" else "{\"a\": 1}\n"})
        # --arg bindings of every CLI type
        for typ, samples in ARG_SAMPLES:
            for text in samples:
                for e in ARG_EXPR[typ]:
                    cases.append({"kind": "arg", "mode": "n", "b": rng.random() < 0.3, "expr": e, "args": [["x", typ, text]], "stdin": ""})
        for typ, text in BAD_ARGS:
            cases.append({"kind": "badarg", "mode": "n", "b": False, "expr": "x", "args": [["x", typ, text]], "stdin": ""})
        cases.append({"kind": "usage", "mode": "j", "b": False, "expr": ".a", "args": [], "pd": [["p", "pk"], ["d", "doc"]], "stdin": "{}\n"})
        cases.append({"kind": "usage", "mode": "n", "b": False, "expr": None, "args": [], "stdin": ""})
        # NDJSON streams
        n_streams = 900 if quick else 20000
        for i in range(n_streams):
            pd = rng.choice([None, None, None, ["p", "pk"], ["d", "doc"], ["d", "jq"], ["p", "jq"]])
            b = rng.random() < 0.5
            n = rng.choice([0, 1, 1, 2, 3, 3, 4, 5, 6, 8, 10, 12])
            args = gen_args(rng, rng.choice([0, 0, 0, 1, 2]))
            e = gen_expr(rng, pd, want_bool=(rng.random() < (0.75 if b else 0.35)))
            if args and rng.random() < 0.5 and args[0][1] in ("int", "int64_value"):
                e = f"({e}) == ({e}) && v0 == v0" if rng.random() < 0.3 else e
            cases.append({"kind": "stream", "mode": "j", "b": b, "pd": pd, "expr": e, "args": args, "stdin": gen_stream(rng, n)})
        # equal-valued scalars of different kinds (true / 1 / 1.0, false / 0 / 0.0 / -0.0) at the same path of different lines, both
        # orders: anything that carries converted values from one document to the next (a cache keyed by ==/hash) shows here
        twins = [(0.0, False), (1.0, True), (0.0, -0.0), (1, True), (0, False), (1, 1.0), (0, 0.0), (0, -0.0), ("1", 1), ("", False)]
        k = 0
        for x, y in twins:
            for u, v in ((x, y), (y, x)):
                for shape, e in ((lambda z: {"a": z}, ".a"), (lambda z: {"a": [z, {"k": z}]}, ".a[1].k"), (lambda z: z, "jq"),
                                 (lambda z: {"a": z}, ".a == .a ? .a : .a")):
                    k += 1
                    text = json.dumps(shape(u)) + "\n" + json.dumps(shape(v)) + "\n" + (json.dumps(shape(u)) + "\n" if k % 2 else "")
                    cases.append({"kind": "stream", "mode": "j", "b": k % 3 == 0, "pd": None, "expr": e, "args": [], "stdin": text, "solo": True})
        # one document per physical line, whatever the document contains: every character that a line-splitting primitive other than
        # "cut after \\n" could take for a boundary, raw inside a string value / a member name (U+0085, U+2028, U+2029 are legal raw JSON; the C0 ones
        # make the line malformed as a whole), and CRLF line ends; always re-run line by line
        k = 0
        for ch in SEP_CHARS + ["\u00a0", "\ufeff", "\u3000", "\x7f"]:
            for shape, e in ((lambda z: {"s": "a" + z + "b"}, ".s"), (lambda z: {"k" + z: 1, "s": z}, "jq"), (lambda z: [z, z + z], "jq.size() == 2")):
                k += 1
                docs = [json.dumps(shape(ch), ensure_ascii=False), json.dumps(shape("-")), json.dumps(shape(ch + "x" + ch), ensure_ascii=False)]
                cases.append({"kind": "stream", "mode": "j", "b": k % 3 == 0, "pd": None, "expr": e, "args": [], "stdin": "\n".join(docs[:2 + k % 2]) + "\n", "solo": True})
        for eol in ("\r\n", "\n\n", " \n", "\t\r\n"):
            cases.append({"kind": "stream", "mode": "j", "b": False, "pd": None, "expr": ".a", "args": [], "stdin": eol.join(['{"a": 1}', '{"a": [2]}', '{"a": "3"}']) + eol, "solo": True})
        # slurp
        for i in range(150 if quick else 3000):
            pd = rng.choice([None, None, ["p", "pk"], ["d", "doc"]])
            b = rng.random() < 0.5
            r = rng.random()
            if r < 0.7:
                text = json.dumps(gen_doc(rng), indent=rng.choice([None, 1, 2]))
            elif r < 0.85:
                text = rng.choice(MALFORMED + BLANK)
            else:
                text = json.dumps(gen_doc(rng)) + "\n" + json.dumps(gen_doc(rng)) + "\n"   # two documents are not one document
            cases.append({"kind": "slurp", "mode": "s", "b": b, "pd": pd, "expr": gen_expr(rng, pd, want_bool=rng.random() < 0.5),
                          "args": [], "stdin": text})
        # the cutting of the input text into documents (model: Cel.Cli.splitLines; implementation: the documents main() hands to
        # process_json_doc): the stdin of the streams above and short random texts over newline-like characters
        texts = [c["stdin"] for c in cases if c["mode"] == "j" and c["kind"] == "stream"]
        texts = texts[:120 if quick else 2000] + [c["stdin"] for c in cases if c.get("solo")]
        alphabet = ["a", "{", "\"", " ", "\n", "\n", "\n", "\r", "\u00e9"] + SEP_CHARS
        for i in range(150 if quick else 3000):
            texts.append("".join(rng.choice(alphabet) for _ in range(rng.choice([0, 1, 2, 3, 5, 8, 12]))))
        for t in texts:
            cases.append({"kind": "split", "mode": "split", "stdin": t})
        # a sample through a real process (exit codes)
        pool = [c for c in cases]
        rng.shuffle(pool)
        picked = []
        for kind, k in (("null", 2), ("syntax", 1), ("arg", 1), ("badarg", 1), ("usage", 1), ("stream", 3), ("slurp", 1)):
            picked += [c for c in pool if c["kind"] == kind][:k if quick else 8 * k]
        solos = [c for c in cases if c.get("solo") and c["expr"] == ".a"]
        picked += [solos[i] for i in ((0, 1) if quick else range(0, len(solos), 2)) if i < len(solos)]
        seps = [c for c in cases if c.get("solo") and c["expr"] == ".s"]
        picked += [seps[i] for i in ((1,) if quick else range(len(seps)))]
        picked += [c for c in cases if c["kind"] == "null" and c["expr"] in FIXED_VALUES[:1 if quick else 15]]
        for c in picked:
            d = dict(c)
            d["sub"] = True
            cases.append(d)
        # evaluation errors by origin (drawn after everything else: the cases above are those of the earlier rounds for a given seed): every kernel
        # as the whole expression with and without -b, kernels inside random contexts, position-less errors on some documents of a stream;
        # two of them through a real process (a traceback also exits 1 = "the result is false" under -b)
        errs: List[Dict[str, Any]] = []
        for e in ERR_KERNELS:
            for b in (False, True):
                errs.append({"kind": "evalerr", "mode": "n", "b": b, "expr": e, "args": [], "stdin": ""})
        quiet = [k for k in ERR_KERNELS if "matches(\"(\")" not in k]       # (re2 logs a bad pattern on the process's fd 2: that kernel stays in the fixed block)
        for i in range(100 if quick else 3000):
            k = rng.choice(quiet)
            e = rng.choice(ERR_CONTEXTS).replace("$K", k)
            if rng.random() < 0.25:
                e = rng.choice(ERR_CONTEXTS).replace("$K", e)
            errs.append({"kind": "evalerr", "mode": "n", "b": rng.random() < 0.6, "expr": e, "args": [], "stdin": ""})
        for t in ERR_DOC_T:
            for b in (False, True):
                pd = rng.choice([None, None, ["d", "doc"]])
                errs.append({"kind": "stream", "mode": "j", "b": b, "pd": pd, "expr": render(t, "doc." if pd else ".", "doc" if pd else "jq"), "args": [],
                             "stdin": gen_stream(rng, rng.choice([2, 3, 5])), "solo": b})
            errs.append({"kind": "slurp", "mode": "s", "b": rng.random() < 0.5, "pd": None, "expr": render(t, ".", "jq"), "args": [], "stdin": json.dumps(gen_obj(rng))})
        cases += errs
        nopos = [c for c in errs if c["kind"] == "evalerr" and c["expr"] in ("has()", "[1, 2].all(x, x / 0 > 1)", "\"a\" in {1: 2}", "1 / 0") and c["b"]]
        for c in (nopos[:2] if quick else nopos):
            d = dict(c)
            d["sub"] = True
            cases.append(d)
        return cases

    # ---- implementation ----------------------------------------------------------------------------------
    def impl(self, c: Dict[str, Any]) -> str:
        if c["kind"] == "split":
            out = run_split(c["stdin"])
            c["_unobserved"] = out == "unobserved"
            return out
        argv = argv_of(c)
        if c.get("sub"):
            return run_subprocess(argv, c.get("stdin", ""))
        return run_inprocess(argv, c.get("stdin", ""))

    # ---- model ---------------------------------------------------------------------------------------------
    def model_line(self, c):
        if c["kind"] == "split":
            return "split " + " ".join(str(ord(ch)) for ch in c["stdin"])
        an = self._an(c)
        if an.get("compile_escape"):
            return None
        toks = an["tokens"] if (an["argsOk"] and an["compiles"]) else (["T"] if c["mode"] != "j" else [])
        if c["mode"] in ("n", "s") and len(toks) != 1:
            return None
        return f"main {int(an['argsOk'])} {int(an['compiles'])} {c['mode']} {int(bool(c.get('b')))} " + " ".join(toks)

    def model_expect(self, c, m):
        if c["kind"] == "split":
            return "unobserved" if c.get("_unobserved") else m.strip()
        an = self._an(c)
        status, _, outs = m.partition(" | ")
        lines = [an["texts"].get(t, t) for t in outs.split(" ") if t]
        loc = "-"
        if an["argsOk"] and not an["compiles"]:
            loc = an["loc"]
        elif c["mode"] == "n" and an["argsOk"] and an["compiles"] and an["tokens"] == ["E"]:
            loc = an.get("eloc", "-")
        return f"status={status}|loc={loc}|out={json.dumps(lines)}"

    # ---- oracle: the statement's own rules on the library-API outcomes ---------------------------------------
    @staticmethod
    def _parse(out: str) -> Tuple[str, str, List[str]]:
        st, loc, o = out.split("|", 2)
        return st[len("status="):], loc[len("loc="):], json.loads(o[len("out="):])

    def oracle(self, c, out):
        if c["kind"] == "split":
            want = " ".join(str(len(t)) for t in split_lines(c["stdin"]))
            if out != want and out != "unobserved":
                return (f"NDJSON input {c['stdin'][:80]!r}: main() cut it into documents of lengths [{out}], the physical lines have lengths [{want}] "
                        f"(one document per '\\n'-terminated line)")
            return None
        an = self._an(c)
        status, loc, lines = self._parse(out)
        where = f"argv={argv_of(c)!r} stdin={c.get('stdin', '')[:120]!r}"
        if not an["argsOk"]:
            return None                                 # rejected command lines: the statement is silent (model: 2)
        if c["kind"] == "syntax" and status.startswith("raise "):
            return f"syntax error in {c['expr']!r}: {status[6:]} escaped from main() instead of status 1 with a located message ({where})"
        if an.get("compile_escape"):
            return (f"compiling {c['expr']!r} through the library API raises {an['compile_escape']} (not CELParseError); the CLI gave status {status}; "
                    f"a syntax error must exit 1 with a message locating it, a valid expression must be evaluated ({where})")
        if c["kind"] == "syntax" and an["compiles"]:
            return f"{c['expr']!r} is not valid CEL but was accepted by compile() ({where})"
        if not an["compiles"]:
            if status != "1":
                return f"syntax error in {c['expr']!r} gave status {status}, expected 1 ({where})"
            if lines:
                return f"syntax error printed {lines!r} on stdout ({where})"
            if loc == "-":
                return f"syntax error without a location message on stderr ({where})"
            if "?" in loc:
                return f"syntax error reported without a line:column position ({loc}) ({where})"
            ln, col = (int(x) for x in loc.split(":"))
            src_lines = (c["expr"] or "").split("\n")
            if not (1 <= ln <= max(1, len(src_lines)) and 1 <= col <= len(src_lines[min(ln, len(src_lines)) - 1]) + 1):
                return f"syntax error located at {loc}, outside the expression {c['expr']!r}"
            return None
        toks = an["tokens"]
        if any(t.startswith(("R:", "X:")) for t in toks):
            return None                                 # a non-CEL exception: outside the stated fragment
        if status.startswith("raise "):
            return f"{status[6:]} escaped from main() although every document evaluates to a value or a CEL error through the library API ({where})"
        text = lambda t: {"T": "true", "F": "false", "E": "null"}.get(t, an["texts"].get(t))
        if c["mode"] == "n":
            t = toks[0]
            if c.get("b"):
                want = {"T": "0", "F": "1"}.get(t, "2")
                if status != want:
                    return f"-n -b: result class {t} gave status {status}, expected {want} ({where})"
                return None
            if t == "E":
                return None
            if status != "0" or lines != [text(t)]:
                return f"-n: expected {text(t)!r} and status 0, got {lines!r} and status {status} ({where})"
            return None
        # documents: output is the concatenation of each document's own serialisation (null for an erroring document)
        want_lines = [text(t) for t in toks if t != "M"]
        if lines != want_lines:
            return f"output {lines!r} differs from the per-document results {want_lines!r} ({where})"
        spec: List[Optional[int]] = []
        for t in toks:
            if t == "M":
                spec.append(3)
            elif not c.get("b"):
                spec.append(0)
            elif t in ("T", "F"):
                spec.append(0 if t == "T" else 1)
            else:
                spec.append(None)                       # -b on a non-boolean / erroring document: not fixed by the statement
        known = [s for s in spec if s is not None]
        worst = max(known, default=0)
        if None not in spec:
            if status != str(worst):
                return f"status {status}, but the worst per-document status is {worst} (per document: {spec}) ({where})"
        elif not status.isdigit() or int(status) < worst or (worst == 3 and status != "3"):
            return f"status {status} is below the worst specified per-document status {worst} ({where})"
        # line independence, directly on the implementation: each line alone through main()
        if c["mode"] == "j" and len(toks) >= 2 and not c.get("sub") and (c.get("_corpus") or c.get("solo") or zlib.crc32(c["stdin"].encode()) % 3 == 0):
            cat: List[str] = []
            sts: List[int] = []
            for t in split_lines(c["stdin"]):
                s1, _, l1 = self._parse(run_inprocess(argv_of(c), t))
                cat += l1
                if not s1.isdigit():
                    return None
                sts.append(int(s1))
            if cat != lines or str(max(sts, default=0)) != status:
                return (f"stream output/status {lines!r}/{status} differs from running each line on its own: {cat!r}/max{sts} ({where})")
        return None

    def nontrivial(self, c, out):
        if c["kind"] == "split":
            return "\n" in c["stdin"] and any(ch in c["stdin"] for ch in SEP_CHARS + ["\r"])
        an = self._an(c)
        if not an["argsOk"] or not an["compiles"] or c.get("args") or c.get("b"):
            return True
        toks = an["tokens"]
        return len(toks) >= 2 and any(t in ("E", "M") for t in toks)


PROP = C20()
