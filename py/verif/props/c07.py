"""C07 — literals denote the values they spell.

Cases (all lists of code points, so that lone surrogates / NUL / CR survive JSON):
  kind str|bytes : a token text built from a quoting style and a body; `via` = fn (celstr()/celbytes() on a
                   lark.Token), I, C (the whole text as an expression through a runner)
  kind int|uint  : an INT_LIT / UINT_LIT text; via fn (IntType(text) / UintType(text[:-1])), I, C
  kind float     : a FLOAT_LIT text; via I, C (spelling -> value is Python float(), not modelled)

Roles: impl = the real functions / runners; model = Cel.Drv.C07 (celstr, celbytes, intOfLit, uintOfLit,
transpiledInt, transpiledUint); oracle = an independent reference decoder written from the CEL escape grammar
(`ref_decode`), the harness's own encoder (`encode(value) -> text`, oracle: evaluate == value), exact integer
reading, and Python's float().
"""
from __future__ import annotations
import json
import math
import random
import re
import struct
from typing import Any, Dict, Iterable, List, Optional

from ..core import Prop
from .. import celrun

I_MIN, I_MAX, U_MAX = -2**63, 2**63 - 1, 2**64 - 1
QUOTE = {"sq": "'", "dq": '"', "tsq": "'''", "tdq": '"""'}
SIMPLE = {"a": 7, "b": 8, "f": 12, "n": 10, "r": 13, "t": 9, "v": 11, "\\": 92, '"': 34, "'": 39}
HEX = "0123456789abcdefABCDEF"

# adversarial alphabet: quotes, backslash, line breaks, NUL, digits (after octal escapes), the escape letters,
# hex letters, `?` and backtick (CEL escapes the implementation does not know), BMP and non-BMP characters,
# the characters around the UTF-8 length boundaries, Unicode line separators
ALPHA_ASCII = list("'\"\\\n\r\x00\t 0123456789abfnrtvxuUeEA?`-") + ["\x7f", "z"] + list("${}%")   # $ { } %: template/format metacharacters of the transpiler
ALPHA_UNI = [0x80, 0x85, 0xE9, 0xFF, 0x100, 0x7FF, 0x800, 0x2028, 0xD7FF, 0xE000, 0xFFFD, 0xFFFF, 0x10000, 0x1F431, 0x10FFFF]
SURROGATES = [0xD800, 0xDBFF, 0xDC00, 0xDFFF]


def cps(s: str) -> List[int]:
    return [ord(c) for c in s]


def text_of(c: List[int]) -> str:
    return "".join(chr(x) for x in c)


def wrap(case: Dict[str, Any]) -> str:
    """token text of a str/bytes case"""
    q = QUOTE[case["q"]]
    pre = ""
    if case["kind"] == "bytes":
        pre += "B" if case.get("B") else "b"
    if case["raw"]:
        pre += "R" if case.get("R") else "r"
    return pre + q + text_of(case["body"]) + q


# ------------------------------------------------------------------------------------------------
# the property's own reading of a literal (independent of CEL_ESCAPES_PAT and of the Lean model)
# ------------------------------------------------------------------------------------------------

def ref_pieces(body: str, bytes_mode: bool):
    """Recursive-descent reading of a cooked body by the CEL escape grammar.  Returns a list of
    (start, end, value) — value an int code point (strings) or a list of octets (bytes) — or None
    when some backslash does not begin an escape of the property's list."""
    out = []
    i, n = 0, len(body)
    while i < n:
        ch = body[i]
        if ch != "\\":
            o = ord(ch)
            if 0xD800 <= o <= 0xDFFF:
                return None                      # not a Unicode scalar value: outside the statement
            out.append((i, i + 1, list(ch.encode("utf-8")) if bytes_mode else o))
            i += 1
            continue
        if i + 1 >= n:
            return None
        e = body[i + 1]
        if e in SIMPLE:
            v = SIMPLE[e]
            out.append((i, i + 2, [v] if bytes_mode else v))
            i += 2
        elif e == "x":
            h = body[i + 2:i + 4]
            if len(h) != 2 or any(c not in HEX for c in h):
                return None
            v = int(h, 16)
            out.append((i, i + 4, [v] if bytes_mode else v))
            i += 4
        elif e in "uU":
            k = 4 if e == "u" else 8
            h = body[i + 2:i + 2 + k]
            if len(h) != k or any(c not in HEX for c in h) or bytes_mode:
                return None                      # \u / \U are not bytes escapes
            v = int(h, 16)
            if v > 0x10FFFF or 0xD800 <= v <= 0xDFFF:
                return None
            out.append((i, i + 2 + k, v))
            i += 2 + k
        elif e in "0123":
            o = body[i + 1:i + 4]
            if len(o) != 3 or any(c not in "01234567" for c in o):
                return None
            v = int(o, 8)
            out.append((i, i + 4, [v] if bytes_mode else v))
            i += 4
        else:
            return None
    return out


def ref_value(case: Dict[str, Any]):
    """What the literal denotes per the property, or None when the text is outside the statement
    (not a CEL literal of that style, or a spelling the statement does not cover)."""
    body = text_of(case["body"])
    q = QUOTE[case["q"]]
    qc = q[0]
    triple = len(q) == 3
    bytes_mode = case["kind"] == "bytes"
    if not triple and ("\n" in body or "\r" in body):
        return None
    if case["raw"]:
        if any(0xD800 <= ord(c) <= 0xDFFF for c in body):
            return None
        if body.endswith("\\"):
            return None          # would escape the closing quote for the lexer: context dependent, not claimed
        if (not triple and qc in body) or (triple and (q in body + qc + qc or body.endswith(qc))):
            return None
        if "\\" + qc in body:
            return None
        return list(body.encode("utf-8")) if bytes_mode else [ord(c) for c in body]
    pieces = ref_pieces(body, bytes_mode)
    if pieces is None:
        return None
    # lexical validity: no unescaped delimiter inside the body
    unescaped = [False] * len(body)
    for (s, e, _v) in pieces:
        if e - s == 1:
            unescaped[s] = True
    if not triple:
        if any(unescaped[i] and body[i] == qc for i in range(len(body))):
            return None
    else:
        ext = body + q
        for i in range(len(body)):
            if unescaped[i] and ext[i:i + 3] == q:
                # an unescaped quote that starts a run of three delimiters before the real end
                if all(j >= len(body) or unescaped[j] for j in range(i, i + 3)):
                    return None
    vals: List[int] = []
    for (_s, _e, v) in pieces:
        if bytes_mode:
            vals += v
        else:
            vals.append(v)
    return vals


def encode_value(rng: random.Random, value: List[int], kind: str, q: str, raw: bool) -> Optional[List[int]]:
    """The harness's own encoder: a body that spells `value` (code points / octets) in the given style,
    choosing among all escape forms at random.  None when the (raw) style cannot hold the value."""
    qc = QUOTE[q][0]
    triple = len(QUOTE[q]) == 3
    if raw:
        if kind == "bytes":
            try:
                s = bytes(value).decode("utf-8")
            except UnicodeDecodeError:
                return None                   # a raw bytes literal can only hold UTF-8
        else:
            s = text_of(value)
        case = {"kind": kind, "q": q, "raw": True, "body": cps(s)}
        return cps(s) if ref_value(case) is not None else None
    out: List[str] = []
    if kind == "bytes":
        # group maximal valid UTF-8 runs so that some characters can stand for themselves
        i = 0
        while i < len(value):
            b = value[i]
            forms = ["x", "o"]
            ch = None
            for ln in (1, 2, 3, 4):
                try:
                    ch = bytes(value[i:i + ln]).decode("utf-8")
                    if len(ch) == 1 and len(ch.encode("utf-8")) == ln:
                        break
                    ch = None
                except (UnicodeDecodeError, ValueError):
                    ch = None
            if ch is not None and ch not in ("\\", qc, "\n", "\r") and rng.random() < 0.6:
                out.append(ch)
                i += len(ch.encode("utf-8"))
                continue
            if b in SIMPLE.values() and rng.random() < 0.5:
                out.append("\\" + [k for k, v in SIMPLE.items() if v == b][0])
            elif rng.choice(forms) == "x":
                out.append("\\x%s" % rng.choice(["%02x", "%02X"]) % b)
            else:
                out.append("\\%03o" % b)
            i += 1
        return cps("".join(out))
    prev_bare_quote = False
    for idx, c in enumerate(value):
        ch = chr(c)
        must = ch in ("\\", "\n", "\r") or ch == qc
        if triple and ch == qc and not prev_bare_quote and idx + 1 < len(value):
            must = False                   # a lone quote inside a triple-quoted literal needs no escape
        prev_bare_quote = False
        opts = []
        if not must:
            opts += ["lit"] * 6
        if c in SIMPLE.values():
            opts += ["simple"] * 3
        if c <= 0xFF:
            opts += ["x", "o"]
        if c <= 0xFFFF:
            opts += ["u"]
        opts += ["U"]
        if triple and ch in ("\n", "\r"):
            opts += ["lit"] * 4           # raw line breaks are legal in triple-quoted literals
        f = rng.choice(opts)
        if f == "lit":
            out.append(ch)
            prev_bare_quote = ch == qc
        elif f == "simple":
            out.append("\\" + rng.choice([k for k, v in SIMPLE.items() if v == c]))
        elif f == "x":
            out.append(("\\x%02x" if rng.random() < 0.5 else "\\x%02X") % c)
        elif f == "o":
            out.append("\\%03o" % c)
        elif f == "u":
            out.append(("\\u%04x" if rng.random() < 0.5 else "\\u%04X") % c)
        else:
            out.append(("\\U%08x" if rng.random() < 0.5 else "\\U%08X") % c)
    return cps("".join(out))


INT_RE = re.compile(r"(-?)(?:0x([0-9a-fA-F]+)|([0-9]+))\Z")
FLOAT_RE = re.compile(r"-?(?:[0-9]+\.[0-9]*(?:[eE][+-]?[0-9]+)?|[0-9]*\.[0-9]+(?:[eE][+-]?[0-9]+)?|[0-9]+[eE][+-]?[0-9]+)\Z")


def spelled_int(text: str) -> Optional[int]:
    m = INT_RE.match(text)
    if not m:
        return None
    n = 0
    if m.group(2) is not None:
        for ch in m.group(2):
            n = n * 16 + HEX.index(ch.lower())
    else:
        for ch in m.group(3):
            n = n * 10 + (ord(ch) - 48)
    return -n if m.group(1) else n


# a literal inside a larger expression (runner cases only): the value must be the same in any context
CTXS = ("paren", "list", "dup", "mix")
MIX_VAL = "$$q{}%s{{$a%%"          # a neighbour literal full of template/format metacharacters
MIX_LIT = "'" + MIX_VAL + "'"


def ctx_src(text: str, ctx: Optional[str]) -> str:
    if ctx == "paren":
        return "(" + text + ")"
    if ctx == "list":
        return "[" + text + "]"
    if ctx == "dup":
        return "[" + text + ", " + text + "]"
    if ctx == "mix":
        return "[0x10, " + text + ", " + MIX_LIT + "]"
    return text


def ctx_out(out: str, ctx: Optional[str]) -> str:
    """the canonical outcome of the context expression, given the outcome `out` of the bare literal"""
    if not ctx or ctx == "paren" or not celrun.is_value(out):
        return out
    if ctx == "list":
        return "list:[" + out + "]"
    if ctx == "dup":
        return "list:[" + out + "," + out + "]"
    return 'list:[int:16,' + out + ',string:' + json.dumps(MIX_VAL) + ']'


# ------------------------------------------------------------------------------------------------

class C07(Prop):
    pid = "C07"
    title = "Literals denote the values they spell"
    manifest = dict(
        technique='Lean 4 model of celstr()/celbytes() (quote slicing, ordered-alternation tokeniser of CEL_ESCAPES_PAT, expand) and of IntType/UintType text reading in both runners; theorems for ALL literal bodies, ALL strings, ALL byte strings and ALL digit strings; pattern source, DOTALL flag, CEL_ESCAPES table and the lark literal terminals regenerated from the source + bridge (decide); differential correspondence vs. the Lean driver over an adversarial alphabet x 8 quoting styles x {function, interpreter, compiled}; independent reference decoder/encoder oracle',
        text='proof: celstr/celbytes of a token equal the CEL reference decoder for every valid body in every cooked/raw style (celstr_eq_spelled, celbytes_eq_spelled, celstr_raw, celbytes_raw); encode-then-decode is the identity for ALL strings and ALL byte strings (literal_roundtrip, bytes_roundtrip); every decimal/hex int and uint spelling evaluates to its positional value or a range error, identically in the compiled runner (int_literal_*, uint_literal_*, transpiled_*); the lexer step: Python-re backtracking semantics of the terminal regexes (syntax trees regenerated from cel.lark via re._parser) match the WHOLE encoded literal for all strings / byte strings / digit strings (lex_string, lex_bytes, lex_int_*, lex_uint_*, *_roundtrip_lexed); the choice among terminals by lark and float() are delegated and corresponded',
        note="Lean kernel; propext/Quot.sound/Classical.choice only; trusted: lark's lexer cuts the token its terminal regex describes (Python re backtracking), Python float() on FLOAT_LIT text, eval(repr(v)) == v for the str/bytes value the transpiler pastes, CPython int() incl. its 4300-digit limit (modelled); non-ASCII decimal digits after a backslash (\\d is Unicode-aware) are outside the model",
        ref='DESIGN.md §5 C07')
    lean_targets = ["Cel.Props.C07", "Cel.Bridge.Str", "Cel.Bridge.Lex"]
    audit_namespaces = ["Cel.Props.C07", "Cel.Bridge"]
    gen_names = ["Str", "Lex"]
    trusted = ["lark's lexer applies the terminal's regular expression with re.match at the token start and picks the terminal the grammar's priorities give (the match of ONE terminal's regex is modelled: Cel.Lex.run, trees regenerated through Python's re._parser and compared in Cel.Bridge.lex_terminals; `lex` cases compare re.match on the live terminals with the model and with lark's own lexer)",
               "Python float() maps a FLOAT_LIT text to the nearest double (both runners hand the text to float()/the Python parser); compared against float() on every float case",
               "eval(repr(v)) == v for the StringType/BytesType value pasted into the transpiled source",
               "CPython int(str) / int literal semantics incl. sys.int_max_str_digits = 4300 (modelled as `maxDigits`)",
               "`\\d` of CEL_ESCAPES_PAT also matches non-ASCII decimal digits; the model reads it as [0-9] and such inputs are not compared"]
    rule = ("bodies over an adversarial alphabet (quotes, backslash, LF, CR, NUL, digits after octal escapes, escape letters, `?`, backtick, "
            "BMP/non-BMP, UTF-8 length boundaries, U+2028, rarely lone surrogates): random junk, structured escape sequences (valid and "
            "near-miss: \\400 \\999 \\x4 \\u12 \\UFFFFFFFF \\U00110000 \\ud800), and encodings of random values by the harness's own "
            "encoder with a random escape form per character; x 4 quote kinds x raw/cooked x prefix letter case x {celstr/celbytes "
            "directly, interpreter, compiled runner}; int/uint: boundary values of int64/uint64 +-2 in decimal and hex, sign, 0-6 leading "
            "zeros, hex letter case, over-range and 4300-digit spellings, every boundary value in both spellings with/without sign and leading zero; "
            "floats: repr/exponent forms of special and random doubles + the grid mantissa shape x exponent shape (sign, case, leading zeros); "
            "runner cases of valid literals also inside a larger expression ((x), [x], [x, x], [0x10, x, '$$q{}%s{{$a%%']) and with template/format "
            "metacharacters ($ { } % motifs); `lex` cases: re.match of the live terminal regex on the literal text (+ junk suffix / another terminal) "
            "vs the Lean matcher, whole-literal match demanded for valid literals and agreement with lark's lexer. "
            "non-trivial = distinct case whose text contains an escape, a quote/backslash/line break/non-ASCII character in the body, "
            "or (numbers) a leading zero, a hex spelling, a sign, or a value within 2 of a range boundary")

    # ---- generation -----------------------------------------------------------------------------
    def _rand_cp(self, rng: random.Random, allow_surrogate: bool) -> int:
        r = rng.random()
        if r < 0.62:
            return ord(rng.choice(ALPHA_ASCII))
        if r < 0.95 or not allow_surrogate:
            return rng.choice(ALPHA_UNI)
        return rng.choice(SURROGATES)

    # multi-character motifs: sequences whose parts interact (CR LF pairs, runs of quotes, text that looks
    # like an escape and must come back verbatim, a backslash at the end)
    MOTIFS = ["\r\n", "\n\r", "\n\n", "''", '""', "'\"'", "\\\\", "\\'", '\\"', "\\n", "\\x41", "\\101", "\\u0041",
              "a\\", "\\", "'''", '"""', "\r", "\t\n",
              # what string.Template / str.format / %-formatting would rewrite if literal text were ever re-scanned
              "$$", "${a}", "$a", "{}", "{0}", "{{", "}}", "%s", "%%", "%(a)s"]

    def _rand_value(self, rng: random.Random, kind: str) -> List[int]:
        n = rng.choice([0, 1, 1, 2, 3, 4, 6, 9])
        out: List[int] = []
        pool = [0, 9, 10, 13, 34, 39, 92, 48, 55, 56, 65, 97, 127, 128, 0xC3, 0xA9, 0xE2, 0x80, 0xA8, 0xF0, 0x9F, 0x90, 0xB1, 0xFF, 0xFE, 0xC0]
        for _ in range(n):
            if rng.random() < 0.18:
                out += cps(rng.choice(self.MOTIFS))
            elif kind == "bytes":
                out.append(rng.choice(pool) if rng.random() < 0.8 else rng.randrange(256))
            else:
                out.append(self._rand_cp(rng, False))
        return out

    def _struct_body(self, rng: random.Random) -> List[int]:
        out = []
        for _ in range(rng.choice([1, 2, 3, 4, 6])):
            r = rng.random()
            if r < 0.25:
                out.append(chr(self._rand_cp(rng, False)))
            elif r < 0.40:
                out.append("\\" + rng.choice(list(SIMPLE) + ["?", "`", "0", "8", "z", "X", " "]))
            elif r < 0.55:
                out.append("\\x" + "".join(rng.choice(HEX + "g") for _ in range(rng.choice([2, 2, 2, 1, 3]))))
            elif r < 0.68:
                out.append("\\u" + "".join(rng.choice(HEX) for _ in range(rng.choice([4, 4, 4, 3, 5]))))
            elif r < 0.72:
                out.append("\\u" + rng.choice(["d800", "dfff", "D7FF", "e000", "0000", "ffff"]))
            elif r < 0.84:
                out.append("\\U" + rng.choice(["0001F431", "0010FFFF", "00110000", "FFFFFFFF", "80000000", "7FFFFFFF", "0000D800",
                                                "00000041", "0001f43", "000000e9", "00000100"]))
            else:
                out.append("\\" + "".join(rng.choice("01234567389") for _ in range(rng.choice([3, 3, 3, 2, 4]))))
            if rng.random() < 0.3:
                out.append(rng.choice("0123456789"))
        return cps("".join(out))

    def _lit_case(self, rng: random.Random, kind: str) -> Dict[str, Any]:
        q = rng.choice(list(QUOTE))
        raw = rng.random() < 0.3
        mode = rng.random()
        value = None
        if mode < 0.45:          # encoding of a random value by the harness's encoder
            value = self._rand_value(rng, kind)
            body = encode_value(rng, value, kind, q, raw)
            if body is None:
                raw = False
                body = encode_value(rng, value, kind, q, raw)
        elif mode < 0.80:        # structured escape sequences, valid and near-miss
            body = self._struct_body(rng)
        else:                    # junk
            body = []
            for _ in range(rng.choice([0, 1, 2, 3, 5, 8])):
                if rng.random() < 0.15:
                    body += cps(rng.choice(self.MOTIFS))
                else:
                    body.append(self._rand_cp(rng, True))
        c = {"kind": kind, "q": q, "raw": raw, "R": rng.random() < 0.3, "B": rng.random() < 0.3, "body": body, "via": None}
        if value is not None:
            c["value"] = value
        return c

    def _with_ctx(self, rng: random.Random, c: Dict[str, Any], p: float) -> Dict[str, Any]:
        """with probability p put a runner case of a VALID literal (one the oracle has an opinion on) inside a larger
        expression: parenthesised, a list element, the same literal twice, next to other literals"""
        if c["via"] == "fn":
            return c
        if rng.random() >= p and not (c["kind"] in ("str", "bytes") and any(x in (36, 37, 123, 125) for x in c["body"])):
            return c
        ctx = rng.choice(CTXS)
        kind = c["kind"]
        if kind in ("str", "bytes"):
            ok = ref_value(c) is not None
        else:
            text = text_of(c["text"])
            if kind == "float":
                ok = bool(FLOAT_RE.match(text))
            else:
                t = text if kind == "int" else text[:-1]
                ok = spelled_int(t) is not None and not (kind == "uint" and t.startswith("-")) and len(t) < 4000
        return dict(c, ctx=ctx) if ok else c

    TERM_OF = {"int": "INT_LIT", "uint": "UINT_LIT", "float": "FLOAT_LIT", "bytes": "BYTES_LIT"}

    def _lex_case(self, rng: random.Random, c: Dict[str, Any]) -> Dict[str, Any]:
        kind = c["kind"]
        if kind in ("str", "bytes"):
            text = wrap(c)
            term = "BYTES_LIT" if kind == "bytes" else ("MLSTRING_LIT" if len(QUOTE[c["q"]]) == 3 else "STRING_LIT")
            valid = ref_value(c) is not None
        else:
            text = text_of(c["text"])
            term = self.TERM_OF[kind]
            if kind == "float":
                valid = bool(FLOAT_RE.match(text))
            else:
                valid = spelled_int(text if kind == "int" else text[:-1]) is not None
        suffix = ""
        r = rng.random()
        if r < 0.25:
            suffix = "".join(chr(self._rand_cp(rng, False)) for _ in range(rng.choice([1, 1, 2, 3])))
        elif r < 0.33:
            term = rng.choice(sorted(set(self.TERM_OF.values()) | {"STRING_LIT", "MLSTRING_LIT"}))   # another terminal on this text
            valid = False
        return {"kind": "lex", "term": term, "text": cps(text + suffix), "valid": bool(valid and not suffix), "via": "re"}

    def search_cases(self, rng: random.Random) -> Iterable[Dict[str, Any]]:
        """lazy stream for the failing-input search: the numeric cases of a quick run, then literal cases
        through all three paths until the search's time budget ends"""
        for c in self.generate(rng, "quick"):
            if c["kind"] in ("int", "uint", "float"):
                yield c
        for _ in range(200000):
            c = self._lit_case(rng, rng.choice(["str", "bytes"]))
            for via in ("fn", "I", "C"):
                yield dict(c, via=via)
            yield self._with_ctx(rng, dict(c, via=rng.choice(["I", "C"])), 1.0)
            yield self._lex_case(rng, c)

    def generate(self, rng: random.Random, tier: str) -> Iterable[Dict[str, Any]]:
        quick = tier == "quick"
        cases: List[Dict[str, Any]] = []
        n_str = 2000 if quick else 60000
        for kind in ("str", "bytes"):
            for i in range(n_str):
                c = self._lit_case(rng, kind)
                if quick:
                    cases.append(self._with_ctx(rng, dict(c, via=rng.choice(["fn", "I", "C"])), 0.35))
                else:
                    for via in ("fn", "I", "C"):
                        cases.append(dict(c, via=via))
                    cases.append(self._with_ctx(rng, dict(c, via=rng.choice(["I", "C"])), 1.0))
        # integers
        ints = set()
        for b in (0, 1, 7, 8, 9, 10, 15, 16, 255, 2**31, 2**32, 2**53, I_MAX, 2**63, U_MAX, 2**64, 2**64 + 1, 10**19, 10**20):
            for d in (-2, -1, 0, 1, 2):
                if b + d >= 0:
                    ints.add(b + d)
        boundary = sorted(ints)
        # every boundary value in BOTH spellings, bare and with leading zeros, with and without a sign: a change that
        # depends on the text's shape (prefix stripping, int(text, 0), sign handling) must not hinge on a random draw
        for n in boundary:
            for digits in (str(n), "0x%x" % n, "0" + str(n), "0x0%X" % n):
                for sgn in ("", "-"):
                    text = sgn + digits
                    vias = ["fn", ("I", "C")[(n + len(text)) % 2]] if quick else ["fn", "I", "C"]
                    for via in vias:
                        cases.append({"kind": "int", "text": cps(text), "via": via})
                        if not sgn or n == 0:
                            cases.append({"kind": "uint", "text": cps(text + "uU"[n % 2]), "via": via})
        for _ in range(60 if quick else 3000):
            ints.add(rng.getrandbits(rng.choice([8, 16, 31, 32, 53, 63, 64, 65])))
        for n in sorted(ints):
            for _ in range(2 if quick else 6):
                zeros = "0" * rng.choice([0, 0, 1, 2, 6])
                if rng.random() < 0.5:
                    digits = zeros + str(n)
                else:
                    h = "%x" % n
                    h = "".join(ch.upper() if rng.random() < 0.4 else ch for ch in h)
                    digits = "0x" + zeros + h
                neg = rng.random() < 0.45
                text = ("-" if neg else "") + digits
                for via in (["fn", rng.choice(["I", "C"])] if quick else ["fn", "I", "C"]):
                    cases.append(self._with_ctx(rng, {"kind": "int", "text": cps(text), "via": via}, 0.25))
                    if not neg or rng.random() < 0.15:
                        cases.append(self._with_ctx(rng, {"kind": "uint", "text": cps(text + rng.choice("uU")), "via": via}, 0.25))
        for text in ("0" * 4299 + "7", "0" * 4300 + "7", "9" * 4300, "-" + "0" * 4299 + "1", "0x" + "0" * 5000 + "ff", "00", "-0", "-00", "000000000000000000000000000000"):
            for via in ("fn", "I", "C"):
                cases.append({"kind": "int", "text": cps(text), "via": via})
        # floats
        specials = [0.0, 1.0, 0.5, 0.1, 1e308, 1.7976931348623157e308, 5e-324, 2.2250738585072014e-308, 1e-320, 123456789.125,
                    3.14, 2.5e-324, 1e22, 1e23, 9007199254740993.0]
        fl = []
        for _ in range(80 if quick else 4000):
            x = struct.unpack("<d", struct.pack("<Q", rng.getrandbits(64)))[0]
            if x == x and not math.isinf(x):
                specials.append(abs(x))
        for x in specials:
            r = repr(float(x))
            forms = []
            if "e" in r or "E" in r:
                m, e = r.split("e")
                forms.append(r if "." in m else m + ".0e" + e)
                forms.append((m if "." in m else m + ".") + "E" + e.replace("+", ""))
            else:
                forms.append(r)
                forms.append("%.17e" % x)
                forms.append(("%.20E" % x).replace("E+", "E"))
            if x < 1e15 and x == int(x):
                forms.append("%d." % int(x))
                forms.append("00%d.0" % int(x))
            for f in forms:
                for sgn in ("", "-"):
                    fl.append(sgn + f)
        fl += [".5", "-.5", "5.", "1e5", "1E+5", "1e-5", "1e999", "-1e999", "1e-999", "00e1", "007.5", "0.0", "-0.0", ".0e0",
               "4.9e-324", "2.4e-324", "1.7976931348623159e308", "0." + "0" * 400 + "1", "1" + "0" * 400 + ".0", "1." + "1" * 800]
        # every mantissa shape x every exponent shape of the FLOAT_LIT grammar (sign of the exponent, letter case,
        # leading zeros, no exponent), positive and negative
        for mant in ("5.", ".5", "5.5", "05.50", "5", "0.", ".0", "12345678901234567890.", "9"):
            for ex in ("", "e3", "E3", "e+3", "E+3", "e-3", "E-3", "e03", "e+03", "E-03", "e0", "e+0", "E-0", "e+300", "e-300", "E+22"):
                if "." not in mant and not ex:
                    continue                      # that is an INT_LIT
                for sgn in ("", "-"):
                    fl.append(sgn + mant + ex)
        seen_f = set()
        for f in fl:
            if f in seen_f:
                continue
            seen_f.add(f)
            for via in ("I", "C"):
                cases.append(self._with_ctx(rng, {"kind": "float", "text": cps(f), "via": via}, 0.2))
        # the lexer step: the terminal's regular expression on the literal's text (and on the text followed by junk)
        lex: List[Dict[str, Any]] = []
        seen_l = set()
        for c in cases:
            if rng.random() >= (0.5 if quick else 0.34):
                continue
            lc = self._lex_case(rng, c)
            k = (lc["term"], tuple(lc["text"]))
            if k not in seen_l and len(lc["text"]) <= 400:
                seen_l.add(k)
                lex.append(lc)
        return cases + lex

    # ---- implementation -------------------------------------------------------------------------
    def setup(self):
        import celpy
        self._lexer = None
        self._term_re = None

    def _single_token(self, text: str) -> Optional[str]:
        """token type if lark's lexer cuts the whole text as one token, else None"""
        import celpy
        if self._lexer is None:
            self._lexer = celpy.CELParser().parser
        try:
            toks = list(self._lexer.lex(text))
        except Exception:
            return None
        if len(toks) == 1 and toks[0].value == text:
            return toks[0].type
        return None

    def _terminal_re(self, name: str):
        """the compiled regular expression of a terminal of the grammar the implementation really loads"""
        if getattr(self, "_term_re", None) is None:
            import celpy
            if self._lexer is None:
                self._lexer = celpy.CELParser().parser
            self._term_re = {t.name: re.compile(t.pattern.to_regexp()) for t in self._lexer.terminals}
        return self._term_re.get(name)

    def impl(self, c):
        if c["kind"] == "lex":
            rx = self._terminal_re(c["term"])
            if rx is None:
                return "no-terminal"
            m = rx.match(text_of(c["text"]))
            return f"some {m.end()}" if m else "none"
        return self._impl(c)

    def _impl(self, c):
        import lark
        from celpy import celtypes
        from celpy import evaluation
        kind, via = c["kind"], c["via"]
        text = wrap(c) if kind in ("str", "bytes") else text_of(c["text"])
        if via == "fn":
            try:
                if kind == "str":
                    ttype = "MLSTRING_LIT" if len(QUOTE[c["q"]]) == 3 else "STRING_LIT"
                    v = evaluation.celstr(lark.Token(ttype, text))
                    if type(v) is not celtypes.StringType:
                        return f"wrongtype {type(v).__name__}"
                    return "ok " + (",".join(str(ord(ch)) for ch in v) or "-")
                if kind == "bytes":
                    v = evaluation.celbytes(lark.Token("BYTES_LIT", text))
                    if type(v) is not celtypes.BytesType:
                        return f"wrongtype {type(v).__name__}"
                    return "ok " + (",".join(str(b) for b in v) or "-")
                if kind == "int":
                    v = celtypes.IntType(text)
                    return f"ok {int(v)}" if type(v) is celtypes.IntType else f"wrongtype {type(v).__name__}"
                if kind == "uint":
                    v = celtypes.UintType(text[:-1])
                    return f"ok {int(v)}" if type(v) is celtypes.UintType else f"wrongtype {type(v).__name__}"
            except Exception as ex:
                cls = type(ex)
                for base in (ValueError, TypeError, OverflowError):   # report the class the callers dispatch on
                    if issubclass(cls, base):
                        return "raise " + base.__name__
                return "raise " + cls.__name__
            return "HARNESS-EXC unsupported fn kind"
        return celrun.run(ctx_src(text, c.get("ctx")), via)

    # ---- model ----------------------------------------------------------------------------------
    @staticmethod
    def _arg(cs: List[int]) -> str:
        return ",".join(str(x) for x in cs) or "-"

    def _model_applicable(self, c) -> bool:
        kind, via = c["kind"], c["via"]
        if kind == "float":
            return False
        text = wrap(c) if kind in ("str", "bytes") else text_of(c["text"])
        if any(ord(ch) > 127 and ch.isdigit() for ch in text):
            return False                       # `\d` of the pattern / int() accept non-ASCII digits: not modelled
        if via == "fn":
            return True
        want = {"str": ("STRING_LIT", "MLSTRING_LIT"), "bytes": ("BYTES_LIT",), "int": ("INT_LIT",), "uint": ("UINT_LIT",)}[kind]
        return self._single_token(text) in want

    def model_line(self, c):
        if c["kind"] == "lex":
            if any(x > 127 and chr(x).isdigit() for x in c["text"]):
                return None                    # `\d` also accepts non-ASCII digits: not modelled
            return f"lex {c['term']} {self._arg(c['text'])}"
        if not self._model_applicable(c):
            return None
        kind, via = c["kind"], c["via"]
        if kind in ("str", "bytes"):
            return f"{kind} {self._arg(cps(wrap(c)))}"
        t = c["text"] if kind == "int" else c["text"][:-1]
        fn = {"int": "int", "uint": "uint"}[kind]
        if via == "C":
            fn = "c" + fn
        return f"{fn} {self._arg(t)}"

    def model_expect(self, c, m):
        return ctx_out(self._model_expect(c, m), c.get("ctx"))

    def _model_expect(self, c, m):
        kind, via = c["kind"], c["via"]
        if kind == "lex":
            return m
        if via == "fn":
            return m
        if m.startswith("ok "):
            body = m[3:]
            if kind in ("int", "uint"):
                return f"{kind}:{body}"
            vals = [] if body == "-" else [int(x) for x in body.split(",")]
            if kind == "str":
                return "string:" + json.dumps(text_of(vals))
            return "bytes:" + bytes(vals).hex()
        if m == "raise ValueError":
            return "err"
        if m.startswith("raise "):
            return "EXC " + m[6:]
        return m

    # ---- oracle ---------------------------------------------------------------------------------
    def oracle(self, c, out):
        msg = self._oracle(c, out)
        if msg and c.get("ctx"):
            text = wrap(c) if c["kind"] in ("str", "bytes") else text_of(c["text"])
            msg = f"inside {ctx_src(text, c['ctx'])[:80]!r}: " + msg
        return msg

    def _oracle(self, c, out):
        kind, via = c["kind"], c["via"]
        ctx = c.get("ctx")
        if kind == "lex":
            text = text_of(c["text"])
            whole = f"some {len(text)}"
            if c.get("valid") and out != whole:
                return (f"terminal {c['term']} on the literal {text[:80]!r}: the regular expression must match the whole "
                        f"spelled literal ({len(text)} characters), re.match gave {out}")
            if out != whole and self._single_token(text) == c["term"]:
                return f"lark cut {text[:80]!r} as one {c['term']} token but the terminal's regular expression gives {out}"
            return None
        if kind in ("str", "bytes"):
            exp = ref_value(c)
            if "value" in c:
                if exp is None or exp != c["value"]:
                    # the harness's encoder and its reference decoder disagree: a bug of the check itself
                    return f"HARNESS: encoder produced {wrap(c)!r} for {c['value']} but the reference decoder reads {exp}"
            if exp is None:
                return None
            if via == "fn":
                want = "ok " + (",".join(str(x) for x in exp) or "-")
            elif kind == "str":
                want = "string:" + json.dumps(text_of(exp))
            else:
                want = "bytes:" + bytes(exp).hex()
            want = ctx_out(want, ctx)
            if out != want:
                return (f"{kind} literal {wrap(c)!r} via {via}: spells {exp} "
                        f"({'code points' if kind == 'str' else 'octets'}), implementation gave {out}")
            return None
        text = text_of(c["text"])
        if kind in ("int", "uint"):
            t = text if kind == "int" else text[:-1]
            n = spelled_int(t)
            if n is None:
                return None
            lo, hi = (I_MIN, I_MAX) if kind == "int" else (0, U_MAX)
            digits = t.lstrip("-")
            if not digits.startswith("0x") and len(digits) > 4300:
                return None                       # beyond CPython's int<->str digit limit: not claimed
            if kind == "uint" and t.startswith("-"):
                # CEL has no signed uint literal; claimed only: never a wrapped value
                if n != 0 and celrun.is_value(out) and not out.startswith("raise"):
                    return f"uint literal {text!r} via {via}: negative number evaluated to {out}"
                return None
            ok = lo <= n <= hi
            if via == "fn":
                want = f"ok {n}" if ok else "raise ValueError"
            else:
                want = ctx_out(f"{kind}:{n}" if ok else "err", ctx)
            if out != want:
                return f"{kind} literal {text!r} via {via}: spells {n} ({'in' if ok else 'out of'} range), expected {want}, implementation gave {out}"
            return None
        if kind == "float":
            if not FLOAT_RE.match(text):
                return None
            want = ctx_out("double:" + celrun.dbl_bits(float(text)), ctx)
            if out != want:
                return f"float literal {text[:60]!r} via {via}: float() gives {want}, implementation gave {out}"
            return None
        return None

    def nontrivial(self, c, out):
        kind = c["kind"]
        if kind == "lex":
            return len(c["text"]) > 2 and out != "none"
        if kind in ("str", "bytes"):
            return any(x in (92, 34, 39, 10, 13) or x > 126 or x < 32 for x in c["body"])
        text = text_of(c["text"])
        if kind == "float":
            return True
        n = spelled_int(text.rstrip("uU"))
        if n is None:
            return False
        near = min(abs(n - I_MIN), abs(n - I_MAX), abs(n - U_MAX), abs(n)) <= 2
        d = text.lstrip("-")
        return near or text.startswith("-") or d.startswith("0x") or (len(d) > 1 and d.startswith("0"))

    def known_preds(self):
        return {}


PROP = C07()
