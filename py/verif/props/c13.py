"""C13 — results carry their CEL type: type() and API values agree with the language."""
from __future__ import annotations
import random
from typing import Any, Dict, Iterable, List, Optional, Tuple

from ..core import Prop
from .. import celrun
from .. import celvals as V

# CEL type names in the order of the type vector
NAMES = ["int", "uint", "double", "bool", "string", "bytes", "list", "map", "null_type", "timestamp", "duration", "type"]
TAG2NAME = {"i": "int", "u": "uint", "d": "double", "b": "bool", "s": "string", "y": "bytes", "l": "list", "m": "map",
            "z": "null_type", "t": "timestamp", "r": "duration", "T": "type"}
OPSYM = {"add": "+", "sub": "-", "mul": "*", "div": "/", "mod": "%"}
RELSYM = {"eq": "==", "ne": "!=", "lt": "<", "le": "<=", "gt": ">", "ge": ">="}
PREDS = ["startsWith", "endsWith", "contains", "matches"]
MACROS = ["all", "exists", "exists_one"]
CONV_NAME = {"i": "int", "u": "uint", "d": "double", "s": "string", "y": "bytes", "b": "bool", "r": "duration", "t": "timestamp"}
FIELDS = ["a", "b", "c", "k1"]

# --------------------------------------------------------------------------------------------------------------
# typed expressions (JSON-able):
#   ["lit", valspec, via]            via = "lit" | "var"
#   ["var", name]                    macro variable (only inside a macro body)
#   ["neg", e] ["bin", op, a, b] ["rel", op, a, b] ["in", a, b] ["not", e] ["and", a, b] ["or", a, b] ["cond", g, a, b]
#   ["conv", tag, e] ["type", e] ["size", e] ["pred", k, a, b] ["has", mapspec, field, via]
#   ["macro", kind, [elem valspecs], var, body]      all / exists / exists_one  -> bool
#   ["lmacro", kind, [elem valspecs], var, body]     map / filter               -> list      (Python-side only)
#   ["list", [e…]]
#   ["idx", listexpr_or_mapexpr, keyexpr]            (Python-side only: result type from the element type)
#   ["get", name, e]                                 timestamp/duration accessor -> int (Python-side only)
# --------------------------------------------------------------------------------------------------------------


def range_is_map(r) -> bool:
    """a macro range is a list of element specs, or a map spec ["m", kvs] (the macro then ranges over the keys)"""
    return isinstance(r, list) and len(r) == 2 and r[0] == "m"


def range_elems(r) -> list:
    return [k for k, _ in r[1]] if range_is_map(r) else r


def range_spec(r):
    return r if range_is_map(r) else ["l", r]


def elem_type(specs) -> Any:
    ts = {type_of_val(v) for v in specs}
    return ts.pop() if len(ts) == 1 else "dyn"


def type_of_val(v) -> Any:
    t = v[0]
    if t == "l":
        return ("l", elem_type(v[1]))
    if t == "m":
        return ("m", elem_type([k for k, _ in v[1]]), elem_type([x for _, x in v[1]]))
    return t


# -- the independent type checker (the oracle's notion of the CEL type of an expression) -----------------------

class IllTyped(Exception):
    pass


BIN_RULES = {
    ("add", "i", "i"): "i", ("sub", "i", "i"): "i", ("mul", "i", "i"): "i", ("div", "i", "i"): "i", ("mod", "i", "i"): "i",
    ("add", "u", "u"): "u", ("sub", "u", "u"): "u", ("mul", "u", "u"): "u", ("div", "u", "u"): "u", ("mod", "u", "u"): "u",
    ("add", "d", "d"): "d", ("sub", "d", "d"): "d", ("mul", "d", "d"): "d", ("div", "d", "d"): "d",
    ("add", "s", "s"): "s", ("add", "y", "y"): "y",
    ("add", "t", "r"): "t", ("add", "r", "t"): "t", ("sub", "t", "r"): "t", ("sub", "t", "t"): "r",
    ("add", "r", "r"): "r", ("sub", "r", "r"): "r",
}


def check(e, env=None) -> Any:
    """CEL type of a typed expression by the language's typing rules (independent of celpy and of the Lean model)"""
    env = env or {}
    k = e[0]
    if k == "lit":
        return type_of_val(e[1])
    if k == "var":
        return env[e[1]]
    if k == "neg":
        t = check(e[1], env)
        if t in ("i", "d", "r"):
            return t
        raise IllTyped(e)
    if k == "bin":
        a, b = check(e[2], env), check(e[3], env)
        if e[1] == "add" and isinstance(a, tuple) and isinstance(b, tuple) and a[0] == "l" and b[0] == "l":
            return ("l", a[1] if a[1] == b[1] else "dyn")
        r = BIN_RULES.get((e[1], a, b))
        if r is None:
            raise IllTyped(e)
        return r
    if k == "rel":
        a, b = check(e[2], env), check(e[3], env)
        if top(a) != top(b) and "dyn" not in (a, b):
            raise IllTyped(e)
        return "b"
    if k == "in":
        check(e[1], env)
        c = check(e[2], env)
        if top(c) not in ("l", "m"):
            raise IllTyped(e)
        return "b"
    if k == "not":
        if check(e[1], env) != "b":
            raise IllTyped(e)
        return "b"
    if k in ("and", "or"):
        if check(e[1], env) != "b" or check(e[2], env) != "b":
            raise IllTyped(e)
        return "b"
    if k == "cond":
        g, a, b = check(e[1], env), check(e[2], env), check(e[3], env)
        if g != "b" or top(a) != top(b):
            raise IllTyped(e)
        return a if a == b else (top(a) if not isinstance(a, tuple) else (a[0],) + tuple("dyn" for _ in a[1:]))
    if k == "conv":
        check(e[2], env)
        return e[1]
    if k == "type":
        check(e[1], env)
        return "T"
    if k == "size":
        if top(check(e[1], env)) not in ("s", "y", "l", "m"):
            raise IllTyped(e)
        return "i"
    if k == "pred":
        if check(e[2], env) != "s" or check(e[3], env) != "s":
            raise IllTyped(e)
        return "b"
    if k == "has":
        return "b"
    if k in ("macro", "lmacro"):
        # an empty range has no element to read the variable's type from: the generator declares it (6th field)
        els = range_elems(e[2])
        et = elem_type(els) if els else (tuple(e[5]) if len(e) > 5 and isinstance(e[5], list) else (e[5] if len(e) > 5 else "dyn"))
        env2 = dict(env)
        env2[e[3]] = et
        bt = check(e[4], env2)
        if k == "macro" or e[1] == "filter":
            if bt != "b":
                raise IllTyped(e)
            return "b" if k == "macro" else ("l", et)
        return ("l", bt)
    if k == "list":
        ts = [check(x, env) for x in e[1]]
        return ("l", ts[0] if ts and all(t == ts[0] for t in ts) else "dyn")
    if k == "idx":
        c = check(e[1], env)
        check(e[2], env)
        if top(c) == "l":
            return c[1]
        if top(c) == "m":
            return c[2]
        raise IllTyped(e)
    if k == "get":
        t = check(e[2], env)
        if t not in ("t", "r"):
            raise IllTyped(e)
        return "i"
    raise IllTyped(e)


def top(t) -> str:
    return t[0] if isinstance(t, tuple) else t


# -- rendering ---------------------------------------------------------------------------------------------------

class Render:
    def __init__(self):
        self.bind: Dict[str, Any] = {}
        self.names: Dict[str, str] = {}

    def lit(self, spec, via) -> str:
        if via == "lit":
            s = V.to_lit(spec)
            if s is not None:
                return s
        key = repr(spec)
        if key in self.names:
            return self.names[key]      # the same value bound once and mentioned twice: `v0 + v0`, `v0 in [..]` (identity)
        name = f"v{len(self.bind)}"
        self.bind[name] = V.to_obj(spec)
        self.names[key] = name
        return name

    def r(self, e) -> str:
        k = e[0]
        if k == "lit":
            return self.lit(e[1], e[2])
        if k == "var":
            return e[1]
        if k == "neg":
            return f"(-({self.r(e[1])}))"
        if k == "bin":
            return f"({self.r(e[2])} {OPSYM[e[1]]} {self.r(e[3])})"
        if k == "rel":
            return f"({self.r(e[2])} {RELSYM[e[1]]} {self.r(e[3])})"
        if k == "in":
            return f"({self.r(e[1])} in {self.r(e[2])})"
        if k == "not":
            return f"(!({self.r(e[1])}))"
        if k == "and":
            return f"({self.r(e[1])} && {self.r(e[2])})"
        if k == "or":
            return f"({self.r(e[1])} || {self.r(e[2])})"
        if k == "cond":
            return f"({self.r(e[1])} ? {self.r(e[2])} : {self.r(e[3])})"
        if k == "conv":
            return f"{CONV_NAME[e[1]]}({self.r(e[2])})"
        if k == "type":
            return f"type({self.r(e[1])})"
        if k == "size":
            return f"size({self.r(e[1])})"
        if k == "pred":
            return f"({self.r(e[2])}).{PREDS[e[1]]}({self.r(e[3])})"
        if k == "has":
            return f"has({self.lit(e[1], e[3])}.{e[2]})"
        if k in ("macro", "lmacro"):
            via = e[6] if len(e) > 6 else "lit"
            return f"{self.lit(range_spec(e[2]), via)}.{e[1]}({e[3]}, {self.r(e[4])})"
        if k == "list":
            return "[" + ", ".join(self.r(x) for x in e[1]) + "]"
        if k == "idx":
            return f"({self.r(e[1])})[{self.r(e[2])}]"
        if k == "get":
            tz = ("'" + e[3] + "'") if len(e) > 3 and e[3] else ""
            return f"({self.r(e[2])}).{e[1]}({tz})"
        raise ValueError(e)


def subst(e, name, spec):
    """replace the macro variable by a literal (variable-bound) value"""
    k = e[0]
    if k == "var":
        return ["lit", spec, "var"] if e[1] == name else e
    if k in ("lit", "has"):
        return e
    if k == "list":
        return ["list", [subst(x, name, spec) for x in e[1]]]
    if k in ("macro", "lmacro"):
        return e if e[3] == name else [k, e[1], e[2], e[3], subst(e[4], name, spec)] + e[5:]
    return [k] + [subst(x, name, spec) if _is_expr(x) else x for x in e[1:]]


def _is_expr(x) -> bool:
    return isinstance(x, list) and bool(x) and isinstance(x[0], str) and x[0] in KINDS


KINDS = {"lit", "var", "neg", "bin", "rel", "in", "not", "and", "or", "cond", "conv", "type", "size", "pred", "has", "macro",
         "lmacro", "list", "idx", "get"}
LEAN_KINDS = KINDS - {"idx", "var"}
GETTERS = ["getDate", "getDayOfMonth", "getDayOfWeek", "getDayOfYear", "getFullYear", "getMonth", "getHours", "getMilliseconds",
           "getMinutes", "getSeconds"]


def in_lean_fragment(e) -> bool:
    k = e[0]
    if k not in LEAN_KINDS:
        return False
    if k in ("lit", "has"):
        return True
    if k in ("macro", "lmacro"):
        return in_lean_fragment(subst(e[4], e[3], ["z"]))
    if k == "list":
        return all(in_lean_fragment(x) for x in e[1])
    return all(in_lean_fragment(x) for x in e[1:] if _is_expr(x))


def tokens(e) -> str:
    k = e[0]
    if k == "lit":
        return "lit " + V.tokens(e[1])
    if k == "neg":
        return "neg " + tokens(e[1])
    if k == "bin":
        return f"bin {e[1]} {tokens(e[2])} {tokens(e[3])}"
    if k == "rel":
        return f"rel {e[1]} {tokens(e[2])} {tokens(e[3])}"
    if k == "in":
        return f"in {tokens(e[1])} {tokens(e[2])}"
    if k == "not":
        return "not " + tokens(e[1])
    if k in ("and", "or"):
        return f"{k} {tokens(e[1])} {tokens(e[2])}"
    if k == "cond":
        return f"cond {tokens(e[1])} {tokens(e[2])} {tokens(e[3])}"
    if k == "conv":
        return f"conv {TAG2NAME[e[1]]} {tokens(e[2])}"
    if k == "type":
        return "type " + tokens(e[1])
    if k == "size":
        return "size " + tokens(e[1])
    if k == "pred":
        return f"pred {e[1]} {tokens(e[2])} {tokens(e[3])}"
    if k == "has":
        cps = [ord(ch) for ch in e[2]]
        return f"has lit {V.tokens(e[1])} {len(cps)}" + "".join(f" {c}" for c in cps)
    if k == "macro":
        bodies = [subst(e[4], e[3], s) for s in range_elems(e[2])]
        return f"mac {MACROS.index(e[1])} {len(bodies)}" + "".join(" " + tokens(b) for b in bodies)
    if k == "get":
        tz = e[3] if len(e) > 3 and e[3] else ""
        cps = [ord(ch) for ch in tz]
        return f"get {GETTERS.index(e[1])} {1 if tz else 0} {tokens(e[2])}" + (f" {len(cps)}" + "".join(f" {c}" for c in cps) if tz else "")
    if k == "lmacro":
        els = range_elems(e[2])
        bodies = [subst(e[4], e[3], s) for s in els]
        return (f"lmac {1 if e[1] == 'filter' else 0} {len(els)}" + "".join(" " + V.tokens(x) for x in els)
                + "".join(" " + tokens(b) for b in bodies))
    if k == "list":
        return f"list {len(e[1])}" + "".join(" " + tokens(x) for x in e[1])
    raise ValueError(e)


def uses_has(e) -> bool:
    if e[0] == "has":
        return True
    if e[0] in ("lit", "var"):
        return False
    return any(uses_has(x) for x in _children(e))


def _children(e):
    if e[0] == "list":
        return e[1]
    if e[0] in ("macro", "lmacro"):
        return [e[4]]
    return [x for x in e[1:] if _is_expr(x)]


def payload_exact(e) -> bool:
    """no node whose payload the Lean driver only approximates (accessors, regex/contains, text conversions)"""
    if e[0] in ("get", "pred"):
        return False
    if e[0] == "conv" and e[1] in ("s", "y", "r", "t", "b"):
        return False
    if e[0] in ("lit", "var", "has"):
        return True
    return all(payload_exact(x) for x in _children(e))


def size_of(e) -> int:
    return 1 + sum(size_of(x) for x in _children(e))


def root_kinds(e) -> set:
    s = {e[0] + (":" + str(e[1]) if e[0] in ("bin", "conv", "macro", "lmacro") else "")}
    for x in _children(e):
        s |= root_kinds(x)
    return s


# -- generator ---------------------------------------------------------------------------------------------------

SMALL = {"i": [0, 1, 2, 3, -1, -7, 10, 100, 2**31], "u": [0, 1, 2, 3, 7, 10, 2**32]}


def small_val(rng, t):
    if isinstance(t, tuple):
        if t[0] == "l":
            return ["l", [small_val(rng, t[1]) for _ in range(rng.choice([0, 1, 2]))]]
        kvs: list = []
        for _ in range(rng.choice([0, 1, 2])):
            kvs = V._add_key(rng, ("m", t[1], t[2]), kvs, small_val(rng, t[2]))
        return ["m", kvs]
    if t in ("i", "u"):
        return [t, rng.choice(SMALL[t])] if rng.random() < 0.8 else V.gen_scalar(rng, t)
    if t == "d":
        x = V.gen_scalar(rng, "d")
        return x if x[1] != "nan" or rng.random() < 0.3 else ["d", V.bits_of(1.5)]
    if t == "s":
        return ["s", [rng.choice([0x61, 0x62, 0x63, 0xE9, 0x1F431]) for _ in range(rng.choice([0, 1, 2, 3]))]]
    if t == "t":
        return ["t", rng.choice([0, 1234567890 * 10**6, 951782400 * 10**6 + 123456, -86400 * 10**6]), rng.choice([0, 60, -480, 330])]
    if t == "r":
        return ["r", rng.choice([0, 10**6, -10**6, 3600 * 10**6, 1500000, 86400 * 10**6 * 365])]
    return V.gen_scalar(rng, t)


class Gen:
    def __init__(self, rng: random.Random):
        self.rng = rng

    def via(self):
        return "lit" if self.rng.random() < 0.6 else "var"

    def lit(self, t):
        if isinstance(t, tuple):
            if t[0] == "l":
                return ["lit", ["l", [small_val(self.rng, t[1]) for _ in range(self.rng.choice([0, 1, 2, 3]))]], self.via()]
            kvs = []
            for _ in range(self.rng.choice([0, 1, 2])):
                kvs = V._add_key(self.rng, ("m", t[1], t[2]), kvs, small_val(self.rng, t[2]))
            return ["lit", ["m", kvs], self.via()]
        return ["lit", small_val(self.rng, t), self.via()]

    def boolexpr(self, d):
        return self.expr("b", d)

    def expr(self, t, d) -> list:
        rng = self.rng
        if d <= 0 or rng.random() < 0.15:
            return self.lit(t)
        r = rng.random()
        if r < 0.08:
            return ["cond", self.boolexpr(d - 1), self.expr(t, d - 1), self.expr(t, d - 1)]
        if r < 0.14 and not isinstance(t, tuple):
            # index into a list / map of t
            if rng.random() < 0.5:
                n = rng.randint(1, 3)
                return ["idx", ["list", [self.expr(t, d - 1) for _ in range(n)]], ["lit", ["i", rng.randrange(n)], "lit"]]
            kvs = [[["s", [0x61 + j]], small_val(rng, t)] for j in range(rng.randint(1, 2))]
            return ["idx", ["lit", ["m", kvs], self.via()], ["lit", kvs[0][0], "lit"]]
        if isinstance(t, tuple):
            if t[0] == "l":
                c = rng.random()
                if c < 0.35:
                    return ["bin", "add", self.expr(t, d - 1), self.expr(t, d - 1)]
                if c < 0.65:
                    return ["list", [self.expr(t[1], d - 1) for _ in range(rng.randint(0, 3))]]
                if c < 0.85 and not isinstance(t[1], tuple):
                    # filter over elements of the same type / map producing t[1]
                    if rng.random() < 0.5:
                        elems = [small_val(rng, t[1]) for _ in range(rng.randint(0, 3))]
                        return ["lmacro", "filter", elems, "x", self.body_bool(t[1], "x", d - 1), t[1]]
                    et = rng.choice(["i", "s", "d"])
                    elems = [small_val(rng, et) for _ in range(rng.randint(0, 3))]
                    return ["lmacro", "map", elems, "x", self.body_of(t[1], et, "x", d - 1), et]
                return self.lit(t)
            return self.lit(t)
        if t == "i":
            c = rng.random()
            if c < 0.45:
                return ["bin", rng.choice(["add", "sub", "mul", "div", "mod"]), self.expr("i", d - 1), self.expr("i", d - 1)]
            if c < 0.55:
                return ["neg", self.expr("i", d - 1)]
            if c < 0.7:
                st = rng.choice(["s", "y", ("l", "i"), ("m", "s", "i")])
                return ["size", self.expr(st, d - 1)]
            if c < 0.9:
                src = rng.choice(["i", "u", "d", "s"])
                if src == "s":
                    return ["conv", "i", ["lit", ["s", [ord(ch) for ch in str(rng.choice([0, 7, -12, 123456]))]], self.via()]]
                if src == "d":
                    return ["conv", "i", ["lit", ["d", V.bits_of(rng.choice([0.0, 1.5, -2.75, 1e10, -0.0]))], self.via()]]
                return ["conv", "i", self.lit(src) if src == "u" else self.expr("i", d - 1)]
            return ["get", rng.choice(["getFullYear", "getMonth", "getDate", "getHours", "getMinutes", "getSeconds", "getDayOfWeek", "getDayOfYear", "getMilliseconds"]),
                    self.expr("t", d - 1)] if rng.random() < 0.7 else ["get", rng.choice(["getHours", "getMinutes", "getSeconds", "getMilliseconds"]), self.expr("r", d - 1)]
        if t == "u":
            c = rng.random()
            if c < 0.6:
                return ["bin", rng.choice(["add", "sub", "mul", "div", "mod"]), self.expr("u", d - 1), self.expr("u", d - 1)]
            src = rng.choice(["u", "i", "d", "s"])
            if src == "s":
                return ["conv", "u", ["lit", ["s", [ord(ch) for ch in str(rng.choice([0, 7, 123456]))]], self.via()]]
            if src == "d":
                return ["conv", "u", ["lit", ["d", V.bits_of(rng.choice([0.0, 1.5, 1e10]))], self.via()]]
            if src == "i":
                return ["conv", "u", ["lit", ["i", rng.choice([0, 1, 5, 2**40])], self.via()]]
            return ["conv", "u", self.expr("u", d - 1)]
        if t == "d":
            c = rng.random()
            if c < 0.6:
                return ["bin", rng.choice(["add", "sub", "mul", "div"]), self.expr("d", d - 1), self.expr("d", d - 1)]
            if c < 0.75:
                return ["neg", self.expr("d", d - 1)]
            src = rng.choice(["d", "i", "u"])
            return ["conv", "d", self.expr(src, d - 1)]
        if t == "s":
            c = rng.random()
            if c < 0.55:
                return ["bin", "add", self.expr("s", d - 1), self.expr("s", d - 1)]
            src = rng.choice(["s", "i", "u", "d", "y", "b"])
            if src == "y":
                return ["conv", "s", ["lit", ["y", [rng.choice([0x61, 0x62, 0x20]) for _ in range(rng.randint(0, 3))]], self.via()]]
            if src == "b":
                return ["conv", "s", self.lit("b")]
            return ["conv", "s", self.expr(src, d - 1)]
        if t == "y":
            c = rng.random()
            if c < 0.6:
                return ["bin", "add", self.expr("y", d - 1), self.expr("y", d - 1)]
            return ["conv", "y", self.expr(rng.choice(["s", "y"]), d - 1)]
        if t == "t":
            c = rng.random()
            if c < 0.3:
                return ["bin", "add", self.expr("t", d - 1), self.expr("r", d - 1)]
            if c < 0.5:
                return ["bin", "add", self.expr("r", d - 1), self.expr("t", d - 1)]
            if c < 0.75:
                return ["bin", "sub", self.expr("t", d - 1), self.expr("r", d - 1)]
            if c < 0.9:
                return ["conv", "t", ["lit", ["s", [ord(ch) for ch in rng.choice(["2009-02-13T23:31:30Z", "2020-01-01T00:00:00+05:30", "1999-12-31T23:59:59.5-08:00"])]], self.via()]]
            return ["conv", "t", self.expr("t", d - 1)]
        if t == "r":
            c = rng.random()
            if c < 0.25:
                return ["bin", "sub", self.expr("t", d - 1), self.expr("t", d - 1)]
            if c < 0.5:
                return ["bin", "add", self.expr("r", d - 1), self.expr("r", d - 1)]
            if c < 0.7:
                return ["bin", "sub", self.expr("r", d - 1), self.expr("r", d - 1)]
            if c < 0.85:
                return ["neg", self.expr("r", d - 1)]
            if c < 0.95:
                return ["conv", "r", ["lit", ["s", [ord(ch) for ch in rng.choice(["10s", "1h30m", "-2s", "1.5s", "0s"])]], self.via()]]
            return ["conv", "r", self.expr("r", d - 1)]
        if t == "T":
            return ["type", self.expr(rng.choice(V.SCALARS + [("l", "i"), ("m", "s", "i")]), d - 1)]
        if t == "b":
            c = rng.random()
            if c < 0.3:
                ot = rng.choice(["i", "u", "d", "s", "y", "b", "t", "r"])
                return ["rel", rng.choice(list(RELSYM)), self.expr(ot, d - 1), self.expr(ot, d - 1)]
            if c < 0.4:
                ot = rng.choice([("l", "i"), ("m", "s", "i"), "z", "T", ("l", "s")])
                return ["rel", rng.choice(["eq", "ne"]), self.expr(ot, d - 1), self.expr(ot, d - 1)]
            if c < 0.5:
                et = rng.choice(["i", "s", "u", "b"])
                if rng.random() < 0.7:
                    return ["in", self.expr(et, d - 1), self.expr(("l", et), d - 1)]
                return ["in", self.lit(et), self.lit(("m", et, "i"))]
            if c < 0.58:
                return ["not", self.boolexpr(d - 1)]
            if c < 0.7:
                return [rng.choice(["and", "or"]), self.boolexpr(d - 1), self.boolexpr(d - 1)]
            if c < 0.8:
                k = rng.randrange(4)
                pat = self.expr("s", d - 1) if k < 3 else ["lit", ["s", [ord(ch) for ch in rng.choice(["a", "a+b", "^x", ".*", "[ab]c"])]], "lit"]
                return ["pred", k, self.expr("s", d - 1), pat]
            if c < 0.88:
                keys = rng.sample(FIELDS, rng.randint(0, 3))
                m = ["m", [[["s", [ord(ch) for ch in k]], small_val(rng, rng.choice(["i", "s", "b"]))] for k in keys]]
                return ["has", m, rng.choice(FIELDS), self.via()]
            if c < 0.97:
                et = rng.choice(["i", "s", "d", "u"])
                elems = [small_val(rng, et) for _ in range(rng.randint(0, 4))]
                return ["macro", rng.choice(MACROS), elems, "x", self.body_bool(et, "x", d - 1), et]
            return ["conv", "b", ["lit", ["s", [ord(ch) for ch in rng.choice(["true", "false"])]], self.via()]]
        return self.lit(t)

    def body_bool(self, et, var, d):
        """a boolean body over the macro variable of element type `et` (never erring on the elements we generate)"""
        rng = self.rng
        v = ["var", var]
        c = rng.random()
        if c < 0.6 or d <= 0:
            other = ["lit", small_val(rng, et), "lit"]
            return ["rel", rng.choice(list(RELSYM)), v, other]
        if c < 0.8:
            return [rng.choice(["and", "or"]), self.body_bool(et, var, d - 1), self.boolexpr(d - 1)]
        if et == "s":
            return ["pred", rng.randrange(3), v, ["lit", ["s", [0x61]], "lit"]]
        return ["not", self.body_bool(et, var, d - 1)]

    def body_of(self, t, et, var, d):
        """a body of type t over the macro variable of type et"""
        rng = self.rng
        v = ["var", var]
        if t == et and rng.random() < 0.5:
            if t in ("i", "d"):
                return ["bin", "add", v, ["lit", small_val(rng, t) if t == "d" else ["i", rng.choice([0, 1, 2])], "lit"]]
            if t == "s":
                return ["bin", "add", v, ["lit", ["s", [0x21]], "lit"]]
            return v
        if t == "s":
            return ["conv", "s", v]
        if t == "b":
            return self.body_bool(et, var, d)
        if t == "i" and et == "s":
            return ["size", v]
        if t == "d" and et == "i":
            return ["conv", "d", v]
        return self.expr(t, d)


def macro_family(rng: random.Random, quick: bool) -> List[list]:
    """boolean macros and map/filter over list AND map ranges with a controlled number of matching elements
    (0, 1, 2, 3 of 3, and the empty range), predicates that keep everything / nothing, each at the root and under
    `!`, `?:`, `&&`, `||`; ranges spelled as literals or bound as variables. The quick tier keeps a fixed core
    (int elements: every macro x list/map range x 0..3 matches at the root, the empty ranges, filter keeping all /
    some / none, some non-root contexts) plus a random sample of the rest."""
    core, rest = [], []
    S = lambda t: ["s", [ord(c) for c in t]]
    ranges = []
    for et, elems, thr in (("i", [["i", 1], ["i", 2], ["i", 3]], [["i", 4], ["i", 3], ["i", 2], ["i", 1]]),
                           ("s", [S("a"), S("b"), S("c")], [S("d"), S("c"), S("b"), S("a")]),
                           ("u", [["u", 1], ["u", 2], ["u", 3]], [["u", 4], ["u", 3], ["u", 2], ["u", 1]])):
        ranges.append((et, elems, thr))
        ranges.append((et, ["m", [[k, ["i", 10 + j]] for j, k in enumerate(elems)]], thr))
        ranges.append((et, [], thr))
        ranges.append((et, ["m", []], thr))
    for et, rg, thr in ranges:
        n = len(range_elems(rg))
        bodies = [("const-true", ["lit", ["b", 1], "lit"]), ("const-false", ["lit", ["b", 0], "lit"])]
        for k in range(4):
            bodies.append((f"matches-{k}", ["rel", "ge", ["var", "x"], ["lit", thr[k], "lit"]]))
        for tag, body in bodies:
            main = et == "i" and (tag.startswith("matches") if n else tag == "const-true")
            for kind in MACROS:
                via = rng.choice(["lit", "var"])
                m = ["macro", kind, rg, "x", body, et, via]
                (core if main else rest).append(m)
                ctxs = [["not", m], ["cond", m, ["lit", S("y"), "lit"], ["lit", S("n"), "lit"]],
                        ["and", m, ["lit", ["b", 1], "lit"]], ["or", ["lit", ["b", 0], "lit"], m]]
                if main and n and tag in ("matches-2", "matches-1"):
                    core.append(ctxs[MACROS.index(kind) % 3])
                    rest += [c for c in ctxs if c is not core[-1]]
                else:
                    rest += ctxs
            via = rng.choice(["lit", "var"])
            f = ["lmacro", "filter", rg, "x", body, et, via]
            (core if et == "i" and tag in ("const-true", "matches-3", "matches-2", "matches-0") else rest).append(f)
            rest.append(["size", f])
            rest.append(["bin", "add", f, ["lit", ["l", []], "lit"]])
        mp_body = {"i": ["bin", "add", ["var", "x"], ["lit", ["i", 1], "lit"]], "u": ["conv", "s", ["var", "x"]],
                   "s": ["bin", "add", ["var", "x"], ["lit", S("!"), "lit"]]}[et]
        for via in ("lit", "var"):
            (core if et == "i" and via == "lit" else rest).append(["lmacro", "map", rg, "x", mp_body, et, via])
            rest.append(["lmacro", "map", rg, "x", ["lit", ["z"], "lit"], et, via])
    if quick:
        return core + rng.sample(rest, 40)
    return core + rest


def S_(t: str):
    return ["s", [ord(c) for c in t]]


def type_family(rng: random.Random, quick: bool) -> List[list]:
    """`type()` systematically: of a value of each of the twelve kinds (and of containers), of each of the twelve type
    NAMES (`type(int)`, `type(null_type)`, `type(type)`), of a type (`type(type(x))` for x of every kind), three deep, and
    a type compared with a type name; type names spelled or bound as variables"""
    core, rest = [], []
    vals = [["i", 1], ["u", 1], ["d", V.bits_of(1.5)], ["b", 1], S_("a"), ["y", [97]], ["l", [["i", 1]]], ["m", [[S_("a"), ["i", 1]]]],
            ["z"], ["t", 1234567890 * 10**6, 0], ["r", 10**6], ["T", "int"]]
    for i, name in enumerate(NAMES):
        via = "lit" if (i + rng.randrange(2)) % 2 else "var"
        core.append(["type", ["lit", ["T", name], via]])
        rest.append(["type", ["lit", ["T", name], "var" if via == "lit" else "lit"]])
        rest.append(["rel", "eq", ["type", ["lit", ["T", name], "lit"]], ["lit", ["T", "type"], "lit"]])
        rest.append(["type", ["type", ["lit", ["T", name], "lit"]]])
    for v in vals:
        via = rng.choice(["lit", "var"])
        core.append(["type", ["type", ["lit", v, via]]])
        rest.append(["type", ["lit", v, via]])
        rest.append(["type", ["type", ["type", ["lit", v, via]]]])
        rest.append(["rel", "eq", ["type", ["type", ["lit", v, "lit"]]], ["lit", ["T", "type"], "lit"]])
        rest.append(["rel", "ne", ["type", ["lit", v, "lit"]], ["type", ["type", ["lit", v, "lit"]]]])
    rest.append(["type", ["lit", ["l", []], "lit"]])
    rest.append(["type", ["lit", ["m", []], "lit"]])
    rest.append(["type", ["list", [["type", ["lit", ["i", 1], "lit"]]]]])
    return core + (rng.sample(rest, 12) if quick else rest)


IN_KEY_VALS = {"i": [["i", 1], ["i", 2], ["i", 3]], "u": [["u", 1], ["u", 2], ["u", 3]], "b": [["b", 1], ["b", 0], ["b", 1]],
               "s": [S_("k"), S_("j"), S_("")]}
IN_LIST_VALS = dict(IN_KEY_VALS, d=[["d", V.bits_of(1.5)], ["d", V.bits_of(0.0)], ["d", V.bits_of(-2.0)]],
                    y=[["y", [97]], ["y", []], ["y", [98]]], t=[["t", 0, 0], ["t", 10**6, 0], ["t", 2 * 10**6, 60]],
                    r=[["r", 0], ["r", 10**6], ["r", -10**6]], z=[["z"], ["z"], ["z"]])


def in_family(rng: random.Random, quick: bool) -> List[list]:
    """`in` for every pair (item type, container kind): a map keyed by int / uint / bool / string, a list of each scalar
    type; the item found first / found last / not found / the container empty; at the root and under `!`, `?:`, `&&`;
    item and container spelled or bound as variables"""
    core, rest = [], []
    for kt, (a, b, c) in sorted(IN_KEY_VALS.items()):
        distinct = [a] + ([b] if b != a else []) + ([c] if c not in (a, b) else [])
        full = ["m", [[k, ["i", 10 + j]] for j, k in enumerate(distinct)]]
        missing = ["m", [[k, ["i", 10 + j]] for j, k in enumerate(distinct[1:])]]
        for tag, item, cont in (("first", a, full), ("last", distinct[-1], full), ("miss", a, missing), ("empty", a, ["m", []])):
            e = ["in", ["lit", item, rng.choice(["lit", "var"])], ["lit", cont, rng.choice(["lit", "var"])]]
            (core if tag in ("first", "miss") else rest).append(e)
            ctxs = [["not", e], ["cond", e, ["lit", ["i", 1], "lit"], ["lit", ["i", 2], "lit"]], ["and", e, ["lit", ["b", 1], "lit"]],
                    ["or", ["lit", ["b", 0], "lit"], e]]
            k = rng.randrange(len(ctxs))
            (core if tag == "first" else rest).append(ctxs[k])
            rest += [x for j, x in enumerate(ctxs) if j != k]
    for et, (a, b, c) in sorted(IN_LIST_VALS.items()):
        for tag, item, cont in (("first", a, [a, b, c]), ("last", c, [a, b, c]), ("miss", a, [b] if b != a else []), ("empty", a, [])):
            if tag == "miss" and not cont:
                continue
            e = ["in", ["lit", item, rng.choice(["lit", "var"])], ["lit", ["l", cont], rng.choice(["lit", "var"])]]
            (core if tag == "first" or (tag == "miss" and et in ("i", "s")) else rest).append(e)
            rest.append(["not", e])
    return core + (rng.sample(rest, 16) if quick else rest)


BOUNDARY = {
    "i": [["i", 0], ["i", 1], ["i", -1], ["i", 2**63 - 1], ["i", -2**63], ["i", 7]],
    "u": [["u", 0], ["u", 1], ["u", 2**64 - 1], ["u", 7]],
    "d": [["d", V.bits_of(0.0)], ["d", V.bits_of(1.0)], ["d", V.bits_of(-0.0)], ["d", V.bits_of(float("inf"))], ["d", "nan"],
          ["d", V.bits_of(2.5)]],
    "s": [S_(""), S_("a")], "y": [["y", []], ["y", [97]]],
    "t": [["t", 0, 0], ["t", 1234567890 * 10**6, 0], ["t", 951782400 * 10**6, 330]],
    "r": [["r", 0], ["r", 10**6], ["r", -10**6], ["r", 1]],
    ("l", "i"): [["l", []], ["l", [["i", 1]]]],
}


def boundary_family(rng: random.Random, quick: bool) -> List[list]:
    """every binary rule on identity / boundary operands (0, 1, -1, the range ends, 0.0, -0.0, inf, nan, the empty string /
    bytes / list, the zero duration, the epoch) in either position, `x op x` on ONE bound variable, unary minus of
    them, and every conversion applied to a value that already has the target type"""
    core, rest = [], []
    rules = sorted(BIN_RULES) + [("add", ("l", "i"), ("l", "i"))]
    for op, a, b in rules:
        A, B = BOUNDARY[a], BOUNDARY[b]
        pairs = [(x, y) for x in A for y in B]
        main = [(A[0], B[0]), (A[0], B[-1]), (A[-1], B[0])]
        for x, y in pairs:
            e = ["bin", op, ["lit", x, rng.choice(["lit", "var"])], ["lit", y, rng.choice(["lit", "var"])]]
            (core if (x, y) in main else rest).append(e)
        if a == b:
            x = rng.choice(A)
            (core if op in ("add", "sub") else rest).append(["bin", op, ["lit", x, "var"], ["lit", x, "var"]])
    for t in ("i", "d", "r"):
        for j, x in enumerate(BOUNDARY[t]):
            (core if j == 0 else rest).append(["neg", ["lit", x, rng.choice(["lit", "var"])]])
    for t in ("i", "u", "d", "s", "y", "b", "t", "r"):
        x = BOUNDARY[t][0] if t in BOUNDARY else ["b", 0]
        core.append(["conv", t, ["lit", x, rng.choice(["lit", "var"])]])
        rest.append(["conv", t, ["conv", t, ["lit", BOUNDARY[t][-1] if t in BOUNDARY else ["b", 1], "lit"]]])
    return core + (rng.sample(rest, 24) if quick else rest)


def pred_rel_family(rng: random.Random, quick: bool) -> List[list]:
    """each string predicate with a hit and a miss, `size` of an empty / non-empty string, bytes, list, map, and each
    relation between a value and ITSELF (one bound variable mentioned twice: equal and identical) for every kind"""
    core, rest = [], []
    for k in range(4):
        for hit, (x, y) in ((True, ("abc", ("ab", "bc", "b", "b+")[k])), (False, ("abc", "x"))):
            e = ["pred", k, ["lit", S_(x), rng.choice(["lit", "var"])], ["lit", S_(y), "lit" if k == 3 else rng.choice(["lit", "var"])]]
            core.append(e)
            rest += [["not", e], ["and", e, ["not", e]], ["cond", e, ["lit", S_("y"), "lit"], ["lit", S_("n"), "lit"]]]
    for x in (S_(""), S_("ab"), ["y", []], ["y", [1, 2]], ["l", []], ["l", [["i", 1]]], ["m", []], ["m", [[S_("a"), ["i", 1]]]]):
        (core if x[1] else rest).append(["size", ["lit", x, rng.choice(["lit", "var"])]])
    vals = [["i", 1], ["u", 1], ["d", V.bits_of(1.5)], ["b", 1], S_("a"), ["y", [97]], ["t", 1234567890 * 10**6, 0], ["r", 10**6],
            ["l", [["i", 1]]], ["m", [[S_("a"), ["i", 1]]]], ["z"], ["T", "int"]]
    for j, x in enumerate(vals):
        core.append(["rel", "eq", ["lit", x, "var"], ["lit", x, "var"]])
        rest.append(["rel", "ne", ["lit", x, "var"], ["lit", x, "var"]])
        rest.append(["rel", "eq", ["lit", x, "lit"], ["lit", x, "var"]])
        if j < 8:
            for op in ("lt", "le", "gt", "ge"):
                rest.append(["rel", op, ["lit", x, "var"], ["lit", x, "var"]])
    return core + (rng.sample(rest, 16) if quick else rest)


class SecondEvaluationFailed:
    """evaluating the same program on the same input again did not yield a value although the first evaluation did"""
    def __init__(self, what):
        self.what = what


def canon_cls(v) -> str:
    from celpy import celtypes
    if isinstance(v, SecondEvaluationFailed):
        return f"no-value:{v.what}"
    t = type(v)
    table = {celtypes.IntType: "int", celtypes.UintType: "uint", celtypes.DoubleType: "double", celtypes.BoolType: "bool",
             celtypes.StringType: "string", celtypes.BytesType: "bytes", celtypes.ListType: "list", celtypes.MapType: "map",
             type(None): "null_type", celtypes.TimestampType: "timestamp", celtypes.DurationType: "duration"}
    if t in table:
        return table[t]
    if isinstance(v, type):
        return "type"          # a class object: the library has no separate instance class for CEL's `type`
    import datetime
    nat = {float: "pyfloat", str: "pystr", bytes: "pybytes", list: "pylist", datetime.timedelta: "pytimedelta", bool: "pybool",
           int: "pyint", datetime.datetime: "pydatetime", dict: "pydict"}
    return nat.get(t, f"py:{t.__module__}.{t.__name__}")


class C13(Prop):
    pid = "C13"
    manifest = dict(
        technique=('Lean 4 type-preservation theorem by structural induction over ALL expressions of the well-typed operator fragment '
                   '(arithmetic, concatenation, time arithmetic, unary minus, relations, in, ! && || ?:, conversions, type(), size(), string '
                   'predicates, accessors, has(), boolean macros, map/filter, list literals), both runners, universally over operand values and over the payload '
                   'semantics; the result class of every operator comes from a table of which wrapper class defines which arithmetic dunder '
                   'and what it constructs, regenerated from the class bodies of celtypes.py on every run and proved equal to the model\'s '
                   '(a wrapper that does not define a dunder inherits the native one and its result degrades); likewise how evaluation.py '
                   'wraps results; type(e) == T proved true exactly for the matching name; differential correspondence with a type-directed '
                   'generator; independent type-checker oracle; result class checked by identity and via type(e) == T inside CEL'),
        text=('proof: every well-typed expression of the operator fragment that yields a value yields an instance of the library\'s class for '
              'its CEL type, on the interpreter always and on the compiled runner except through has() (known finding D6); type(x op y) == '
              'type(x); relations/in/has/string predicates/boolean macros yield bool; type(e) == T holds for exactly the matching name. The '
              'tables the proof uses are re-read from the source and bridged on every run'),
        note=('Lean kernel; standard axioms; CPython binary-operator dispatch and the native result classes of float/str/bytes/list/datetime/'
              'timedelta operators are modelled; payload values (IEEE arithmetic, parsing, formatting, regex) are abstract in the proof and '
              'approximated in the driver (only the class is compared); index/field selection and element types are checked by the '
              'oracle only; lark'),
        ref='DESIGN.md §5 C13')
    lean_targets = ["Cel.Props.C13", "Cel.Bridge.ResultCls", "Cel.Bridge.Compare"]
    audit_namespaces = ["Cel.Props.C13", "Cel.Bridge.ResultCls", "Cel.Bridge.Compare"]
    gen_names = ["ResultCls", "Compare"]
    trusted = ["CPython binary-operator dispatch and the classes the native float/str/bytes/list/datetime/timedelta operators return "
               "(modelled in Cel.Model.Typing.nativeBin, corresponded)",
               "payload values are outside the claim: the Lean driver approximates conversions and regular expressions; only result classes "
               "(and the type vector) are compared, and only when the implementation produced a value",
               "the independent type checker in py/verif/props/c13.py (CEL typing rules for the generated fragment)",
               "lark / pendulum parsing of the generated texts"]
    rule = ("type-directed generator: pick a CEL type (12 kinds incl. list(T), map(K,V)), build a well-typed expression of it of depth <= 4 from "
            "every operator, function, macro and conversion applicable at that type (each also forced at the root), operands spelled as literals or "
            "bound as variables; evaluate on the interpreter and the compiled runner; compare the class of the returned object (by identity) and the "
            "vector of `type(e) == T` for the twelve names evaluated inside CEL with (a) the Lean model, (b) the type computed by an independent "
            "type checker over the generated AST. Round 2: systematic families — type() of every kind, of every type NAME and of types (chains); `in` for every "
            "(item type x container kind), found/not found/empty; every binary rule on identity/boundary operands and on ONE bound object "
            "on both sides; every string predicate hit/miss; conversions to the type a value already has — and every program is evaluated TWICE on "
            "the same input (classes of both results must agree), the two runners in either order. non-trivial = distinct case whose root is an operator/function/macro/conversion (not a bare literal) "
            "and that produced a value")

    # -- generation ---------------------------------------------------------------------------------------------
    def generate(self, rng: random.Random, tier: str) -> Iterable[Dict[str, Any]]:
        quick = tier == "quick"
        g = Gen(rng)
        cases = []
        types = V.SCALARS + [("l", "i"), ("l", "s"), ("l", "d"), ("m", "s", "i"), ("l", ("l", "i"))]
        n = 170 if quick else 2500
        for i in range(n):
            t = rng.choice(types) if rng.random() < 0.5 else rng.choice(["i", "u", "d", "b", "b", "b", "s", "y", "t", "r"])
            e = g.expr(t, rng.choice([1, 1, 2, 2, 3, 4]))
            for runner in ("I", "C"):
                cases.append({"kind": "expr", "e": e, "runner": runner})
        # every binary operator / unary minus / conversion at the root with literal and variable operands
        roots = []
        for (op, a, b), r in sorted(BIN_RULES.items()):
            for _ in range(2 if quick else 12):
                roots.append(["bin", op, g.lit(a), g.lit(b)])
        for _ in range(2 if quick else 12):
            roots.append(["bin", "add", g.lit(("l", "i")), g.lit(("l", "i"))])
            roots.append(["bin", "add", g.lit(("l", "s")), g.lit(("l", ("l", "i")))])
        for t in ("i", "d", "r"):
            for _ in range(2 if quick else 10):
                roots.append(["neg", g.lit(t)])
        for t in ("i", "u", "d", "s", "y", "b", "t", "r"):
            for _ in range(3 if quick else 20):
                roots.append(g.expr(t, 1))
        for e in roots:
            for runner in ("I", "C"):
                cases.append({"kind": "expr", "e": e, "runner": runner})
        # every accessor on a timestamp (with and without a time zone argument) and on a duration
        tsv = ["t", 1234567890 * 10**6 + 250000, 0]
        for name in GETTERS:
            fam = [["get", name, ["lit", tsv, rng.choice(["lit", "var"])]],
                   ["get", name, ["lit", tsv, "lit"], rng.choice(["+02:00", "-08:00", "Europe/Paris", "UTC"])]]
            if name in ("getHours", "getMinutes", "getSeconds", "getMilliseconds"):
                fam.append(["get", name, ["lit", ["r", 5430500000], rng.choice(["lit", "var"])]])
                fam.append(["get", name, ["bin", "add", ["lit", ["r", 300000], "var"], ["lit", ["r", 300000], "var"]]])
            for e in fam:
                for runner in ("I", "C"):
                    cases.append({"kind": "expr", "e": e, "runner": runner})
        # macros over list and map ranges with 0..3 matching elements, in several contexts
        for e in macro_family(rng, quick):
            for runner in ("I", "C"):
                cases.append({"kind": "expr", "e": e, "runner": runner})
        # round 2: systematic families for rarely combined type pairs, boundary / identity operands, type-of-type chains,
        # identical operands; the two runners in either order (state shared between runners / environments is exercised
        # both ways: every evaluation of a check run happens in ONE process)
        for fam in (type_family, in_family, boundary_family, pred_rel_family):
            for e in fam(rng, quick):
                for runner in (("I", "C") if rng.random() < 0.5 else ("C", "I")):
                    cases.append({"kind": "expr", "e": e, "runner": runner})
        # `type(x op y) == type(x)` evaluated inside CEL
        for (op, a, b), r in sorted(BIN_RULES.items()):
            if r != a:
                continue
            for _ in range(1 if quick else 6):
                x, y = g.lit(a), g.lit(b)
                for runner in ("I", "C"):
                    cases.append({"kind": "optype", "e": ["bin", op, x, y], "runner": runner})
        return cases

    # -- implementation -----------------------------------------------------------------------------------------
    def _eval(self, src, runner, bind, again=False):
        """-> ('val', object) | ('err', None) | ('exc', name); with `again`: ('val', (first, second evaluation))"""
        import celpy
        from celpy.evaluation import CELEvalError
        try:
            env = celpy.Environment(runner_class=celrun.RUNNERS[runner])
            ast_ = env.compile(src)
            prog = env.program(ast_)
            v = prog.evaluate(dict(bind))
            if again:
                # the SAME program on the SAME input once more: a memo / cache / lazily initialised state must not change
                # the class of what is handed back (the type vector below re-evaluates the expression in a fresh program)
                try:
                    v2 = prog.evaluate(dict(bind))
                except CELEvalError:
                    v2 = SecondEvaluationFailed("error")
                except Exception as ex:   # noqa
                    v2 = SecondEvaluationFailed(type(ex).__name__)
                return "val", (v, v2)
            return "val", v
        except CELEvalError:
            return "err", None
        except celpy.CELParseError:
            return "exc", "parse-error"
        except Exception as ex:   # noqa
            return "exc", type(ex).__name__

    _vec: Dict[str, Any] = {}

    def _vector(self, runner, tobj):
        """`[t == int, t == uint, …]` inside CEL with `t` bound to the object `type(e)` handed back (program built once)"""
        import celpy
        from celpy.evaluation import CELEvalError
        try:
            if runner not in self._vec:
                env = celpy.Environment(runner_class=celrun.RUNNERS[runner])
                self._vec[runner] = env.program(env.compile("[" + ", ".join(f"t == {n}" for n in NAMES) + "]"))
            return "val", self._vec[runner].evaluate({"t": tobj})
        except CELEvalError:
            return "err", None
        except Exception as ex:   # noqa
            return "exc", type(ex).__name__

    def impl(self, c):
        rd = Render()
        src = rd.r(c["e"])
        runner = c["runner"]
        if c["kind"] == "optype":
            lhs = rd.r(c["e"][2])
            k, v = self._eval(f"type({src}) == type({lhs})", runner, rd.bind)
            out = celrun.canon(v) if k == "val" else ("err" if k == "err" else f"EXC {v}")
            c["_impl_out"] = out
            return out
        k, v = self._eval(src, runner, rd.bind, again=True)
        if k == "err":
            out = "err"
        elif k == "exc":
            out = f"EXC {v}"
        else:
            v, v_again = v
            cls = canon_cls(v)
            if canon_cls(v_again) != cls:
                cls = f"{cls}->{canon_cls(v_again)}(second-evaluation-of-the-same-program)"
            # `type(e) == T` for the twelve names, inside CEL: one list of the twelve comparisons for a short text; for a
            # long one (parsing twelve copies is what the run time goes into) `type(e)` is evaluated inside CEL and the
            # type object it hands back is compared, again inside CEL, with the twelve names
            tv = None
            if len(src) > 60:
                k2, tobj = self._eval(f"type({src})", runner, rd.bind)
                if k2 == "val":
                    k3, v2 = self._vector(runner, tobj)
                    if k3 == "val" and len(v2) == 12:
                        tv = "".join(("T" if x else "F") if canon_cls(x) == "bool" else ("t" if x else "f") for x in v2)
            if tv is None:
                k2, v2 = self._eval("[" + ", ".join(f"type({src}) == {n}" for n in NAMES) + "]", runner, rd.bind)
                if k2 == "val" and len(v2) == 12:
                    tv = "".join(("T" if x else "F") if canon_cls(x) == "bool" else ("t" if x else "f") for x in v2)
                else:
                    tv = ""
                    for n in NAMES:
                        k3, v3 = self._eval(f"type({src}) == {n}", runner, rd.bind)
                        tv += ("E" if k3 != "val" else (("T" if v3 else "F") if canon_cls(v3) == "bool" else ("t" if v3 else "f")))
            out = f"ok {cls} {tv}"
        c["_impl_out"] = out
        return out

    # -- model ----------------------------------------------------------------------------------------------------
    def model_line(self, c):
        e = c["e"]
        if c["kind"] == "optype":
            e = ["rel", "eq", ["type", e], ["type", e[2]]]
        if not in_lean_fragment(e):
            return None
        if c["runner"] == "C" and uses_has(e):
            return None       # D6: a native bool flows on through || && ?: in ways the model does not follow
        return f"ev {c['runner']} {tokens(e)}"

    def model_expect(self, c, m):
        impl = c.get("_impl_out", "")
        parts = m.split()
        ty = next((p[3:] for p in parts if p.startswith("ty=")), "?")
        # the Lean typing judgement and the Python type checker must agree on the fragment
        try:
            e = c["e"] if c["kind"] != "optype" else ["rel", "eq", ["type", c["e"]], ["type", c["e"][2]]]
            want = TAG2NAME[top(check(e))]
        except IllTyped:
            want = "untyped"
        if ty != want:
            return f"TYPE-JUDGEMENT-DISAGREES lean={ty} python={want}"
        core = " ".join(p for p in parts if "=" not in p)
        bval = next((p[2:] for p in parts if p.startswith("b=")), "-")
        if impl == "err" or impl.startswith("EXC"):
            return impl            # payload-dependent errors are outside the claim: the model predicts the class of a VALUE
        if core == "err" and not payload_exact(c["e"]):
            return impl            # an error of the model that stems from a placeholder payload says nothing
        if c["kind"] == "optype":
            return {"1": "bool:true", "0": "bool:false"}.get(bval, "model:" + core) if core.startswith("ok bool") else "model:" + core
        return core

    # -- oracle ---------------------------------------------------------------------------------------------------
    def oracle(self, c, out):
        rd = Render()
        e = c["e"]
        src = rd.r(e)
        if out.startswith("EXC"):
            return None                  # escaping exceptions are C04's subject
        if c["kind"] == "optype":
            if out == "err":
                return None
            if out != "bool:true":
                return f"runner {c['runner']}: `type({src}) == type({rd.r(e[2])})` gave {out}, expected true (type(x op y) == type(x))"
            return None
        if out == "err":
            return None                  # no value handed back: nothing to carry a type
        try:
            t = check(e)
        except IllTyped:
            return None
        want = TAG2NAME[top(t)]
        _, cls, tv = out.split()
        if cls != want:
            return (f"runner {c['runner']}: `{src}` has CEL type {want} but the value handed back is an instance of "
                    f"{cls} (bindings: {sorted(rd.bind)})")
        exp = "".join("T" if n == want else "F" for n in NAMES)
        if tv != exp:
            bad = [f"type(e) == {n} -> {x}" for n, x, y in zip(NAMES, tv, exp) if x != y]
            return f"runner {c['runner']}: `{src}` has CEL type {want} but inside CEL {'; '.join(bad)}"
        return None

    def nontrivial(self, c, out):
        return c["e"][0] != "lit" and out.startswith("ok")

    def known_preds(self):
        return {"compiled_has": lambda c: c.get("runner") == "C" and uses_has(c.get("e") or ["lit"])}


PROP = C13()
