"""C09 — lists, maps, strings and comprehension macros follow reference semantics.

Roles (CONVENTIONS.md):
  impl         the real implementation: CEL text rendered from the case's expression tree, run through
               Environment.compile/program/evaluate on the chosen runner (or `function_matches` for regex pairs)
  model        Cel.Model.Coll through Cel.Drv.C09 (the same tree in prefix notation)
  oracle       `Ref` below: reference semantics of the CEL definition for well-typed programs, written
               independently of both (strict errors, Kleene &&/||/all/exists, macro laws by evaluating the
               body separately at each element, Python `re` for the regex fragment)
"""
from __future__ import annotations
import contextlib
import random
import re as pyre
from typing import Any, Dict, Iterable, List, Optional, Tuple

from ..core import Prop

I_MIN, I_MAX, U_MAX = -2**63, 2**63 - 1, 2**64 - 1
BINOPS = ["+", "-", "*", "/", "%", "==", "!=", "<", "<=", ">", ">=", "in"]
MACROS = ["map", "filter", "all", "exists", "exists_one"]
SFNS = ["contains", "startsWith", "endsWith"]
ALPHA = [97, 98, 99, 233, 10, 0x1F600]          # a b c é \n 😀
FIELDS = ["a", "b", "c", "k", "ab"]
BAD_PATTERNS = ["(", ")", "[a", "*a", "a**", "a|*", "[b-a]", "a+*", "(?P<n", "\\8", "a{2,1}", "[]"]
# round 2: doubles (as text; "nan"/"inf"/"-inf" have no literal and are rendered as a quotient, or come from bindings)
DBL_LITS = ["0.0", "-0.0", "1.0", "1.5", "2.0", "-2.5", "0.1", "3.0", "1e300"]
DBL_SPECIAL = ["nan", "inf", "-inf"]


def dbl_bits(x: float) -> str:
    import struct
    if x != x:
        return "nan"
    return str(struct.unpack("<Q", struct.pack("<d", float(x)))[0])

# ----------------------------------------------------------------------------------------------
# rendering to CEL text
# ----------------------------------------------------------------------------------------------


RAW_STR = [False]       # round 3: render printable non-ASCII code points of string literals as themselves (no backslash-u escape)


@contextlib.contextmanager
def raw_strings(on: bool):
    old = RAW_STR[0]
    RAW_STR[0] = bool(on)
    try:
        yield
    finally:
        RAW_STR[0] = old


def cel_str(cps: List[int]) -> str:
    out = []
    for c in cps:
        ch = chr(c)
        if RAW_STR[0] and c >= 0xA1 and c not in (0x2028, 0x2029, 0xFEFF) and not 0xD800 <= c <= 0xDFFF:
            out.append(ch)
        elif ch == "\\":
            out.append("\\\\")
        elif ch == '"':
            out.append('\\"')
        elif ch == "\n":
            out.append("\\n")
        elif 32 <= c < 127:
            out.append(ch)
        elif c <= 0xFFFF:
            out.append("\\u%04x" % c)
        else:
            out.append("\\U%08x" % c)
    return '"' + "".join(out) + '"'


RE_SPECIAL = set(map(ord, "\\.[]()*+?|^$/{}-"))


def re_lit(c: int, py: bool) -> str:
    if c in RE_SPECIAL:
        return "\\" + chr(c)
    if c == 10:
        return "\\n"
    return chr(c)


def re_text(r: Any, py: bool = False) -> str:
    """RE2 text of a regex tree with as few parentheses as the grammar allows (alternation < concatenation <
    postfix), so that bare `a|b`, `ab|c`, `a|`, `|a`, `ab*` … occur as such.
    py=True: the Python `re` spelling used by the oracle (\\A and \\Z anchors)."""
    return _re_render(r, py, 0)


def _re_render(r: Any, py: bool, level: int) -> str:
    """level: 0 = alternation allowed bare, 1 = inside a concatenation, 2 = operand of a postfix operator"""
    k = r[0]
    if k == "bad":
        return r[1]
    if k == "eps":
        return "" if level < 2 else "(?:)"
    if k == "c":
        return re_lit(r[1], py)
    if k == "any":
        return "."
    if k == "cls":
        body = "".join(re_lit(lo, py) if lo == hi else re_lit(lo, py) + "-" + re_lit(hi, py) for lo, hi in r[2])
        return "[" + ("^" if r[1] else "") + body + "]"
    if k == "alt":
        t = _re_render(r[1], py, 0) + "|" + _re_render(r[2], py, 0)
        return t if level == 0 else "(?:" + t + ")"
    if k == "cat":
        t = _re_render(r[1], py, 1) + _re_render(r[2], py, 1)
        return t if level <= 1 else "(?:" + t + ")"
    if k in ("star", "plus", "opt"):
        # a postfix operator directly on a postfix operator would be read as a lazy/possessive quantifier
        # (or rejected: `a**`), and Python refuses to repeat a bare anchor: those operands keep their group
        inner = _re_render(r[1], py, 2) if r[1][0] in ("c", "any", "cls", "alt", "cat", "eps") else "(?:" + _re_render(r[1], py, 0) + ")"
        return inner + {"star": "*", "plus": "+", "opt": "?"}[k]
    if k == "bol":
        return "\\A" if py else "^"
    if k == "eol":
        return "\\Z" if py else "$"
    raise ValueError(k)


def re_tokens(r: Any) -> str:
    k = r[0]
    if k == "bad":
        return "bad"
    if k in ("eps", "any", "bol", "eol"):
        return k
    if k == "c":
        return f"c{r[1]}"
    if k == "cls":
        return f"cls {1 if r[1] else 0} {len(r[2])} " + " ".join(f"{lo} {hi}" for lo, hi in r[2]) if r[2] else f"cls {1 if r[1] else 0} 0"
    if k in ("cat", "alt"):
        return f"{k} {re_tokens(r[1])} {re_tokens(r[2])}"
    return f"{k} {re_tokens(r[1])}"


MEMBER_KINDS = {"u", "b", "s", "n", "v", "L", "M", "idx", "sel", "has", "size", "msize", "matches"} | set(SFNS) | set(MACROS)


def atom(e: Any) -> str:
    """operand position: member-level forms need no parentheses"""
    if e[0] in MEMBER_KINDS or (e[0] == "i" and e[1] >= 0) or e[0] == "d":
        return to_cel(e)
    t = to_cel(e)
    return t if t.startswith("(") and t.endswith(")") and e[0] in ("i", "neg", "not", "&&", "||", "?:", "++") + tuple(BINOPS) else f"({t})"


def to_cel(e: Any) -> str:
    k = e[0]
    if k == "i":
        return str(e[1]) if e[1] >= 0 else f"({e[1]})"
    if k == "u":
        return f"{e[1]}u"
    if k == "b":
        return "true" if e[1] else "false"
    if k == "s":
        return cel_str(e[1])
    if k == "n":
        return "null"
    if k == "d":
        return dbl_cel(e[1])
    if k == "v":
        return f"x{e[1]}"
    if k == "L":
        return "[" + ", ".join(to_cel(x) for x in e[1]) + "]"
    if k == "M":
        return "{" + ", ".join(f"{to_cel(a)}: {to_cel(b)}" for a, b in e[1]) + "}"
    if k == "idx":
        return f"{atom(e[1])}[{to_cel(e[2])}]"
    if k == "sel":
        return f"{atom(e[2])}.{''.join(map(chr, e[1]))}"
    if k == "has":
        return f"has({atom(e[2])}.{''.join(map(chr, e[1]))})"
    if k == "size":
        return f"size({to_cel(e[1])})"
    if k == "msize":
        return f"{atom(e[1])}.size()"
    if k == "neg":
        return f"(-{atom(e[1])})"
    if k == "not":
        return f"(!{atom(e[1])})"
    if k in ("&&", "||"):
        return f"({atom(e[1])} {k} {atom(e[2])})"
    if k == "?:":
        return f"({atom(e[1])} ? {atom(e[2])} : {atom(e[3])})"
    if k in BINOPS or k == "++":
        op = "+" if k == "++" else k
        return f"({atom(e[1])} {op} {atom(e[2])})"
    if k in SFNS:
        return f"{atom(e[1])}.{k}({to_cel(e[2])})"
    if k == "matches":
        return f"{atom(e[2])}.matches({cel_str([ord(c) for c in re_text(e[1])])})"
    if k in MACROS:
        return f"{atom(e[2])}.{k}(x{e[1]}, {to_cel(e[3])})"
    raise ValueError(k)


def dbl_cel(t: str) -> str:
    """CEL text of a double given as Python float text; the values without a literal are quotients"""
    if t == "nan":
        return "(0.0 / 0.0)"
    if t == "inf":
        return "(1.0 / 0.0)"
    if t == "-inf":
        return "((-1.0) / 0.0)"
    x = float(t)
    r = repr(abs(x))
    if "e" in r and "." not in r:            # 1e+300 -> 1.0e+300
        r = r.replace("e", ".0e")
    return f"(-{r})" if (x < 0 or t.startswith("-")) else r


def stok(cps: List[int]) -> str:
    return "s" + ".".join(str(c) for c in cps)


def to_model(e: Any) -> str:
    k = e[0]
    if k == "i":
        return f"i{e[1]}"
    if k == "u":
        return f"u{e[1]}"
    if k == "b":
        return "bT" if e[1] else "bF"
    if k == "s":
        return stok(e[1])
    if k == "n":
        return "nul"
    if k == "d":
        return "d" + dbl_bits(float(e[1]))
    if k == "v":
        return f"v{e[1]}"
    if k == "L":
        return f"L {len(e[1])}" + "".join(" " + to_model(x) for x in e[1])
    if k == "M":
        return f"M {len(e[1])}" + "".join(" " + to_model(a) + " " + to_model(b) for a, b in e[1])
    if k == "idx":
        return f"idx {to_model(e[1])} {to_model(e[2])}"
    if k in ("sel", "has"):
        return f"{k} {stok(e[1])} {to_model(e[2])}"
    if k in ("size", "msize"):
        return f"size {to_model(e[1])}"
    if k in ("neg", "not"):
        return f"{k} {to_model(e[1])}"
    if k == "?:":
        return f"?: {to_model(e[1])} {to_model(e[2])} {to_model(e[3])}"
    if k in BINOPS or k in ("&&", "||", "++") or k in SFNS:
        op = "+" if k == "++" else k
        return f"{op} {to_model(e[1])} {to_model(e[2])}"
    if k == "matches":
        return f"matches {re_tokens(e[1])} {to_model(e[2])}"
    if k in MACROS:
        return f"{k} {e[1]} {to_model(e[2])} {to_model(e[3])}"
    raise ValueError(k)


def walk(e: Any):
    """(node, ancestors-kinds) for every expression node"""
    def rec(n, anc):
        yield n, anc
        k = n[0]
        a2 = anc + [k]
        if k in ("i", "u", "b", "s", "v", "d", "n"):
            return
        if k == "L":
            for x in n[1]:
                yield from rec(x, a2)
        elif k == "M":
            for a, b in n[1]:
                yield from rec(a, a2)
                yield from rec(b, a2)
        elif k in ("sel", "has", "matches"):
            yield from rec(n[2], a2)
        elif k in MACROS:
            yield from rec(n[2], a2)
            yield from rec(n[3], a2)
        else:
            for x in n[1:]:
                yield from rec(x, a2)
    yield from rec(e, [])


import contextlib
import json as _json
import os


def _json_dumps(c) -> str:
    return _json.dumps(c.get("e") if c.get("kind") == "expr" else c.get("re"))


@contextlib.contextmanager
def _quiet_stderr():
    saved = os.dup(2)
    devnull = os.open(os.devnull, os.O_WRONLY)
    try:
        os.dup2(devnull, 2)
        yield
    finally:
        os.dup2(saved, 2)
        os.close(saved)
        os.close(devnull)


# ----------------------------------------------------------------------------------------------
# canonical form of implementation values (the model's `V.show`)
# ----------------------------------------------------------------------------------------------

def canon(v: Any) -> str:
    from celpy import celtypes
    from celpy.evaluation import CELEvalError
    if isinstance(v, CELEvalError):
        return "E"
    if v is None:
        return "n"
    if isinstance(v, float):                     # DoubleType
        return "d" + dbl_bits(v)
    if isinstance(v, (celtypes.BoolType, bool)):
        return "bT" if v else "bF"
    if isinstance(v, celtypes.UintType):
        return f"u{int(v)}"
    if isinstance(v, celtypes.IntType):
        return f"i{int(v)}"
    if isinstance(v, str):                       # StringType or (degraded, C13's concern) native str
        return stok([ord(c) for c in v])
    if isinstance(v, list):
        return "L[" + ",".join(canon(x) for x in v) + "]"
    if isinstance(v, dict):
        return "M{" + ",".join(canon(k) + ":" + canon(x) for k, x in v.items()) + "}"
    return f"?{type(v).__name__}"


def build_value(t: Any, memo: Dict[str, Any]) -> Any:
    """a literal tree as the CEL value an application would put into the activation; every NaN of one
    activation is the SAME object (a value that reaches both sides of a comparison unchanged)"""
    from celpy import celtypes
    k = t[0]
    if k == "i":
        return celtypes.IntType(t[1])
    if k == "u":
        return celtypes.UintType(t[1])
    if k == "b":
        return celtypes.BoolType(t[1])
    if k == "s":
        return celtypes.StringType("".join(map(chr, t[1])))
    if k == "n":
        return None
    if k == "d":
        if t[1] == "nan":
            if "nan" not in memo:
                memo["nan"] = celtypes.DoubleType("nan")
            return memo["nan"]
        return celtypes.DoubleType(float(t[1]))
    if k == "L":
        return celtypes.ListType([build_value(x, memo) for x in t[1]])
    if k == "M":
        return celtypes.MapType({build_value(a, memo): build_value(b, memo) for a, b in t[1]})
    raise ValueError(k)


def json_native(t: Any) -> Any:
    """the literal tree as parsed JSON (string keys only, no uint, finite doubles); raises ValueError otherwise"""
    k = t[0]
    if k in ("i", "b"):
        return t[1]
    if k == "s":
        return "".join(map(chr, t[1]))
    if k == "n":
        return None
    if k == "d" and t[1] not in DBL_SPECIAL:
        return float(t[1])
    if k == "L":
        return [json_native(x) for x in t[1]]
    if k == "M" and all(a[0] == "s" for a, _ in t[1]):
        return {json_native(a): json_native(b) for a, b in t[1]}
    raise ValueError(k)


def activation_of(bind: Optional[List[Any]], as_json: bool = False) -> Dict[str, Any]:
    memo: Dict[str, Any] = {}
    act = {}
    for x, t in bind or []:
        v = None
        done = False
        if as_json:
            import celpy
            try:
                v = celpy.json_to_cel(_json.loads(_json.dumps(json_native(t))))
                done = True
            except ValueError:
                pass
        if not done:
            v = build_value(t, memo)
        act[f"x{x}"] = v
    return act


def run_cel(src: str, runner: str, bind: Optional[List[Any]] = None, as_json: bool = False) -> str:
    import celpy
    from celpy.evaluation import CELEvalError
    try:
        env = celpy.Environment(runner_class={"I": celpy.InterpretedRunner, "C": celpy.CompiledRunner}[runner])
        try:
            ast = env.compile(src)
        except celpy.CELParseError:
            return "parse-error"
        prog = env.program(ast)
        v = prog.evaluate(activation_of(bind, as_json))
        if isinstance(v, CELEvalError):
            return "err"
        return canon(v)
    except CELEvalError:
        return "err"
    except RecursionError:
        return "EXC RecursionError"
    except Exception as ex:  # noqa
        return f"EXC {type(ex).__name__}"


# ----------------------------------------------------------------------------------------------
# the oracle: reference semantics of the CEL definition (well-typed programs)
# ----------------------------------------------------------------------------------------------

class RefErr(Exception):
    """the CEL definition prescribes an evaluation error"""


class Unspec(Exception):
    """not a well-typed program of the property's domain: the oracle says nothing"""


def kind(v):
    return v[0]


def ref_show(v) -> str:
    k = v[0]
    if k == "i":
        return f"i{v[1]}"
    if k == "u":
        return f"u{v[1]}"
    if k == "b":
        return "bT" if v[1] else "bF"
    if k == "s":
        return stok(list(v[1]))
    if k == "n":
        return "n"
    if k == "d":
        return "d" + dbl_bits(v[1])
    if k == "L":
        return "L[" + ",".join(ref_show(x) for x in v[1]) + "]"
    return "M{" + ",".join(ref_show(a) + ":" + ref_show(b) for a, b in v[1]) + "}"


def ref_type(v):
    """a structural type; None for 'any' (empty containers)"""
    k = v[0]
    if k in "iubsdn":
        return k
    if k == "L":
        t = None
        for x in v[1]:
            t = ref_unify(t, ref_type(x))
        return ("L", t)
    tk = tv = None
    for a, b in v[1]:
        tk = ref_unify(tk, ref_type(a))
        tv = ref_unify(tv, ref_type(b))
    return ("M", tk, tv)


def ref_unify(a, b):
    if a is None:
        return b
    if b is None:
        return a
    if a == "n":            # null is a member of every (nullable / dyn) element type: JSON-like data
        return b
    if b == "n":
        return a
    if isinstance(a, str) or isinstance(b, str):
        if a != b:
            raise Unspec("heterogeneous")
        return a
    if a[0] != b[0]:
        raise Unspec("heterogeneous")
    return (a[0],) + tuple(ref_unify(x, y) for x, y in zip(a[1:], b[1:]))


def ref_same_type(a, b):
    ref_unify(ref_type(a), ref_type(b))


def ref_eq(a, b) -> bool:
    """CEL equality of two values of one type.  Doubles compare as IEEE-754 (NaN equals nothing, itself
    included; -0.0 == 0.0), whatever object carries them.  null equals null; null against a value of another
    kind is left unspecified (heterogeneous equality)."""
    ref_same_type(a, b)
    if a[0] != b[0]:
        raise Unspec("null against a value")
    if a[0] == "M":
        da, db = dict(a[1]), dict(b[1])          # keys are int/uint/bool/string: plain equality
        if da.keys() != db.keys():
            return False
        return all([ref_eq(da[k], db[k]) for k in da])
    if a[0] == "L":
        if len(a[1]) != len(b[1]):
            return False
        return all([ref_eq(x, y) for x, y in zip(a[1], b[1])])
    if a[0] == "n":
        return True
    if a[0] == "d":
        x, y = float(a[1]), float(b[1])
        return (x == y) and not (x != x) and not (y != y)
    return a[1] == b[1]


class Ref:
    def __init__(self):
        self.has_operand_error = False      # a has(e.f) whose operand e is itself an evaluation error

    def outcome(self, e, bind=None) -> Optional[str]:
        try:
            env = {}
            for x, t in bind or []:
                env[x] = self.ev(t, {})
            return ref_show(self.ev(e, env))
        except RefErr:
            return "err"
        except Unspec:
            return None

    def try_ev(self, e, env):
        """('v', value) | ('e',)  — Unspec propagates"""
        try:
            return ("v", self.ev(e, env))
        except RefErr:
            return ("e",)

    def ev(self, e, env):
        k = e[0]
        if k == "i":
            if not I_MIN <= e[1] <= I_MAX:
                raise RefErr()
            return ("i", e[1])
        if k == "u":
            return ("u", e[1])
        if k == "b":
            return ("b", bool(e[1]))
        if k == "s":
            return ("s", tuple(e[1]))
        if k == "n":
            return ("n",)
        if k == "d":
            return ("d", float(e[1]))
        if k == "v":
            if e[1] not in env:
                raise Unspec("unbound")
            return env[e[1]]
        if k == "L":
            vs = tuple(self.ev(x, env) for x in e[1])
            r = ("L", vs)
            ref_type(r)
            return r
        if k == "M":
            pairs = []
            # strict, left to right; all sub-expressions are evaluated before duplicates are judged
            for a, b in e[1]:
                pairs.append((self.ev(a, env), self.ev(b, env)))
            for a, _ in pairs:
                if a[0] not in "iubs":
                    raise Unspec("key kind")
            r = ("M", tuple(pairs))
            ref_type(r)
            keys = [a for a, _ in pairs]
            if len(set(keys)) != len(keys):
                raise RefErr()
            return r
        if k == "idx":
            c = self.ev(e[1], env)
            i = self.ev(e[2], env)
            if c[0] == "L":
                if i[0] != "i":
                    raise Unspec("list index kind")
                if 0 <= i[1] < len(c[1]):
                    return c[1][i[1]]
                raise RefErr()
            if c[0] == "M":
                if i[0] not in "iubs":
                    raise Unspec("key kind")
                for a, b in c[1]:
                    if a[0] != i[0]:
                        raise Unspec("key kind differs from the map's")
                for a, b in c[1]:
                    if a == i:
                        return b
                raise RefErr()
            raise Unspec("index of a scalar")
        if k in ("sel", "has"):
            name = ("s", tuple(e[1]))
            if k == "has":
                t = self.try_ev(e[2], env)
                if t[0] == "e":
                    self.has_operand_error = True
                    raise RefErr()
                c = t[1]
            else:
                c = self.ev(e[2], env)
            if c[0] != "M":
                raise Unspec("field selection on a non-map")
            for a, _ in c[1]:
                if a[0] != "s":
                    raise Unspec("field selection on a map without string keys")
            for a, b in c[1]:
                if a == name:
                    return ("b", True) if k == "has" else b
            if k == "has":
                return ("b", False)
            raise RefErr()
        if k in ("size", "msize"):
            c = self.ev(e[1], env)
            if c[0] not in "sLM":
                raise Unspec("size")
            return ("i", len(c[1]))
        if k == "neg":
            a = self.ev(e[1], env)
            if a[0] == "d":
                return ("d", -a[1])
            if a[0] != "i":
                raise Unspec("neg")
            return self.rng_int(-a[1])
        if k == "not":
            a = self.ev(e[1], env)
            if a[0] != "b":
                raise Unspec("not")
            return ("b", not a[1])
        if k in ("&&", "||"):
            x, y = self.try_ev(e[1], env), self.try_ev(e[2], env)
            dec = (k == "||")
            for t in (x, y):
                if t[0] == "v" and t[1][0] != "b":
                    raise Unspec("logical operand")
            if any(t[0] == "v" and t[1][1] == dec for t in (x, y)):
                return ("b", dec)
            if any(t[0] == "e" for t in (x, y)):
                raise RefErr()
            return ("b", not dec)
        if k == "?:":
            c = self.ev(e[1], env)
            if c[0] != "b":
                raise Unspec("condition")
            other = self.try_ev(e[3] if c[1] else e[2], env)     # only its well-typedness matters
            r = self.ev(e[2] if c[1] else e[3], env)
            if other[0] == "v":
                ref_same_type(r, other[1])
            return r
        if k in ("+", "-", "*", "/", "%"):
            a, b = self.ev(e[1], env), self.ev(e[2], env)
            if a[0] == "d" and b[0] == "d" and k != "%":
                return ("d", ieee_arith(k, a[1], b[1]))
            if a[0] != b[0] or a[0] not in "iu":
                raise Unspec("arithmetic")
            x, y = a[1], b[1]
            if k in "/%":
                if y == 0:
                    raise RefErr()
                q = abs(x) // abs(y)
                if (x < 0) != (y < 0):
                    q = -q
                r = q if k == "/" else x - y * q
            else:
                r = {"+": x + y, "-": x - y, "*": x * y}[k]
            return self.rng_int(r) if a[0] == "i" else self.rng_uint(r)
        if k == "++":
            a, b = self.ev(e[1], env), self.ev(e[2], env)
            if a[0] != b[0] or a[0] not in "sL":
                raise Unspec("concat")
            r = (a[0], tuple(a[1]) + tuple(b[1]))
            ref_type(r)
            return r
        if k in ("==", "!="):
            a, b = self.ev(e[1], env), self.ev(e[2], env)
            r = ref_eq(a, b)
            return ("b", r if k == "==" else not r)
        if k in ("<", "<=", ">", ">="):
            a, b = self.ev(e[1], env), self.ev(e[2], env)
            if a[0] != b[0] or a[0] not in "iubsd":
                raise Unspec("ordering")
            x, y = a[1], b[1]
            return ("b", {"<": x < y, "<=": x <= y, ">": x > y, ">=": x >= y}[k])
        if k == "in":
            x, c = self.ev(e[1], env), self.ev(e[2], env)
            if c[0] == "L":
                items = c[1]
            elif c[0] == "M":
                items = tuple(a for a, _ in c[1])
            else:
                raise Unspec("in")
            for y in items:
                ref_same_type(x, y)
            return ("b", any([ref_eq(x, y) for y in items]))
        if k in SFNS:
            a, b = self.ev(e[1], env), self.ev(e[2], env)
            if a[0] != "s" or b[0] != "s":
                raise Unspec("string function")
            s, t = list(a[1]), list(b[1])
            if k == "startsWith":
                return ("b", s[:len(t)] == t)
            if k == "endsWith":
                return ("b", len(t) <= len(s) and s[len(s) - len(t):] == t)
            return ("b", any(s[i:i + len(t)] == t for i in range(len(s) + 1)))
        if k == "matches":
            a = self.ev(e[2], env)
            if a[0] != "s":
                raise Unspec("matches")
            if e[1][0] == "bad":
                raise RefErr()
            return ("b", ref_search(e[1], list(a[1])))
        if k in MACROS:
            c = self.ev(e[2], env)
            if c[0] == "L":
                items = c[1]
            elif c[0] == "M":
                items = tuple(a for a, _ in c[1])
            else:
                raise Unspec("macro range")
            # the law: the body evaluated separately at each element
            outs = []
            for it in items:
                env2 = dict(env)
                env2[e[1]] = it
                outs.append(self.try_ev(e[3], env2))
            if k == "map":
                if any(t[0] == "e" for t in outs):
                    raise RefErr()
                r = ("L", tuple(t[1] for t in outs))
                ref_type(r)
                return r
            for t in outs:
                if t[0] == "v" and t[1][0] != "b":
                    raise Unspec("macro predicate")
            if k == "filter":
                if any(t[0] == "e" for t in outs):
                    raise RefErr()
                return ("L", tuple(it for it, t in zip(items, outs) if t[1][1]))
            if k == "exists_one":
                if any(t[0] == "e" for t in outs):
                    raise RefErr()
                return ("b", sum(1 for t in outs if t[1][1]) == 1)
            dec = (k == "exists")
            if any(t[0] == "v" and t[1][1] == dec for t in outs):
                return ("b", dec)
            if any(t[0] == "e" for t in outs):
                raise RefErr()
            return ("b", not dec)
        raise ValueError(k)

    @staticmethod
    def rng_int(r):
        if I_MIN <= r <= I_MAX:
            return ("i", r)
        raise RefErr()

    @staticmethod
    def rng_uint(r):
        if 0 <= r <= U_MAX:
            return ("u", r)
        raise RefErr()


def ieee_arith(k: str, x: float, y: float) -> float:
    """IEEE-754 binary64 + - * / (no exceptions: overflow is an infinity, x/0 an infinity or NaN)"""
    import math
    if k == "+":
        return x + y
    if k == "-":
        return x - y
    if k == "*":
        return x * y
    if y == 0.0:
        if x != x or x == 0.0:
            return math.nan
        neg = (math.copysign(1.0, x) < 0) != (math.copysign(1.0, y) < 0)
        return -math.inf if neg else math.inf
    return x / y


def ref_search(r, s: List[int]) -> bool:
    """Python's backtracking `re` (not RE2, not the Lean matcher) on the same fragment; text anchors."""
    return pyre.search(re_text(r, py=True), "".join(map(chr, s))) is not None


# ----------------------------------------------------------------------------------------------
# generator
# ----------------------------------------------------------------------------------------------

SCALARS = [("i",), ("u",), ("b",), ("s",)]          # the kinds that can be map keys
VALS = SCALARS + [("d",), ("n",)]                    # element / value kinds (round 2: double, null)
VAL_W = [3, 2, 2, 3, 2, 1]


def bindv(env, x, t):
    """env extended by x : t — an earlier entry of the same name is hidden"""
    return [(v, vt) for v, vt in env if v != x] + [(x, t)]


class Gen:
    def __init__(self, rng: random.Random):
        self.rng = rng
        self.nvar = 0
        self.shadow = 0.15          # probability that a macro variable reuses a name that is in scope

    def val(self):
        return self.rng.choices(VALS, VAL_W)[0]

    # ---- types
    def gtype(self, depth: int):
        r = self.rng
        if depth <= 0 or r.random() < 0.45:
            return self.val()
        if r.random() < 0.6:
            return ("L", self.gtype(depth - 1))
        return ("M", r.choice(SCALARS), self.gtype(depth - 1))

    # ---- literals
    def gint(self):
        r = self.rng
        x = r.random()
        if x < 0.8:
            return r.randint(-3, 6)
        if x < 0.9:
            return r.choice([I_MIN, I_MIN + 1, I_MAX, I_MAX - 1, 2**31, -2**31, 2**32, 2**62])
        return r.randint(I_MIN, I_MAX)

    def gstr(self, maxlen=4):
        r = self.rng
        return [r.choice(ALPHA[:3] if r.random() < 0.6 else ALPHA) for _ in range(r.randint(0, maxlen))]

    def lit(self, t, depth):
        r = self.rng
        k = t[0]
        if k == "i":
            return ["i", self.gint()]
        if k == "u":
            return ["u", r.choice([0, 1, 2, 3, 5, U_MAX]) if r.random() < 0.95 else r.randint(0, U_MAX)]
        if k == "b":
            return ["b", r.random() < 0.5]
        if k == "s":
            return ["s", self.gstr()]
        if k == "d":
            return ["d", r.choice(DBL_LITS) if r.random() < 0.8 else r.choice(DBL_SPECIAL)]
        if k == "n":
            return ["n"]
        if k == "L":
            return ["L", [self.lit(t[1], depth - 1) for _ in range(r.randint(0, 4))]]
        n = r.randint(0, 3)
        keys = []
        if t[1][0] == "s":
            pool = [[ord(c) for c in f] for f in FIELDS]
            r.shuffle(pool)
            keys = [["s", p] for p in pool[:n]]
        elif t[1][0] == "b":
            keys = [["b", b] for b in r.sample([True, False], min(n, 2))]
        else:
            vals = r.sample(range(0, 6), n)
            keys = [[t[1][0], v] for v in vals]
        # JSON-like data: a present key may be bound to null
        nullable = r.random() < 0.25
        return ["M", [[kk, (["n"] if nullable and r.random() < 0.5 else self.lit(t[2], depth - 1))] for kk in keys]]

    # ---- expressions of a given type
    def expr(self, t, depth, env):
        """env: list of (var id, type)"""
        r = self.rng
        if depth <= 0:
            return self.leaf(t, env)
        k = t[0]
        opts = [("leaf", 3), ("cond", 1), ("idxL", 2), ("idxM", 2), ("selM", 1)]
        if k == "i":
            opts += [("arith", 3), ("size", 3), ("neg", 1)]
        elif k == "u":
            opts += [("arith", 2)]
        elif k == "b":
            opts += [("rel", 3), ("in", 3), ("has", 2), ("sfn", 3), ("matches", 2), ("quant", 5), ("logic", 2), ("not", 1)]
        elif k == "s":
            opts += [("concat", 3)]
        elif k == "d":
            opts += [("arith", 2), ("neg", 1)]
        elif k == "L":
            opts += [("mapmac", 4), ("filter", 4), ("concat", 2), ("listlit", 2)]
        elif k == "M":
            opts += [("maplit", 3)]
        names, weights = zip(*opts)
        ch = r.choices(names, weights)[0]
        d = depth - 1
        if ch == "leaf":
            return self.leaf(t, env)
        if ch == "cond":
            return ["?:", self.expr(("b",), d, env), self.expr(t, d, env), self.expr(t, d, env)]
        if ch == "idxL":
            lst = self.expr(("L", t), d, env)
            return ["idx", lst, self.index_for(lst, d, env)]
        if ch == "idxM":
            kt = r.choice(SCALARS)
            m = self.expr(("M", kt, t), d, env)
            return ["idx", m, self.key_for(m, kt, d, env)]
        if ch == "selM":
            m = self.expr(("M", ("s",), t), d, env)
            return ["sel", self.field_for(m), m]
        if ch == "arith":
            op = r.choice(["+", "-", "*", "/", "%"] if k != "d" else ["+", "-", "*", "/"])
            return [op, self.expr(t, d, env), self.expr(t, d, env)]
        if ch == "size":
            ct = r.choice([("s",), ("L", self.gtype(1)), ("M", r.choice(SCALARS), self.gtype(1))])
            return [r.choice(["size", "msize"]), self.expr(ct, d, env)]
        if ch == "neg":
            return ["neg", self.expr(t, d, env)]
        if ch == "rel":
            st = self.val() if r.random() < 0.75 else self.gtype(2)
            op = r.choice(["==", "!=", "<", "<=", ">", ">="]) if st[0] in "iubsd" else r.choice(["==", "!="])
            return [op, self.expr(st, d, env), self.expr(st, d, env)]
        if ch == "in":
            st = self.val() if r.random() < 0.8 else self.gtype(1)
            if r.random() < 0.7 or st[0] not in "iubs":
                c = self.expr(("L", st), d, env)
            else:
                c = self.expr(("M", st, self.gtype(1)), d, env)
            item = self.expr(st, d, env)
            if c[0] == "L" and r.random() < 0.3:           # the item itself (the same sub-expression) is an element
                c = ["L", c[1] + [item]]
                r.shuffle(c[1])
            return ["in", item, c]
        if ch == "has":
            m = self.expr(("M", ("s",), self.gtype(1)), d, env)
            return ["has", self.field_for(m), m]
        if ch == "sfn":
            f = r.choice(SFNS)
            a = self.expr(("s",), d, env)
            b = self.expr(("s",), d, env)
            if r.random() < 0.5 and a[0] == "s" and b[0] == "s":      # make positive instances likely
                s = a[1]
                i = r.randint(0, len(s))
                j = r.randint(i, len(s))
                b = ["s", {"contains": s[i:j], "startsWith": s[:j], "endsWith": s[i:]}[f]]
            return [f, a, b]
        if ch == "matches":
            if r.random() < 0.12:
                pat = ["bad", r.choice(BAD_PATTERNS)]
            else:
                pat = self.regex(r.randint(1, 3))
            return ["matches", pat, self.expr(("s",), d, env)]
        if ch == "quant":
            mk = r.choice(["all", "exists", "exists_one"])
            rng_e, et = self.range_expr(d, env)
            x = self.fresh(env)
            return [mk, x, rng_e, self.expr(("b",), d, bindv(env, x, et))]
        if ch == "logic":
            return [r.choice(["&&", "||"]), self.expr(t, d, env), self.expr(t, d, env)]
        if ch == "not":
            return ["not", self.expr(t, d, env)]
        if ch == "concat":
            return ["++", self.expr(t, d, env), self.expr(t, d, env)]
        if ch == "mapmac":
            rng_e, et = self.range_expr(d, env)
            x = self.fresh(env)
            return ["map", x, rng_e, self.expr(t[1], d, bindv(env, x, et))]
        if ch == "filter":
            if r.random() < 0.8:
                rng_e = self.expr(t, d, env)
                et = t[1]
            else:       # filtering a map yields the list of its selected keys
                if t[1][0] not in "iubs":
                    return self.leaf(t, env)
                rng_e, et = self.expr(("M", t[1], self.gtype(1)), d, env), t[1]
            x = self.fresh(env)
            return ["filter", x, rng_e, self.expr(("b",), d, bindv(env, x, et))]
        if ch == "listlit":
            return ["L", [self.expr(t[1], d, env) for _ in range(r.randint(0, 3))]]
        if ch == "maplit":
            base = self.lit(t, 2)
            pairs = [[kk, self.expr(t[2], d, env)] for kk, _ in base[1]]
            if pairs and r.random() < 0.15:                 # a duplicate key
                pairs.insert(r.randint(0, len(pairs)), [list(pairs[0][0]), self.expr(t[2], d, env)])
            return ["M", pairs]
        raise ValueError(ch)

    def fresh(self, env):
        r = self.rng
        if env and r.random() < self.shadow:
            return r.choice(env)[0]            # shadow an outer variable
        self.nvar += 1
        return self.nvar % 7

    def leaf(self, t, env):
        r = self.rng
        cands = [v for v, vt in env if vt == t]
        if cands and r.random() < 0.7:
            return ["v", r.choice(cands)]
        return self.lit(t, 2)

    def range_expr(self, d, env):
        r = self.rng
        et = self.val() if r.random() < 0.8 else self.gtype(1)
        if r.random() < 0.8 or et[0] not in "iubs":
            return self.expr(("L", et), d, env), et
        return self.expr(("M", et, self.gtype(1)), d, env), et

    def index_for(self, lst, d, env):
        """an int index: in range when the length is known, else small; with boundary / negative values"""
        r = self.rng
        n = len(lst[1]) if lst[0] == "L" else r.randint(0, 4)
        x = r.random()
        if x < 0.55 and n > 0:
            return ["i", r.randint(0, n - 1)]
        if x < 0.8:
            return ["i", r.choice([-n - 1, -n, -2, -1, n, n + 1, I_MIN, I_MIN + 1, I_MAX, I_MAX - 1, 2**32, -2**32, 2**63 - 2**10])]
        if x < 0.9:
            return ["i", r.randint(I_MIN, I_MAX)]
        return self.expr(("i",), d, env)

    def key_for(self, m, kt, d, env):
        r = self.rng
        if m[0] == "M" and m[1] and r.random() < 0.7:
            return list(r.choice(m[1])[0])
        if r.random() < 0.7:
            return self.lit(kt, 1)
        return self.expr(kt, d, env)

    def field_for(self, m):
        r = self.rng
        if m[0] == "M" and m[1] and r.random() < 0.65:
            kk = r.choice(m[1])[0]
            if kk[0] == "s" and kk[1]:
                return list(kk[1])
        return [ord(c) for c in r.choice(FIELDS)]

    # ---- regex trees
    def regex(self, depth):
        r = self.rng
        if depth <= 0 or r.random() < 0.25:
            x = r.random()
            if x < 0.55:
                return ["c", r.choice(ALPHA[:3] if r.random() < 0.8 else ALPHA + [46, 42, 40, 91, 92, 45, 94])]
            if x < 0.7:
                return ["any"]
            if x < 0.85:
                n = r.randint(1, 2)
                rs = []
                for _ in range(n):
                    lo = r.choice([97, 98, 99, 10, 233])
                    hi = lo if r.random() < 0.5 else lo + r.randint(0, 2)
                    rs.append([lo, hi])
                return ["cls", r.random() < 0.3, rs]
            if x < 0.9:
                return ["eps"]
            return [r.choice(["bol", "eol"])]
        k = r.choice(["cat", "cat", "cat", "alt", "alt", "star", "plus", "opt"])
        if k in ("cat", "alt"):
            return [k, self.regex(depth - 1), self.regex(depth - 1)]
        return [k, self.regex(depth - 1)]

    def restr(self):
        r = self.rng
        return [r.choice([97, 98, 99] if r.random() < 0.85 else ALPHA) for _ in range(r.randint(0, 6))]


def law_cases(g: Gen) -> List[Any]:
    """closed instances of the laws named in the property, over generated lists/strings"""
    r = g.rng
    out = []
    et = g.val()
    l = g.lit(("L", et), 2)
    x = g.lit(et, 1) if (not l[1] or r.random() < 0.4) else list(r.choice(l[1]))
    out.append(["==", ["in", x, l], ["exists", 1, l, ["==", ["v", 1], x]]])              # x in l  iff  l.exists(y, y == x)
    li = g.lit(("L", ("i",)), 2)
    f = g.expr(("i",), 2, [(1, ("i",))])
    out.append(["==", ["size", ["map", 1, li, f]], ["size", li]])                        # size(l.map(x, e)) == size(l)
    p = g.expr(("b",), 2, [(1, ("i",))])
    out.append(["all", 2, ["filter", 1, li, p], ["in", ["v", 2], li]])                   # filter yields elements of l
    out.append(["==", ["exists_one", 1, li, p], ["==", ["size", ["filter", 1, li, p]], ["i", 1]]])
    s, t = ["s", g.gstr()], ["s", g.gstr()]
    if r.random() < 0.4:                       # white space / line breaks at the edges are ordinary characters
        w = r.choice([10, 32, 9])
        t = ["s", ([w] if r.random() < 0.5 else []) + t[1] + ([w] if r.random() < 0.7 else [])]
        s = ["s", ([w] if r.random() < 0.5 else []) + s[1]]
    out.append(["contains", ["++", ["++", s, t], s], t])
    out.append(["startsWith", ["++", s, t], s])
    out.append(["endsWith", ["++", s, t], t])
    out.append(["==", ["size", ["++", s, t]], ["+", ["size", s], ["size", t]]])
    if li[1]:
        j = r.randrange(len(li[1]))
        out.append(["==", ["idx", ["map", 1, li, f], ["i", j]], ["idx", ["map", 2, ["L", [li[1][j]]], _rename(f, 1, 2)], ["i", 0]]])
    n = len(li[1])
    for j in (-1, -n, -n - 1, n, n + 1, I_MIN, I_MAX):
        out.append(["idx", li, ["i", j]])
    # size counts code points; has()/select/index on a map whose values may be falsy (0, "", false, [], {})
    u = ["s", [r.choice(ALPHA) for _ in range(r.randint(0, 5))]]
    out.append(["==", [r.choice(["size", "msize"]), u], ["i", len(u[1])]])
    vt = r.choice([("i",), ("u",), ("b",), ("s",), ("L", ("i",)), ("M", ("s",), ("i",))])
    falsy = {"i": ["i", 0], "u": ["u", 0], "b": ["b", False], "s": ["s", []], "L": ["L", []], "M": ["M", []]}[vt[0]]
    names = r.sample(FIELDS, r.randint(1, 3))
    m = ["M", [[["s", [ord(c) for c in nm]], (falsy if r.random() < 0.6 else g.lit(vt, 1))] for nm in names]]
    for nm in names + [r.choice(["zz", "k", "a"])]:
        f = [ord(c) for c in nm]
        out.append(["has", f, m])
        out.append(["==", ["has", f, m], ["in", ["s", f], m]])
    nm = r.choice(names)
    out.append(["==", ["sel", [ord(c) for c in nm], m], ["idx", m, ["s", [ord(c) for c in nm]]]])
    return out


def lit_word(g: "Gen", maxlen=2):
    """a concatenation of 0..maxlen plain letters as a regex tree"""
    r = g.rng
    n = r.randint(0, maxlen)
    if n == 0:
        return ["eps"]
    t = ["c", r.choice([97, 98, 99])]
    for _ in range(n - 1):
        t = ["cat", t, ["c", r.choice([97, 98, 99])]]
    return t


def bare_regex_cases(g: "Gen") -> List[Any]:
    """patterns whose TEXT has exactly one kind of metacharacter among plain letters: bare top-level alternation
    (`a|b`, `ab|c`, `a|`, `|a`, `a|b|c`), and each other operator alone"""
    r = g.rng
    out = []
    alts = [lit_word(g) for _ in range(r.randint(2, 3))]
    t = alts[0]
    for a in alts[1:]:
        t = ["alt", t, a]
    out.append(t)
    w, x = ["c", r.choice([97, 98, 99])], ["c", r.choice([97, 98, 99])]
    out.append(r.choice([["alt", w, ["eps"]], ["alt", ["eps"], w], ["alt", w, x], ["alt", ["cat", w, x], ["c", 99]]]))
    one = r.choice([["cat", w, ["star", x]], ["cat", ["plus", w], x], ["cat", w, ["opt", x]], ["cat", ["any"], w],
                    ["cat", ["bol"], w], ["cat", w, ["eol"]], ["cls", False, [[97, 98]]], ["cat", w, ["cls", True, [[97, 97]]]]])
    out.append(one)
    return out


def error_position_cases(g: "Gen") -> List[Any]:
    """the five macros over index lists where the body `[7, 8, 7][i] == 7` matches at 0 and 2, fails at 1 and is an
    out-of-range ERROR at 3…: errors before / between / after two or more matches.  exists_one, map and filter must
    report the error wherever it is; all / exists absorb it only when another element decides."""
    r = g.rng
    n = r.randint(2, 5)
    idx = [r.choice([0, 2, 0, 2, 1, 5, 3, -1]) for _ in range(n)]
    if r.random() < 0.5:                    # force: at least two matches and one error, in a random order
        idx = [0, 2, r.choice([3, 5, -1])] + idx[:r.randint(0, 2)]
        r.shuffle(idx)
    l = ["L", [["i", i] for i in idx]]
    probe = ["L", [["i", 7], ["i", 8], ["i", 7]]]
    pred = ["==", ["idx", probe, ["v", 1]], ["i", 7]]
    out = [[mk, 1, l, pred] for mk in ("exists_one", "all", "exists", "filter")]
    out.append(["map", 1, l, ["idx", probe, ["v", 1]]])
    out.append(["exists_one", 1, l, ["&&", pred, ["b", True]]])
    return out


def outer_variable_cases(g: "Gen") -> List[Any]:
    """`l.map(x, e)`: element i is e at x = l[i] — with bodies e that contain a macro reading the OUTER variable,
    over outer lists with at least two different elements"""
    r = g.rng
    vals = r.sample(range(-2, 7), r.randint(2, 4))
    l = ["L", [["i", v] for v in vals]]
    m = ["L", [["i", r.randint(-2, 7)] for _ in range(r.randint(1, 3))] + [["i", r.choice(vals)]]]
    x, y, z = 1, 2, 3
    out = [
        ["map", x, l, ["map", y, m, ["+", ["v", x], ["v", y]]]],
        ["filter", x, l, ["exists", y, m, ["==", ["v", y], ["v", x]]]],
        ["map", x, l, ["filter", y, m, [">", ["v", y], ["v", x]]]],
        ["exists_one", x, l, ["all", y, m, ["!=", ["v", y], ["v", x]]]],
        ["map", x, l, ["exists_one", y, m, ["==", ["v", y], ["v", x]]]],
        ["all", x, l, ["exists", y, m, ["<=", ["v", y], ["v", x]]]],
        ["map", x, l, ["map", y, m, ["map", z, ["L", [["v", x], ["v", y]]], ["*", ["v", z], ["v", x]]]]],
        ["map", x, l, ["size", ["filter", y, m, ["in", ["v", x], ["L", [["v", y], ["i", vals[0]]]]]]]],
    ]
    # the law itself, closed: element i of the map equals the body at x = l[i]
    j = r.randrange(len(vals))
    body = ["map", y, m, ["+", ["v", x], ["v", y]]]
    out.append(["==", ["idx", ["map", x, l, body], ["i", j]], ["map", y, m, ["+", ["i", vals[j]], ["v", y]]]])
    return r.sample(out, 5)


def S(txt: str):
    return ["s", [ord(c) for c in txt]]


def shadow_cases(g: "Gen") -> List[Tuple[Any, Any]]:
    """(bindings, expression): one NAME bound at two levels.  The innermost binding wins inside the macro body and
    the outer one is visible again after the inner macro: (a) a macro variable named like a variable of the
    evaluation context, (b) a nested macro that reuses the name of the enclosing macro's variable."""
    r = g.rng
    vals = r.sample(range(-2, 7), r.randint(2, 3))
    l = ["L", [["i", v] for v in vals]]
    inner = r.sample(range(10, 20), r.randint(2, 3))
    m = ["L", [["i", v] for v in inner]]
    x = r.randint(0, 6)
    X = ["v", x]
    c = ["i", r.choice(inner)]
    v0 = ["i", vals[0]]
    out: List[Tuple[Any, Any]] = []
    # (a) the context binds the same name (any kind of value: the macro variable hides it)
    outer = r.choice([["i", 100], ["i", r.choice(vals)], ["i", r.choice(inner)], S("a"), ["L", [["i", 5]]], ["n"], ["d", "nan"], ["b", True]])
    bind = [[x, outer]]
    a_cases = [
        ["map", x, l, ["+", X, ["i", 1]]],
        ["filter", x, l, [">", X, v0]],
        ["all", x, l, ["<=", X, ["i", max(vals)]]],
        ["exists", x, l, ["==", X, ["i", vals[-1]]]],
        ["exists_one", x, l, ["==", X, v0]],
        ["map", x, ["M", [[["i", v], ["b", True]] for v in vals]], ["*", X, ["i", 2]]],
    ]
    if outer[0] == "i":                       # … and the context value is what the name means outside the macro
        a_cases.append(["+", ["idx", ["map", x, l, ["+", X, ["i", 1]]], ["i", 0]], X])
        a_cases.append(["L", [X, ["size", ["filter", x, l, [">=", X, v0]]], X]])
    if outer[0] == "L":
        a_cases.append(["map", x, X, ["+", X, ["i", 1]]])      # the range is evaluated outside the new scope
    out += [(bind, e) for e in r.sample(a_cases, 4)]
    # (b) nested macros with one name
    b_cases = [
        ["map", x, l, ["map", x, m, X]],
        ["map", x, l, ["filter", x, m, [">", X, c]]],
        ["map", x, l, ["L", [["exists", x, m, ["==", X, c]], ["==", X, v0]]]],
        ["filter", x, l, ["&&", ["all", x, m, [">=", X, ["i", 10]]], [">", X, v0]]],
        ["map", x, l, ["+", ["size", ["filter", x, m, [">", X, c]]], X]],
        ["exists_one", x, l, ["&&", ["exists_one", x, m, ["==", X, c]], ["==", X, v0]]],
        ["map", x, l, ["map", x, m, ["map", x, ["L", [X]], ["*", X, ["i", 2]]]]],
        ["map", x, l, ["map", x, ["L", [X, ["+", X, ["i", 1]]]], ["*", X, ["i", 10]]]],
        ["all", x, l, ["exists", x, m, [">", X, ["i", 9]]]],
        ["filter", x, l, ["exists", x, l, ["==", X, v0]]],
    ]
    for e in r.sample(b_cases, 4):
        out.append((bind if r.random() < 0.3 else None, e))
    return out


def identity_cases(g: "Gen") -> List[Tuple[Any, Any]]:
    """(bindings, expression): ONE value reaches both sides of `in` / `==` (a variable used twice, an element taken
    from the list it is tested against, a macro variable ranging over the list).  Equality is decided by the
    VALUES: a double NaN equals nothing, itself included, so it is `in` no list; every other double is found."""
    r = g.rng
    xv = "nan" if r.random() < 0.65 else r.choice(DBL_LITS + ["inf", "-inf"])
    others = [r.choice(DBL_LITS) for _ in range(r.randint(0, 3))]
    j = r.randint(0, len(others))
    elems = others[:j] + [xv] + others[j:]
    ids = r.sample(range(0, 7), 4)
    x, lv, mv, e = ids
    X, L, M, Ev = ["v", x], ["v", lv], ["v", mv], ["v", e]
    bind = [[x, ["d", xv]], [lv, ["L", [["d", t] for t in elems]]],
            [mv, ["M", [[S("a"), ["d", xv]], [S("b"), ["d", "1.5"]]]]]]
    J = ["i", j]
    Ma = ["sel", [97], M]
    cases = [
        ["in", X, ["L", [X]]],
        ["in", X, L],
        ["in", ["idx", L, J], L],
        ["==", ["idx", L, J], ["idx", L, J]],
        ["==", L, L],
        ["==", ["L", [X]], ["L", [X]]],
        ["==", X, X],
        ["!=", X, X],
        ["exists", e, L, ["in", Ev, L]],
        ["all", e, L, ["in", Ev, L]],
        ["filter", e, L, ["in", Ev, L]],
        ["map", e, L, ["in", Ev, ["L", [Ev]]]],
        ["exists_one", e, L, ["in", Ev, ["L", [Ev]]]],
        ["all", e, L, ["==", Ev, Ev]],
        ["==", M, M],
        ["==", Ma, Ma],
        ["in", Ma, ["L", [Ma]]],
        ["in", ["L", [X]], ["L", [["L", [X]]]]],
        ["in", M, ["L", [M]]],
        ["==", ["in", X, L], ["exists", e, L, ["==", Ev, X]]],              # the law of the property
        ["==", ["in", ["idx", L, J], L], ["exists", e, L, ["==", Ev, ["idx", L, J]]]],
        ["in", X, ["++", L, ["L", [X]]]],
        ["in", X, ["filter", e, L, ["b", True]]],
        ["in", ["idx", ["map", e, L, Ev], J], L],
    ]
    out = [(bind, c) for c in r.sample(cases, 9)]
    # closed programs: the macro variable is one object on both sides
    D = ["d", xv]
    closed = [
        ["exists", e, ["L", [D]], ["in", Ev, ["L", [Ev]]]],
        ["filter", e, ["L", [["d", "1.5"], D]], ["in", Ev, ["L", [Ev, ["d", "2.0"]]]]],
        ["all", e, ["L", [D]], ["==", Ev, Ev]],
        ["map", e, ["L", [D, ["d", "0.0"]]], ["in", Ev, ["L", [["d", "-0.0"], Ev]]]],
    ]
    out += [(None, c) for c in r.sample(closed, 2)]
    return out


def null_cases(g: "Gen") -> List[Tuple[Any, Any, bool]]:
    """(bindings, expression, as-JSON): null is an ordinary value — bound to a present key, held by a list, produced
    by a macro body or a branch; a present key with a null value is PRESENT (select / index / has / in)."""
    r = g.rng
    names = r.sample(FIELDS, r.randint(1, 3))
    other = r.choice([["i", 0], ["i", 7], S("v"), ["b", False], ["L", []], ["n"]])
    nullpos = r.randrange(len(names))
    pairs = [[S(nm), (["n"] if i == nullpos or r.random() < 0.3 else other)] for i, nm in enumerate(names)]
    mlit = ["M", pairs]
    nm = names[nullpos]
    f = [ord(c) for c in nm]
    x, y = r.sample(range(0, 7), 2)
    bound = r.random() < 0.5
    m = ["v", x] if bound else mlit
    bind = [[x, mlit]] if bound else None
    as_json = bound and r.random() < 0.5
    Y = ["v", y]
    cases = [
        ["sel", f, m],
        ["has", f, m],
        ["idx", m, S(nm)],
        ["in", S(nm), m],
        ["==", ["sel", f, m], ["n"]],
        ["!=", ["sel", f, m], ["n"]],
        ["==", ["has", f, m], ["in", S(nm), m]],
        ["==", ["sel", f, m], ["idx", m, S(nm)]],
        ["size", m],
        ["map", y, ["L", [m]], ["sel", f, Y]],
        ["filter", y, ["L", [m, m]], ["has", f, Y]],
        ["exists", y, ["L", [m]], ["==", ["sel", f, Y], ["n"]]],
        ["map", y, m, ["has", f, m]] if not bound else ["map", y, m, ["idx", m, Y]],
        ["L", [["sel", f, m]]],
        ["M", [[S("r"), ["sel", f, m]]]],
        ["?:", ["has", f, m], ["sel", f, m], ["n"]],
        ["sel", f, ["sel", [113], ["M", [[S("q"), m]]]]],
        ["has", f, ["sel", [113], ["M", [[S("q"), m]]]]],
        ["in", ["sel", f, m], ["L", [["n"]]]],
    ]
    kk = r.choice([["i", 1], ["u", 2], ["b", True], S("z")])
    nl = ["L", [["n"]] * r.randint(1, 3)]
    more = [
        ["idx", ["M", [[kk, ["n"]]]], kk],
        ["in", kk, ["M", [[kk, ["n"]]]]],
        ["idx", nl, ["i", 0]],
        ["in", ["n"], nl],
        ["size", nl],
        ["map", y, nl, Y],
        ["filter", y, nl, ["==", Y, ["n"]]],
        ["exists_one", y, nl, ["==", Y, ["n"]]],
        ["all", y, nl, ["==", Y, ["n"]]],
        ["map", y, ["L", [["i", 1], ["i", 2]]], ["n"]],
        ["++", nl, nl],
        ["==", nl, nl],
        ["==", ["M", [[kk, ["n"]]]], ["M", [[kk, ["n"]]]]],
    ]
    out = [(bind, c, as_json) for c in r.sample(cases, 7)]
    out += [(None, c, False) for c in r.sample(more, 4)]
    return out


def bound_expr(g: "Gen", rng) -> Tuple[Any, Any]:
    """a random well-typed program over 1-3 variables supplied by the evaluation context; macro variables reuse the
    names in scope often"""
    bind, env = [], []
    for x in rng.sample(range(0, 7), rng.randint(1, 3)):
        t = g.gtype(rng.randint(0, 2))
        bind.append([x, g.lit(t, 2)])
        env.append((x, t))
    old = g.shadow
    g.shadow = 0.4
    try:
        # prefer a result type that can use the variables
        t = g.gtype(2) if rng.random() < 0.5 else rng.choice([("b",), ("L", env[0][1]), env[0][1]])
        e = g.expr(t, rng.randint(1, 4), env)
    finally:
        g.shadow = old
    return bind, e


def path_cases(g: "Gen") -> List[Tuple[Any, Any, bool]]:
    """(bindings, expression, as-JSON): field-selection PATHS of length 1..4 into nested maps (JSON-like documents:
    `resource.Placement.Zone`).  `has(e.f)` and `e.f` look at the LAST field in the value of the whole operand chain
    `e`: every prefix present and the last field present / absent / bound to null or to a falsy value, the absent name
    often a key of another level; steps written `.f` or `["f"]`; the document a literal, a context variable (built
    directly or through json_to_cel), a list element, a macro variable; `has(e.f)` iff `"f" in e`."""
    r = g.rng
    depth = r.randint(2, 4)
    lk = r.choice([("i",), ("s",), ("b",), ("d",), ("L", ("i",)), ("n",)])
    falsy = {"i": ["i", 0], "s": ["s", []], "b": ["b", False], "d": ["d", "0.0"], "L": ["L", []], "n": ["n"]}[lk[0]]

    def tree(d):
        names = r.sample(FIELDS, r.randint(1, 3 if d == depth or d == 1 else 2))
        pairs = []
        for i, nm in enumerate(names):
            if r.random() < 0.12 and not (d > 1 and i == 0):
                v = ["n"]
            elif d > 1:
                v = tree(d - 1)
            else:
                v = list(falsy) if r.random() < 0.4 else g.lit(lk, 1)
            pairs.append([S(nm), v])
        r.shuffle(pairs)
        return ["M", pairs]

    data = tree(depth)
    nodes: List[Tuple[List[str], Any]] = []          # every map of the document with the path that leads to it

    def collect(n, path):
        nodes.append((path, n))
        for kk, v in n[1]:
            if v[0] == "M":
                collect(v, path + ["".join(map(chr, kk[1]))])
    collect(data, [])
    x, y = r.sample(range(0, 7), 2)
    mode = r.choice(["lit", "var", "json", "elem", "wrapped"])
    bind = [[x, data]] if mode in ("var", "json") else None
    base = {"lit": data, "var": ["v", x], "json": ["v", x], "elem": ["idx", ["L", [data]], ["i", 0]],
            "wrapped": ["sel", [113], ["M", [[S("q"), data]]]]}[mode]

    def chain(b, path, idx_p=0.2):
        e = b
        for nm in path:
            e = ["idx", e, S(nm)] if r.random() < idx_p else ["sel", [ord(ch) for ch in nm], e]
        return e

    def pick():
        """(path of the operand, its node, a field name, present?) — long operand chains preferred"""
        path, node = r.choice([pn for pn in nodes for _ in range(1 + 3 * len(pn[0]))])
        keys = ["".join(map(chr, kk[1])) for kk, _ in node[1]]
        if keys and r.random() < 0.45:
            return path, node, r.choice(keys), True
        absent = [f for f in FIELDS + ["zz"] if f not in keys]
        return path, node, r.choice(absent), False

    out = []
    for _ in range(6):
        path, node, f, present = pick()
        fc = [ord(ch) for ch in f]
        O = chain(base, path)
        form = r.randrange(9)
        if form <= 2:
            e = ["has", fc, O]
        elif form == 3:
            e = ["==", ["has", fc, O], ["in", S(f), chain(base, path)]]
        elif form == 4:
            e = ["sel", fc, O] if r.random() < 0.6 else ["==", ["sel", fc, O], ["idx", chain(base, path), S(f)]]
        elif form == 5:
            _, _, f2, _ = pick()
            e = ["L", [["has", fc, O], ["has", [ord(ch) for ch in f2], chain(base, path)], ["in", S(f), chain(base, path)]]]
        elif form == 6:
            mk = r.choice(["map", "filter", "exists_one", "all", "exists"])
            e = [mk, y, ["L", [base] * r.randint(1, 2)], ["has", fc, chain(["v", y], path)]]
        elif form == 7:
            e = ["?:", ["has", fc, O], ["sel", fc, chain(base, path)], list(falsy) if len(path) == depth - 1 else ["sel", fc, chain(base, path)]]
        else:
            e = ["size", ["filter", y, ["L", [S(ff) for ff in FIELDS]], ["in", ["v", y], O]]]
        out.append((bind, e, mode == "json"))
    return out


# round 3: code points whose presence tells a sequence of code points from "text" — a base letter and the combining
# mark it has a precomposed form with (e U+0301 / U+00E9, A U+030A / U+00C5 / the Angstrom sign U+212B), a pair with
# no precomposed form (x U+0301), conjoining Hangul jamo / syllable, a composition-excluded letter (U+0958 = U+0915
# U+093C), compatibility characters (the fi ligature, long s with dot, the Kelvin and Ohm signs), letters whose case
# mappings change the length (sharp s, dotted / dotless i), invisible and white-space code points (NBSP, ZWSP, ZWJ)
UNI_PAIRS = [[101, 0x301], [101, 0x308], [65, 0x30A], [0x1100, 0x1161], [0x915, 0x93C], [120, 0x301], [115, 0x323, 0x307],
             [0x3A9], [0x2126], [0xE9], [0xC5], [0x212B], [0xAC00], [0x958], [0xFB01], [0x1E9B], [0x212A], [0xDF], [0x130], [0x131],
             [0xA0], [0x200B], [0x200D], [0x1F600], [102, 105], [75], [105, 0x307]]
UNI_MARKS = [0x301, 0x308, 0x30A, 0x1161, 0x93C, 0x323, 0x307]


def ustr(g: "Gen", maxp: int = 3) -> List[int]:
    r = g.rng
    out: List[int] = []
    for _ in range(r.randint(1, maxp)):
        out += r.choice(UNI_PAIRS[:7]) if r.random() < 0.5 else r.choice(UNI_PAIRS)
    return out


def uni_variants(cps: List[int]) -> List[List[int]]:
    """other code point sequences that some notion of "the same text" would identify with `cps`"""
    import unicodedata
    s = "".join(map(chr, cps))
    vs = {unicodedata.normalize(f, s) for f in ("NFC", "NFD", "NFKC", "NFKD")}
    vs |= {s.casefold(), s.lower(), s.upper(), s.strip(), s.replace("\u200b", "").replace("\u200d", "")}
    vs.discard(s)
    return sorted([ord(ch) for ch in v] for v in vs)


def unicode_cases(g: "Gen") -> List[Tuple[Any, Any, bool, bool]]:
    """(bindings, expression, as-JSON, raw source text): a CEL string is a sequence of code points, compared, measured,
    searched and concatenated as such — never normalised (NFC/NFD/NFKC/NFKD), case-folded or trimmed.  Strings with
    combining sequences and their precomposed / compatibility / case variants; concatenations whose seam separates a
    base character from its mark; as literals (escaped or raw source text), context variables, JSON data, map keys,
    list elements, macro variables, regex subjects."""
    r = g.rng
    s = ustr(g)
    t = ustr(g, 2)
    if r.random() < 0.5:                       # the seam of s + t falls between a base character and its mark
        p = r.choice(UNI_PAIRS[:7])
        s, t = s + p[:1], p[1:] + (t if r.random() < 0.5 else [])
    vs = uni_variants(s)
    v = r.choice(vs) if vs and r.random() < 0.8 else ustr(g)
    st = s + t
    stv = uni_variants(st)
    w = r.choice(stv) if stv else st[::-1]
    x, y, z = r.sample(range(0, 7), 3)
    bound = r.random() < 0.4
    as_json = bound and r.random() < 0.5
    raw = (not bound) and r.random() < 0.35
    bind = [[x, ["s", s]], [y, ["s", v]]] if bound else None
    Ss, Sv, St = (["v", x], ["v", y], ["s", t]) if bound else (["s", s], ["s", v], ["s", t])
    Z = ["v", z]
    n = len(s)
    dots = ["bol"]
    for _ in range(n):
        dots = ["cat", dots, ["any"]]
    dots = ["cat", dots, ["eol"]]
    cases = [
        ["size", Ss],
        ["==", ["msize", Ss], ["i", n]],
        ["==", ["size", ["++", Ss, St]], ["+", ["size", Ss], ["size", St]]],
        ["startsWith", ["++", Ss, St], Ss],
        ["endsWith", ["++", Ss, St], St],
        ["contains", ["++", ["++", Ss, St], Ss], St],
        ["==", ["++", Ss, St], ["s", st]],
        ["==", ["++", Ss, St], ["s", w]],
        ["startsWith", Ss, ["s", s[:1]]],
        ["endsWith", Ss, ["s", s[-1:]]],
        ["contains", Ss, ["s", s[r.randrange(n):][:r.randint(1, 2)]]],
        ["startsWith", Ss, ["s", v[:r.randint(1, len(v))]]] if v else ["size", Sv],
        ["contains", Ss, Sv],
        ["==", Ss, Sv],
        ["!=", Ss, Sv],
        ["in", Sv, ["L", [Ss]]],
        ["in", Ss, ["L", [Sv, ["s", t]]]],
        ["in", Sv, ["M", [[Ss, ["i", 1]]]]],
        ["M", [[Ss, ["i", 1]], [Sv, ["i", 2]]]],
        ["size", ["M", [[Ss, ["i", 1]], [Sv, ["i", 2]], [["s", t], ["i", 3]]]]],
        ["idx", ["M", [[Ss, ["i", 1]], [Sv, ["i", 2]]]], Sv],
        ["idx", ["M", [[Ss, ["i", 1]]]], Sv],
        ["matches", ["cat", ["bol"], ["c", s[0]]], Ss],
        ["matches", ["cat", ["c", s[-1]], ["eol"]], Ss],
        ["matches", dots, Ss],
        ["matches", ["cat", ["bol"], ["cat", ["c", v[0]], ["star", ["any"]]]] if v else ["eps"], Ss],
        ["filter", z, ["L", [Ss, Sv]], ["==", Z, Ss]],
        ["exists_one", z, ["L", [Ss, Sv, ["s", t]]], ["==", Z, Sv]],
        ["map", z, ["L", [Ss, Sv, ["++", Ss, St]]], ["size", Z]],
        ["all", z, ["L", [Ss, ["++", Ss, St]]], ["startsWith", Z, ["s", s[:1]]]],
        ["map", z, ["L", [Ss, St]], ["++", Z, St]],
        ["<", Ss, Sv],
    ]
    return [(bind, c, as_json, raw) for c in r.sample(cases, 12)]


def _rename(e, a, b):
    if not isinstance(e, list):
        return e
    if e and e[0] == "v" and e[1] == a:
        return ["v", b]
    if e and e[0] in MACROS and e[1] == a:
        return e                                   # rebinds `a`: leave the inner scope alone
    return [_rename(x, a, b) if isinstance(x, list) else x for x in e]


# ----------------------------------------------------------------------------------------------

MODEL_EXT = True         # the Lean model knows null, doubles and context bindings


def uses_ext(c) -> bool:
    if c.get("bind"):
        return True
    return any(n[0] in ("d", "n") for n, _ in walk(c["e"]))


def show_bind(c) -> str:
    if not c.get("bind"):
        return ""
    return " with " + ", ".join(f"x{x} = {to_cel(t)}" + (" (the one NaN object)" if '"nan"' in _json.dumps(t) else "")
                                for x, t in c["bind"]) + (" (via json_to_cel)" if c.get("json") else "")


C09_OPS = set(MACROS) | {"idx", "sel", "has", "size", "msize", "in", "++", "M", "matches"} | set(SFNS)


class C09(Prop):
    pid = "C09"
    manifest = dict(
        technique='Lean 4 theorems over an executable model (Cel.Model.Coll) of macros, indexing, membership, map construction, string functions and a verified regex matcher, for ALL lists / predicates / indexes / strings; tie by correspondence: type-directed program generator, both runners, Lean model as reference evaluator; independent Python reference semantics as oracle',
        text='proof: map/filter/exists_one/all/exists fold laws for arbitrary body functions and lists of any length, in = exists, string laws, every out-of-range or negative index / missing key / duplicate key / bad pattern is an error in both runner models, and the regex matcher equals the declarative matching relation; the model is compared with the implementation on generated well-typed programs and (regex, string) pairs on every run',
        note='Lean kernel; standard axioms; evaluator control flow hand-modelled and tied by correspondence; google-re2 trusted outside the verified fragment; lark',
        ref='DESIGN.md §5 C09')
    lean_targets = ["Cel.Props.C09", "Cel.Bridge.Coll"]
    audit_namespaces = ["Cel.Props.C09", "Cel.Bridge"]
    gen_names = ["Coll"]
    trusted = ["google-re2 outside the fragment {literal, ., class, *, +, ?, |, concatenation, grouping, ^, $}",
               "Python `re` as the oracle's matcher on that fragment", "lark parsing of the rendered CEL text",
               "CPython list/dict/str primitives (modelled, compared through correspondence)",
               "IEEE-754 binary64: Lean `Float` (opaque to the kernel) = CPython float, compared through correspondence"]
    rule = ("type-directed random programs (depth<=4) over int/uint/bool/string and lists/maps of them nested <=3: literals, index "
            "(in-range, boundary, negative, int64 extremes), map lookup/select/has, in, size, + concat, string functions, matches over "
            "generated regex trees and a list of invalid patterns, the five macros over lists and maps, &&, ||, !, ?:, arithmetic; each on both runners; "
            "closed law instances (in=exists, size(map)=size, filter subset, exists_one=count, startsWith/endsWith/size of concat, index errors); "
            "(regex,string) pairs against function_matches, rendered with minimal parentheses (bare `a|b`, `a|`, one operator among letters); "
            "macros over index lists with errors before/between/after >= 2 matches; nested macros whose inner body reads the outer variable; "
            "round 2: element/value kinds double (NaN, +-inf, -0.0 included) and null, present keys bound to null (JSON-like data); programs over 1-3 variables "
            "supplied by the evaluation context (built directly or through json_to_cel), macro variables that reuse a name in scope (a context variable, the "
            "enclosing macro's variable) with the outer name used again after the inner macro; ONE object on both sides of `in` / `==` (a variable used twice, "
            "an element taken from the list it is tested against, a macro variable ranging over the list; every NaN of an activation is the same object); "
            "null in every position (select / index / has / in / macro bodies / branches). round 3: field-selection paths of length 1-4 into nested maps (every "
            "prefix present, the last field present / absent / null / falsy, steps as .f or [\"f\"], document as literal / context variable / JSON / list element / "
            "macro variable; has(e.f) against \"f\" in e); strings over combining sequences and their precomposed / compatibility / case variants (NFC, NFD, NFKC, "
            "NFKD, case mappings), concatenations whose seam separates a base character from its mark, as escaped or raw literals, context variables, map keys, "
            "regex subjects. non-trivial = distinct case on which the reference semantics gives a verdict and "
            "which uses at least one list/map/string/macro operation")

    def generate(self, rng, tier):
        quick = tier == "quick"
        g = Gen(rng)
        cases: List[Dict[str, Any]] = []
        n_expr = 560 if quick else 14000
        for i in range(n_expr):
            t = g.gtype(2)
            e = g.expr(t, rng.randint(1, 4), [])
            for rn in ("I", "C"):
                cases.append({"kind": "expr", "runner": rn, "e": e})
        for i in range(22 if quick else 500):
            for e in law_cases(g):
                for rn in ("I", "C"):
                    cases.append({"kind": "expr", "runner": rn, "e": e})
        for i in range(22 if quick else 500):
            for e in error_position_cases(g) + outer_variable_cases(g):
                for rn in ("I", "C"):
                    cases.append({"kind": "expr", "runner": rn, "e": e})
        # round 2: variables supplied by the evaluation context, names bound at two levels, one object on both
        # sides of a comparison, null as an ordinary value
        def add(bind, e, as_json=False, raw=False):
            for rn in ("I", "C"):
                c = {"kind": "expr", "runner": rn, "e": e}
                if bind:
                    c["bind"] = bind
                if as_json:
                    c["json"] = True
                if raw:
                    c["raw"] = True
                cases.append(c)
        for i in range(110 if quick else 3000):
            add(*bound_expr(g, rng))
        for i in range(8 if quick else 200):
            for b, e in shadow_cases(g) + identity_cases(g):
                add(b, e)
            for b, e, js in null_cases(g):
                add(b, e, js)
        # round 3: selection paths into nested documents; strings as plain code point sequences
        for i in range(8 if quick else 200):
            for b, e, js in path_cases(g):
                add(b, e, js)
            for b, e, js, raw in unicode_cases(g):
                add(b, e, js, raw)
        for i in range(1000 if quick else 40000):
            cases.append({"kind": "re", "re": g.regex(rng.randint(1, 4)), "s": g.restr()})
        for i in range(60 if quick else 2000):
            for t in bare_regex_cases(g):
                cases.append({"kind": "re", "re": t, "s": g.restr()})
                if i % 4 == 0:
                    for rn in ("I", "C"):
                        cases.append({"kind": "expr", "runner": rn, "e": ["matches", t, ["s", g.restr()]]})
        for p in BAD_PATTERNS:
            cases.append({"kind": "re", "re": ["bad", p], "s": [97]})
        return cases

    # ---- implementation
    def impl(self, c):
        if '"bad"' in _json_dumps(c):
            with _quiet_stderr():            # RE2 logs every rejected pattern on fd 2
                return self._impl(c)
        return self._impl(c)

    def _impl(self, c):
        if c["kind"] == "re":
            from celpy.evaluation import function_matches, CELEvalError
            try:
                v = function_matches("".join(map(chr, c["s"])), re_text(c["re"]))
            except Exception as ex:  # noqa
                return f"EXC {type(ex).__name__}"
            if isinstance(v, CELEvalError):
                return "err"
            return "T" if v else "F"
        try:
            with raw_strings(c.get("raw")):
                src = to_cel(c["e"])
        except RecursionError:
            return "EXC RecursionError"
        return run_cel(src, c["runner"], c.get("bind"), bool(c.get("json")))

    # ---- model
    def model_line(self, c):
        if c["kind"] == "re":
            if c["re"][0] == "bad":
                return None
            return f"re {stok(c['s'])} {re_tokens(c['re'])}"
        if not MODEL_EXT and uses_ext(c):
            return None
        if c.get("bind"):
            env = "".join(f" {x} {to_model(t)}" for x, t in c["bind"])
            return f"{c['runner']} env {len(c['bind'])}{env} {to_model(c['e'])}"
        return f"{c['runner']} {to_model(c['e'])}"

    def model_expect(self, c, m):
        return m

    # ---- oracle
    def oracle(self, c, out):
        if c["kind"] == "re":
            if c["re"][0] == "bad":
                return None if out == "err" else f"invalid pattern {c['re'][1]!r} gave {out}; must be an error"
            exp = "T" if ref_search(c["re"], c["s"]) else "F"
            if out != exp:
                return f"matches({re_text(c['re'])!r}, {''.join(map(chr, c['s']))!r}) gave {out}; reference matcher says {exp}"
            return None
        exp = Ref().outcome(c["e"], c.get("bind"))
        if exp is None:
            return None
        if exp == "err":
            if out == "err" or out.startswith("EXC "):
                return None
            return f"runner {c['runner']}: {to_cel(c['e'])!r}{show_bind(c)} gave the value {out}; the CEL definition prescribes an evaluation error"
        if out != exp:
            return f"runner {c['runner']}: {to_cel(c['e'])!r}{show_bind(c)} gave {out}; reference semantics give {exp}"
        return None

    def nontrivial(self, c, out):
        if c["kind"] == "re":
            return c["re"][0] not in ("c", "eps", "bad")
        if Ref().outcome(c["e"], c.get("bind")) is None:
            return False
        return any(n[0] in C09_OPS for n, _ in walk(c["e"]))

    def known_preds(self):
        return {"has_operand_error": has_operand_error,
                "compiled_errvalue_leak": compiled_errvalue_leak,
                "compiled_has_pybool": compiled_has_pybool}


def has_operand_error(c) -> bool:
    if c.get("kind") != "expr":
        return False
    r = Ref()
    r.outcome(c["e"], c.get("bind"))
    return r.has_operand_error


ERRVALUE_SOURCES = {"?:", "&&", "||"}
UNAWARE_CONSUMERS = {"L", "M", "map", "filter", "exists_one"}


def compiled_errvalue_leak(c) -> bool:
    """D7 family (finding of C03, templates pinned): in transpiled code `?:`, `&&`, `||` (through result()) and
    `matches` with an invalid pattern yield a CELEvalError *object*; inside a list/map literal or a map/filter/
    exists_one body nothing inspects it, so it ends up inside a value (or counts as truthy)."""
    if c.get("kind") != "expr" or c.get("runner") != "C":
        return False
    for n, anc in walk(c["e"]):
        src = n[0] in ERRVALUE_SOURCES or (n[0] == "matches" and n[1][0] == "bad")
        if src and set(anc) & UNAWARE_CONSUMERS:
            return True
    return False


def _flows_pybool(n) -> bool:
    """can the value of `n` be the native bool of a transpiled has()?"""
    k = n[0]
    if k == "has":
        return True
    if k == "?:":
        return _flows_pybool(n[2]) or _flows_pybool(n[3])
    if k in ("&&", "||"):
        return _flows_pybool(n[1]) or _flows_pybool(n[2])
    return False


def compiled_has_pybool(c) -> bool:
    """D6 (finding, template pinned): the transpiled has() yields a native Python bool, which `!`, the
    condition of `?:`, `&&`/`||` against another non-BoolType, the all/exists fold and a map key lookup
    reject (TypeError)."""
    if c.get("kind") != "expr" or c.get("runner") != "C":
        return False
    for n, _ in walk(c["e"]):
        k = n[0]
        if k == "not" and _flows_pybool(n[1]):
            return True
        if k == "?:" and _flows_pybool(n[1]):
            return True
        if k in ("&&", "||") and (_flows_pybool(n[1]) or _flows_pybool(n[2])):
            return True
        if k in ("all", "exists") and _flows_pybool(n[3]):
            return True
        if k == "idx" and _flows_pybool(n[2]):          # MapType.valid_key_type rejects a native bool
            return True
    return False


PROP = C09()
